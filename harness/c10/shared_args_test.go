package c10

// shared_args: the HOSTILE / SHARED CALLER (round 9).
//
// The other two searches give every call arguments of its own. An application
// does not: it keeps one set of common attributes and hands that very slice
// to every span it touches, from all of its goroutines at once. For the
// caller that is reading shared memory, which is free of races; it stays so
// only if the span methods do not write to what they are lent. The arguments
// are hostile as well: invalid (empty key) attributes at generated places,
// repeated keys, every value type, slices with spare capacity, lengths from 1
// over the 8/9/10 boundary to a few thousand, and every span limit from 0 over
// "exactly fits" to unlimited, so that each path of SetAttributes / AddEvent /
// AddLink / RecordError / Start (WithAttributes, WithLinks) and the sampler's
// SamplingResult.Attributes is taken with lent memory.
//
// Program: G goroutines; each owns a span nobody else touches and all share
// one further span. Step by step (a spin barrier releases every step) each
// goroutine applies its ops, the arguments coming from ONE pool of slices
// shared by all goroutines, and then Ends its own span.
//
// Oracle:
//   - a span only one goroutine touches has a sequential history, whatever the
//     others do meanwhile to THEIR spans: every one of its mutations returned
//     before its End was issued, so each is "completely present in the
//     exported snapshot". What "completely present" looks like under the
//     case's limits is taken from a reference span: the same ops applied
//     beforehand, alone, with private copies of the arguments, on the same
//     provider configured alike (sequential run versus concurrent run of the same calls -
//     linearisability of a private object - not a copy of the
//     implementation's rules). Attributes (order, values), dropped counts,
//     events, links and the child count must be equal; so must those of the
//     spans the ops started.
//   - the shared span (unlimited cases): every valid key of every slice that a
//     SetAttributes call on it was given is present with the slice's last
//     value for that key.
//   - every span is delivered exactly once; no data race, panic or deadlock.
//
// Not asserted (class label only): whether the library left the lent slices as
// they were - the statement does not say so; writes to them show up as races
// and as torn mutations of the neighbours, which it does.

import (
	"context"
	"errors"
	"fmt"
	"io"
	"runtime"
	rtrace "runtime/trace"
	"strings"
	"sync/atomic"
	"testing"
	"time"

	"go.opentelemetry.io/otel"
	"go.opentelemetry.io/otel/attribute"
	sdktrace "go.opentelemetry.io/otel/sdk/trace"
	"go.opentelemetry.io/otel/trace"
	"go.opentelemetry.io/otel/verif/internal/vk"
	"pgregory.net/rapid"
)

// ArgEntry describes one element of a lent attribute slice.
type ArgEntry struct {
	K int `json:"k"`           // 0 valid, 1 invalid (empty key), 2 the key of the entry one pattern length earlier again (valid, repeated key)
	T int `json:"t,omitempty"` // value: 0 string, 1 int64, 2 string slice, 3 bool
	L int `json:"l,omitempty"` // length of the string(s)
}

// ArgSlice is one slice of the pool: N elements, element j made after
// Pattern[j % len(Pattern)], Spare further elements of capacity.
type ArgSlice struct {
	Pattern []ArgEntry `json:"pattern"`
	N       int        `json:"n"`
	Spare   int        `json:"spare,omitempty"`
}

// ArgOp is one step of one goroutine.
type ArgOp struct {
	K string `json:"k"`           // attrs event link error start
	A int    `json:"a"`           // the pool slice it lends
	B int    `json:"b"`           // start: the pool slice lent as the attributes of a link (-1 none); attrs/event: a second slice given in the same call (-1 none)
	T int    `json:"t,omitempty"` // 0 the goroutine's own span, 1 the span all goroutines share
	P int    `json:"p,omitempty"` // perturbation before the op
	// W = 1 (attrs event error start, own span only): the arguments are not
	// lent from the pool but a buffer of the calling goroutine with the same
	// content, which the goroutine overwrites (every element) as soon as the
	// call has returned, as a caller that builds its arguments in a scratch
	// buffer does: what the span keeps it must have copied. (Not for link: a
	// trace.Link is a value that the span keeps as it was given, attribute
	// slice included; whether that slice may alias the caller's memory the
	// statement does not say.)
	W int `json:"w,omitempty"`
	// O = 1 (event error start): the OPTIONS are lent too: the call is given
	// opts... from an option slice with spare capacity that all goroutines
	// share (len 1, cap 4, built once per run for every pool slice).
	O int `json:"o,omitempty"`
}

// lendErrorOptions: whether the generator draws O = 1 for RecordError. On the
// pinned tree RecordError appended its exception attributes to the variadic
// slice it was given (span.go, `opts = append(opts, ...)`), i.e. wrote into
// the spare capacity of the caller's slice: two goroutines recording errors on
// DIFFERENT spans with one shared option slice raced (report of the race
// detector) and a span got the exception.message of the other goroutine's
// error (51 of 8000 spans without -race). Genuine, inside the statement
// (RecordError is in the quantified set; "no data race", "every concurrent
// mutation is either completely present ... or completely absent"); repaired
// by /repo 257a3ca, regression replay
// replays/regress/C10/recorderror_lent_options_race.json.
const lendErrorOptions = true

// ArgCase is one generated program.
type ArgCase struct {
	Pool  []ArgSlice `json:"pool"`
	Progs [][]ArgOp  `json:"progs"`
	// span limits; -1 unlimited
	AttrCount int `json:"attr_count"`
	ValueLen  int `json:"value_len"`
	PerEvent  int `json:"per_event"`
	PerLink   int `json:"per_link"`
	// SamplerAttrs >= 0: the sampler hands that pool slice out as
	// SamplingResult.Attributes of every span it is asked about
	SamplerAttrs int  `json:"sampler_attrs"`
	Trace        bool `json:"runtime_trace,omitempty"`
	Runs         int  `json:"runs"`
}

func genArgLen(t *rapid.T) int {
	switch rapid.IntRange(0, 5).Draw(t, "len_class") {
	case 0:
		return rapid.IntRange(7, 11).Draw(t, "len_boundary")
	case 1:
		// log scale: the longer the slice the longer a call works on it
		e := rapid.IntRange(4, 10).Draw(t, "len_exp")
		return rapid.IntRange(1<<e, 2<<e-1).Draw(t, "len_big")
	}
	return rapid.IntRange(1, 6).Draw(t, "len")
}

func genArgs(t *rapid.T) ArgCase {
	c := ArgCase{Runs: 2}
	np := rapid.IntRange(1, 3).Draw(t, "pool")
	maxValid := 0
	for i := 0; i < np; i++ {
		s := ArgSlice{N: genArgLen(t), Spare: rapid.SampledFrom([]int{0, 0, 1, 4}).Draw(t, "spare")}
		hostile := rapid.IntRange(0, 3).Draw(t, "hostile") != 0 // three in four slices hold something invalid
		for j, n := 0, rapid.IntRange(1, 6).Draw(t, "pattern"); j < n; j++ {
			e := ArgEntry{K: rapid.SampledFrom([]int{0, 0, 0, 1, 1, 2}).Draw(t, "entry"), T: rapid.IntRange(0, 3).Draw(t, "type")}
			if !hostile && e.K == 1 {
				e.K = 0
			}
			if e.T == 0 || e.T == 2 {
				e.L = rapid.SampledFrom([]int{0, 1, 3, 4, 10, 200}).Draw(t, "strlen")
			}
			s.Pattern = append(s.Pattern, e)
		}
		if hostile && rapid.Bool().Draw(t, "invalid_first") {
			s.Pattern[0].K = 1
		}
		if s.N > maxValid {
			maxValid = s.N
		}
		c.Pool = append(c.Pool, s)
	}
	pick := func(label string) int { return rapid.IntRange(0, np-1).Draw(t, label) }
	limit := func(label string) int {
		switch rapid.IntRange(0, 5).Draw(t, label+"_class") {
		case 0:
			return 128 // the default
		case 1:
			return rapid.IntRange(0, 5).Draw(t, label+"_small")
		case 2:
			// around what one slice needs
			return c.Pool[pick(label+"_of")].N + rapid.IntRange(-1, 1).Draw(t, label+"_fit")
		}
		return -1
	}
	c.AttrCount, c.PerEvent, c.PerLink = limit("attr_count"), limit("per_event"), limit("per_link")
	for _, p := range []*int{&c.AttrCount, &c.PerEvent, &c.PerLink} {
		if *p < -1 {
			*p = -1
		}
	}
	c.ValueLen = rapid.SampledFrom([]int{-1, -1, -1, 0, 3, 64}).Draw(t, "value_len")
	c.SamplerAttrs = -1
	if rapid.IntRange(0, 3).Draw(t, "sampler_lends") == 0 {
		c.SamplerAttrs = pick("sampler_attrs")
	}
	c.Trace = rapid.IntRange(0, 3).Draw(t, "runtime_trace") == 0
	ng := rapid.IntRange(2, 8).Draw(t, "goroutines")
	genProg := func() []ArgOp {
		var ops []ArgOp
		for i, n := 0, rapid.IntRange(1, 4).Draw(t, "ops"); i < n; i++ {
			op := ArgOp{K: rapid.SampledFrom([]string{"attrs", "attrs", "attrs", "event", "link", "error", "start"}).Draw(t, "kind"),
				A: pick("a"), B: -1, P: rapid.IntRange(0, 2).Draw(t, "p")}
			if rapid.IntRange(0, 2).Draw(t, "second_slice") == 0 {
				op.B = pick("b")
			}
			if rapid.IntRange(0, 4).Draw(t, "on_shared_span") == 0 {
				op.T = 1
			}
			if op.T == 0 && op.K != "link" && rapid.IntRange(0, 3).Draw(t, "scribble") == 0 {
				op.W = 1
			}
			if (op.K == "event" || op.K == "start" || op.K == "error" && lendErrorOptions) && rapid.IntRange(0, 2).Draw(t, "lend_options") == 0 {
				op.O = 1
			}
			ops = append(ops, op)
		}
		return ops
	}
	// mostly everybody runs the same program: the same slice is then in use
	// on G different spans at the same moment, step after step
	same := rapid.IntRange(0, 3).Draw(t, "same_program") != 0
	first := genProg()
	for g := 0; g < ng; g++ {
		if same || g == 0 {
			c.Progs = append(c.Progs, append([]ArgOp{}, first...))
		} else {
			c.Progs = append(c.Progs, genProg())
		}
	}
	return c
}

// build makes slice i of the pool (fresh memory on every call).
func (c ArgCase) build(i int) []attribute.KeyValue {
	s := c.Pool[i]
	n, spare := s.N, s.Spare
	if n < 0 {
		n = 0
	}
	if spare < 0 {
		spare = 0
	}
	out := make([]attribute.KeyValue, 0, n+spare)
	if len(s.Pattern) == 0 {
		return out
	}
	for j := 0; j < n; j++ {
		e := s.Pattern[j%len(s.Pattern)]
		key := fmt.Sprintf("p%d.k%d", i, j)
		switch e.K {
		case 1:
			key = ""
		case 2:
			if j >= len(s.Pattern) {
				key = fmt.Sprintf("p%d.k%d", i, j-len(s.Pattern))
			}
		}
		l := e.L
		if l < 0 {
			l = 0
		}
		// substrings of package-level strings: with this toolchain a string that
		// the compiler may keep in a stack buffer (str+"z", string(rune), and
		// strings.Repeat(x, 1) which returns x itself) and that is put directly
		// in the []string handed to attribute.StringSlice ends up as garbage
		// bytes in the attribute value (the attribute package's reflect.Copy
		// keeps pointing at the buffer) - nothing to do with this property, see
		// the report of round 9
		if l > len(letterRuns[0])-1 {
			l = len(letterRuns[0]) - 1
		}
		str, str2 := letterRuns[j%26][:l], letterRuns[j%26][:l+1]
		var kv attribute.KeyValue
		switch e.T {
		case 1:
			kv = attribute.Int64(key, int64(j))
		case 2:
			kv = attribute.StringSlice(key, []string{str, str2})
		case 3:
			kv = attribute.Bool(key, j%2 == 0)
		default:
			kv = attribute.String(key, str)
		}
		out = append(out, kv)
	}
	return out
}

// letterRuns[i] is 256 times the letter 'a'+i.
var letterRuns = func() (out [26]string) {
	for i := range out {
		out[i] = strings.Repeat(string(rune('a'+i)), 256)
	}
	return
}()

// lendSampler records and samples every span and, if told so, hands out a
// slice it keeps (the same one for every span) as the result's attributes.
type lendSampler struct{ attrs []attribute.KeyValue }

func (s lendSampler) ShouldSample(p sdktrace.SamplingParameters) sdktrace.SamplingResult {
	return sdktrace.SamplingResult{Decision: sdktrace.RecordAndSample, Attributes: s.attrs, Tracestate: trace.SpanContextFromContext(p.ParentContext).TraceState()}
}
func (lendSampler) Description() string { return "c10.lendSampler" }

// argPrint renders everything of a snapshot that a sequential history of
// mutations determines (no ids, no clock readings).
func argPrint(s sdktrace.ReadOnlySpan) string {
	var b strings.Builder
	list := func(kvs []attribute.KeyValue) {
		for _, kv := range kvs {
			fmt.Fprintf(&b, " %q=%s:%s", string(kv.Key), kv.Value.Type(), kv.Value.Emit())
		}
	}
	fmt.Fprintf(&b, "attributes[%d dropped]:", s.DroppedAttributes())
	list(s.Attributes())
	for _, e := range s.Events() {
		fmt.Fprintf(&b, "\nevent %q [%d dropped]:", e.Name, e.DroppedAttributeCount)
		list(e.Attributes)
	}
	for _, l := range s.Links() {
		fmt.Fprintf(&b, "\nlink %s [%d dropped]:", l.SpanContext.SpanID(), l.DroppedAttributeCount)
		list(l.Attributes)
	}
	fmt.Fprintf(&b, "\nchildren=%d dropped events=%d links=%d status=%d", s.ChildSpanCount(), s.DroppedEvents(), s.DroppedLinks(), s.Status().Code)
	return b.String()
}

func firstDiff(a, b string) string {
	la, lb := strings.Split(a, "\n"), strings.Split(b, "\n")
	for i := 0; i < len(la) || i < len(lb); i++ {
		var x, y string
		if i < len(la) {
			x = la[i]
		}
		if i < len(lb) {
			y = lb[i]
		}
		if x != y {
			// cut the common prefix of long lines
			p := 0
			for p < len(x) && p < len(y) && x[p] == y[p] {
				p++
			}
			if p > 60 {
				x, y = "..."+x[p-40:], "..."+y[p-40:]
			}
			if len(x) > 400 {
				x = x[:400] + "..."
			}
			if len(y) > 400 {
				y = y[:400] + "..."
			}
			return fmt.Sprintf("alone: %s | concurrently: %s", x, y)
		}
	}
	return ""
}

func runArgsOnce(c ArgCase) ([]vk.Violation, vk.Info) {
	var vs []vk.Violation
	var info vk.Info
	bad := func(kind, format string, a ...any) { vs = append(vs, vk.V(kind, format, a...)) }
	otel.SetErrorHandler(&vk.ErrCapture{})
	if c.Trace {
		if err := rtrace.Start(io.Discard); err == nil {
			defer rtrace.Stop()
		}
	}
	np := len(c.Pool)
	if np == 0 || len(c.Progs) == 0 {
		return nil, info
	}
	idx := func(i int) int { return ((i % np) + np) % np }
	// the pool every goroutine borrows from, and a private copy to compare with
	pool := make([][]attribute.KeyValue, np)
	orig := make([][]attribute.KeyValue, np)
	for i := range pool {
		pool[i] = c.build(i)
		orig[i] = c.build(i)
	}
	limits := unlimited()
	limits.AttributeCountLimit, limits.AttributeValueLengthLimit = c.AttrCount, c.ValueLen
	limits.AttributePerEventCountLimit, limits.AttributePerLinkCountLimit = c.PerEvent, c.PerLink
	clock := &vk.Clock{}
	proc := &recProcessor{clock: clock, ends: map[trace.SpanID][]delivery{}}
	var sampler lendSampler
	var samplerOrig []attribute.KeyValue
	if c.SamplerAttrs >= 0 {
		// a slice of its own (same content as the pool slice): the sampler is one
		// more party that lends the same memory to every Start
		sampler.attrs = c.build(idx(c.SamplerAttrs))
		samplerOrig = c.build(idx(c.SamplerAttrs))
	}
	tp := sdktrace.NewTracerProvider(sdktrace.WithRawSpanLimits(limits), sdktrace.WithSampler(sampler), sdktrace.WithSpanProcessor(proc))
	defer func() { _ = tp.Shutdown(context.Background()) }()
	tr := tp.Tracer("c10.shared_args")
	// the reference calls are made on a provider of their own, configured alike
	// (its sampler lends a slice of its own): the concurrent phase must be the
	// first to use what is lent to it
	refSampler := sampler
	if c.SamplerAttrs >= 0 {
		refSampler.attrs = c.build(idx(c.SamplerAttrs))
	}
	tpRef := sdktrace.NewTracerProvider(sdktrace.WithRawSpanLimits(limits), sdktrace.WithSampler(refSampler), sdktrace.WithSpanProcessor(proc))
	defer func() { _ = tpRef.Shutdown(context.Background()) }()
	trRef := tpRef.Tracer("c10.shared_args")

	var linkID trace.SpanID
	copy(linkID[:], "linklink")
	linkSC := trace.NewSpanContext(trace.SpanContextConfig{TraceID: trace.TraceID{9}, SpanID: linkID})

	// apply performs one op on sp with arguments from src; spans it starts are
	// appended to *started (ended at once).
	type optPool struct {
		ev []([]trace.EventOption)
		st []([]trace.SpanStartOption)
	}
	mkOpts := func(src [][]attribute.KeyValue) optPool {
		var o optPool
		for i := range src {
			o.ev = append(o.ev, append(make([]trace.EventOption, 0, 4), trace.WithAttributes(src[i]...)))
			o.st = append(o.st, append(make([]trace.SpanStartOption, 0, 4), trace.WithAttributes(src[i]...)))
		}
		return o
	}
	apply := func(tr trace.Tracer, sp trace.Span, ctx context.Context, op ArgOp, src [][]attribute.KeyValue, so optPool, scribble bool, tag string, started *[]trace.Span) {
		a := src[idx(op.A)]
		var b []attribute.KeyValue
		if op.B >= 0 {
			b = src[idx(op.B)]
		}
		if op.W == 1 && op.T == 0 && op.K != "link" {
			// the caller's own scratch buffer
			a = c.build(idx(op.A))
			if scribble {
				defer func() {
					for j := range a {
						a[j] = attribute.String("scribbled", "after the call returned")
					}
				}()
			}
		} else if op.O == 1 {
			switch op.K {
			case "event":
				sp.AddEvent("ev", so.ev[idx(op.A)]...)
				return
			case "error":
				sp.RecordError(errors.New("err."+tag[strings.Index(tag, ".")+1:]), so.ev[idx(op.A)]...)
				return
			case "start":
				_, ch := tr.Start(ctx, "started."+tag, so.st[idx(op.A)]...)
				ch.End()
				*started = append(*started, ch)
				return
			}
		}
		switch op.K {
		case "attrs":
			sp.SetAttributes(a...)
			if op.B >= 0 {
				sp.SetAttributes(b...)
			}
		case "event":
			if op.B >= 0 {
				sp.AddEvent("ev", trace.WithAttributes(a...), trace.WithAttributes(b...))
			} else {
				sp.AddEvent("ev", trace.WithAttributes(a...))
			}
		case "link":
			sp.AddLink(trace.Link{SpanContext: linkSC, Attributes: a})
		case "error":
			sp.RecordError(errors.New("err."+tag[strings.Index(tag, ".")+1:]), trace.WithAttributes(a...))
		case "start":
			so := []trace.SpanStartOption{trace.WithAttributes(a...)}
			if op.B >= 0 {
				so = append(so, trace.WithLinks(trace.Link{SpanContext: linkSC, Attributes: b}))
			}
			_, ch := tr.Start(ctx, "started."+tag, so...)
			ch.End()
			*started = append(*started, ch)
		}
	}

	G := len(c.Progs)
	// ---- reference: every goroutine's program alone, private arguments ----
	refOwn := make([]trace.Span, G)
	refStarted := make([][]trace.Span, G)
	for g := 0; g < G; g++ {
		private := make([][]attribute.KeyValue, np)
		for i := range private {
			private[i] = c.build(i)
		}
		ctx, sp := trRef.Start(context.Background(), fmt.Sprintf("ref.g%d", g))
		refOwn[g] = sp
		for i, op := range c.Progs[g] {
			if op.T == 1 {
				continue
			}
			apply(trRef, sp, ctx, op, private, mkOpts(private), false, fmt.Sprintf("ref.g%d.i%d", g, i), &refStarted[g])
		}
		sp.End()
	}

	// ---- the same programs at the same time, arguments from the shared pool ----
	own := make([]trace.Span, G)
	ownCtx := make([]context.Context, G)
	ownStarted := make([][]trace.Span, G)
	// started by goroutine 0 together with the goroutines' own spans (the step
	// barrier that follows publishes it to the others)
	var commonCtx context.Context
	var common trace.Span
	steps := 0
	for _, p := range c.Progs {
		if len(p) > steps {
			steps = len(p)
		}
	}
	arrived := make([]atomic.Int32, steps+1)
	sharedOpts := mkOpts(pool)
	var starting atomic.Int32
	vk.Parallel(G, func(g int) {
		var sink []trace.Span
		// every goroutine starts its own span, all at the same moment (the
		// sampler, if it lends, lends its slice to all of these Starts)
		starting.Add(1)
		for starting.Load() < int32(G) {
			runtime.Gosched()
		}
		ownCtx[g], own[g] = tr.Start(context.Background(), fmt.Sprintf("own.g%d", g))
		if g == 0 {
			commonCtx, common = tr.Start(context.Background(), "common")
		}
		for i := 0; i < steps; i++ {
			arrived[i].Add(1)
			for arrived[i].Load() < int32(G) {
				runtime.Gosched()
			}
			if i >= len(c.Progs[g]) {
				continue
			}
			op := c.Progs[g][i]
			vk.Perturb(op.P)
			if op.T == 1 {
				apply(tr, common, commonCtx, op, pool, sharedOpts, true, fmt.Sprintf("common.g%d.i%d", g, i), &sink)
			} else {
				apply(tr, own[g], ownCtx[g], op, pool, sharedOpts, true, fmt.Sprintf("own.g%d.i%d", g, i), &ownStarted[g])
			}
		}
		own[g].End()
	})
	common.End()

	// ---- oracle ----
	snapOf := func(sp trace.Span, what string) (sdktrace.ReadOnlySpan, bool) {
		proc.mu.Lock()
		ds := proc.ends[sp.SpanContext().SpanID()]
		proc.mu.Unlock()
		if len(ds) != 1 {
			bad("delivery_count", "%s was delivered %d time(s); End was called once", what, len(ds))
			return nil, false
		}
		return ds[0].ro, true
	}
	compare := func(ref, got trace.Span, what string, g int) {
		r, ok1 := snapOf(ref, what+" (reference)")
		o, ok2 := snapOf(got, what)
		if !ok1 || !ok2 {
			return
		}
		if a, b := argPrint(r), argPrint(o); a != b {
			bad("mutation_torn", "%s, which only goroutine %d touches, was given %v (arguments lent from a pool of slices that %d goroutines use on their own spans at the same time) and exports something else than the same calls made alone with private arguments: the mutations are not completely present. First difference - %s", what, g, c.Progs[g], G, firstDiff(a, b))
		}
	}
	usesInvalid, big := false, false
	for g := 0; g < G; g++ {
		compare(refOwn[g], own[g], fmt.Sprintf("span own.g%d", g), g)
		if len(refStarted[g]) != len(ownStarted[g]) {
			bad("harness", "goroutine %d started %d spans alone and %d concurrently", g, len(refStarted[g]), len(ownStarted[g]))
			continue
		}
		for k := range refStarted[g] {
			compare(refStarted[g][k], ownStarted[g][k], fmt.Sprintf("span #%d started by goroutine %d (WithAttributes / WithLinks)", k, g), g)
		}
	}
	// the span everybody shares
	if c.AttrCount == -1 && c.ValueLen == -1 {
		if ro, ok := snapOf(common, "the shared span"); ok {
			have := map[attribute.Key]attribute.Value{}
			for _, kv := range ro.Attributes() {
				have[kv.Key] = kv.Value
			}
			need := map[int]bool{}
			for _, p := range c.Progs {
				for _, op := range p {
					if op.T == 1 && op.K == "attrs" {
						need[idx(op.A)] = true
						if op.B >= 0 {
							need[idx(op.B)] = true
						}
					}
				}
			}
			for i := range need {
				want := map[attribute.Key]attribute.Value{}
				for _, kv := range orig[i] {
					if kv.Valid() {
						want[kv.Key] = kv.Value
					}
				}
				missing, wrong := 0, 0
				for k, v := range want {
					if hv, ok := have[k]; !ok {
						missing++
					} else if hv.Emit() != v.Emit() || hv.Type() != v.Type() {
						wrong++
					}
				}
				if missing+wrong > 0 {
					bad("mutation_torn", "the shared span: SetAttributes with pool slice %d (%d valid keys) returned before End was issued, yet %d of its keys are absent from the snapshot and %d carry another value than the slice's last one", i, len(want), missing, wrong)
				}
			}
			info.ClassIf(len(need) > 0, "shared_span_given_lent_slices_by_several_goroutines")
		}
	} else {
		snapOf(common, "the shared span")
	}
	// class labels
	changed := false
	for i := range pool {
		if len(pool[i]) != len(orig[i]) {
			changed = true
			continue
		}
		for j := range pool[i] {
			if pool[i][j].Key != orig[i][j].Key || pool[i][j].Value.Emit() != orig[i][j].Value.Emit() {
				changed = true
			}
		}
		for _, kv := range orig[i] {
			if !kv.Valid() {
				usesInvalid = true
			}
		}
		if len(orig[i]) >= 64 {
			big = true
		}
	}
	for j := range samplerOrig {
		if sampler.attrs[j].Key != samplerOrig[j].Key || sampler.attrs[j].Value.Emit() != samplerOrig[j].Value.Emit() {
			changed = true
		}
	}
	sameSliceTwoSpans := false
	for i := 0; i < steps; i++ {
		seen := map[int]int{}
		for g := 0; g < G; g++ {
			if i < len(c.Progs[g]) && c.Progs[g][i].T == 0 {
				seen[idx(c.Progs[g][i].A)]++
			}
		}
		for _, n := range seen {
			if n >= 2 {
				sameSliceTwoSpans = true
			}
		}
	}
	kinds := map[string]bool{}
	for _, p := range c.Progs {
		for _, op := range p {
			kinds[op.K] = true
		}
	}
	for k := range kinds {
		info.Class("lent_to_" + k)
	}
	labels := map[string]bool{}
	for _, p := range c.Progs {
		for _, op := range p {
			if op.W == 1 && op.T == 0 && op.K != "link" {
				labels["own_argument_buffer_overwritten_after_the_call"] = true
			} else if op.O == 1 && (op.K == "event" || op.K == "start" || op.K == "error") {
				labels["option_slice_with_spare_capacity_lent_to_"+op.K] = true
			}
		}
	}
	for l := range labels {
		info.Class(l)
	}
	info.NonTrivial = sameSliceTwoSpans
	info.ClassIf(sameSliceTwoSpans, "one_slice_lent_to_calls_on_different_spans_in_the_same_step")
	info.ClassIf(usesInvalid, "lent_slice_holds_invalid_attributes")
	info.ClassIf(big, "lent_slice_of_64_or_more_elements")
	info.ClassIf(changed, "NOT_ASSERTED_lent_slice_was_changed_by_the_library")
	info.ClassIf(c.AttrCount == 0, "attribute_count_limit_zero")
	info.ClassIf(c.AttrCount > 0, "attribute_count_limit_set")
	info.ClassIf(c.AttrCount == -1, "attribute_count_unlimited")
	info.ClassIf(c.ValueLen >= 0, "value_length_limit_set")
	info.ClassIf(c.PerEvent >= 0 || c.PerLink >= 0, "per_event_or_per_link_limit_set")
	info.ClassIf(c.SamplerAttrs >= 0, "sampler_lends_one_slice_to_every_span")
	info.ClassIf(c.Trace, "runtime_trace_enabled")
	return vs, info
}

func runArgs(c ArgCase) ([]vk.Violation, vk.Info) {
	runs := c.Runs
	if runs < 1 {
		runs = 1
	}
	var vs []vk.Violation
	var info vk.Info
	for i := 0; i < runs && len(vs) == 0; i++ {
		vs, info = runArgsOnce(c)
	}
	return vs, info
}

func TestSharedArgs(t *testing.T) {
	vk.Run(t, vk.Spec[ArgCase]{
		Property: "C10", Check: "shared_args",
		Rule: "2..8 goroutines, each with a span of its own plus one span they all share, apply step by step (spin barrier) SetAttributes / AddEvent / AddLink / RecordError / Start(WithAttributes, WithLinks) with arguments lent from ONE pool of 1..3 attribute slices (1..2047 elements, invalid empty-key and repeated-key elements at generated places, every value type, spare capacity) under generated span limits (0, small, exactly fitting, default, unlimited), optionally a sampler lending one slice to every span, runtime/trace on or off, each program run twice under -race; oracle: a span only one goroutine touches exports exactly what the same calls made alone with private arguments export; " +
			"non-trivial = in some step one slice is lent to calls on two or more different spans; distinct = distinct case encodings",
		Quick: 200, Thorough: 3500,
		Gen: genArgs, Run: runArgs, Repeat: 200,
		CaseTimeout: 60 * time.Second,
	})
}
