// Package c10 decides property C10 (a span ends exactly once; the tracing
// API is safe under concurrent use) with generated racing programs on shared
// spans, with and without Go execution tracing, under the race detector.
//
// Three searches (the third, shared_args, is described in
// shared_args_test.go):
//
//   - span_concurrent: 2..8 goroutines apply generated sequences of End,
//     End(WithTimestamp), tagged SetAttributes batches, AddEvent, AddLink,
//     RecordError, SetStatus, SetName, IsRecording, child Start and
//     provider-level calls (Tracer, Register/UnregisterSpanProcessor,
//     ForceFlush) to 1..3 shared spans; 1..3 recording processors.
//   - end_race: G goroutines end the same N spans, released together span by
//     span through a spin barrier (the harness tightens the schedule from the
//     outside), which is what reaches the window between the release and the
//     re-acquisition of the span lock around the execution-tracer task end.
//
// Oracle (schedule independent, logical clock from the harness):
//   - every span on which End was called is delivered to every permanently
//     registered processor exactly once, with one end time; never without End;
//   - a mutation whose call returned before the first End was issued is
//     completely present in the exported snapshot, one issued after some End
//     had returned is completely absent, anything in between is all or
//     nothing (attribute batches use keys private to the batch, events and
//     links carry their tag in every attribute);
//   - the snapshot read again after all goroutines finished equals the deep
//     copy taken inside OnEnd;
//   - IsRecording() is false once an End call has returned;
//   - ChildSpanCount lies between the children whose Start returned before
//     the first End was issued and those whose Start was issued before the
//     first End returned;
//   - no data race (race detector), no panic, every goroutine finishes
//     (watchdog).
//
// Span limits are set to unlimited so that drops do not blur atomicity.
//
// Dimensions added in round 8:
//
//   - TIME. Every shared span draws its start (explicit instants from 1906 to
//     2191: before the epoch, the epoch, the past, the future; or the wall
//     clock with its monotonic reading) and every End(WithTimestamp) draws its
//     end as a signed offset from that start (before it, exactly at it, a
//     nanosecond around it, log-scale up to ten years on either side). "A
//     single end time" is read as: (a) the exported end time is the one some
//     End call supplied - one of the explicit timestamps, or, when a plain End
//     took part, possibly a reading of the clock taken during the run (judged
//     with an hour of slack on either side, the interesting errors are years
//     off); (b) every processor sees that end time; (c) the span itself (the
//     ReadWriteSpan a processor kept from OnStart, read inside OnEnd, and
//     span.(ReadOnlySpan) read when everything is over) reports that very end
//     time too. Both sub-checks.
//   - the snapshot fingerprint also covers start time, kind, parent, span
//     context, dropped counts, scope and the events' times.
//   - op read: every getter of the span (except Attributes, see KF below) runs
//     concurrently with the mutators and End; op isrec is judged (false once
//     an End call has returned); op endpanic: End called while panicking
//     (deferred), with and without WithStackTrace: its exception event is all
//     or nothing, at most once, absent after an End had returned. Whether a
//     losing End's event is kept, and that the panic continues, is documented
//     behaviour of End but not part of this property: class labels only.
//   - ReEnd: a registered processor whose OnEnd calls back into the span being
//     ended (End again, mutators, child Start) and into the provider.
//   - child ops with trace.WithNewRoot(): such a span has no parent, it must
//     not be counted ("child counts are exact"; ChildSpanCount is documented
//     as "the count of spans that consider the span a direct parent").
//
// Dimensions added in round 9:
//
//   - LIFE CYCLE of the provider as part of the program. span_concurrent: one
//     case in three holds 1..2 TracerProvider.Shutdown ops (plain or with a
//     cancelled context; the first or the second provider) at generated places
//     of generated goroutines, i.e. before, while and after the spans that
//     were started earlier End; the re-entrant processor may call Shutdown
//     from inside OnEnd (ReEnd bit 32); ForceFlush on either provider, also
//     with a cancelled context. end_race: one case in four has a further
//     goroutine that calls Shutdown while span k is being ended by the racing
//     goroutines. What is decided: a span ALL of whose End calls had returned
//     before Shutdown was first issued is delivered exactly once; a span with
//     an End still running or not yet issued by then at most once (Shutdown:
//     "all registered span processors are shut down ... After Shutdown is
//     called, all methods are no-ops"; the statement speaks of registered
//     processors - nothing says whether such a span still reaches them).
//     Whatever the provider's state: IsRecording() is false once End has
//     returned, and a span on which End was called has an end time, one that
//     an End call supplied (kinds recording_after_end, no_end_time,
//     end_time_invented), also when it was not delivered.
//   - the HOSTILE / SHARED CALLER: sub-check shared_args, see
//     shared_args_test.go.
//
// Defects of the pinned tree met by these dimensions:
//
//   - repaired (/repo 257a3ca, regression replay
//     replays/regress/C10/recorderror_lent_options_race.json): RecordError
//     appended to the option slice it was given (shared_args_test.go,
//     lendErrorOptions).
//
//   - repaired (/repo 53f7114, regression replay
//     replays/regress/C10/new_root_counted_as_child.json): tracer.Start bumped
//     the child counter of the span found in the context before it looked at
//     WithNewRoot; violation kind child_count_includes_new_root.
//
//   - outside the quantified domain (the quantifier lists End, SetAttributes,
//     AddEvent, AddLink, SetStatus, SetName, RecordError, IsRecording and
//     child Start, not the ReadOnlySpan getters), observed only:
//     recordingSpan.Attributes() de-duplicates in place, i.e. re-writes the
//     array the exported snapshot shares with identical values while
//     processors read the snapshot - a race report without any observable
//     effect. A race report stops the run, so op read calls Attributes() only
//     when Op.C == 1, which the generator does not draw;
//     testdata/attributes-getter-race.json replays it.
package c10

import (
	"context"
	"errors"
	"fmt"
	"github.com/go-logr/logr"
	"io"
	"runtime"
	rtrace "runtime/trace"
	"sort"
	"strings"
	"sync"
	"sync/atomic"
	"testing"
	"time"

	"go.opentelemetry.io/otel"
	"go.opentelemetry.io/otel/attribute"
	"go.opentelemetry.io/otel/codes"
	sdktrace "go.opentelemetry.io/otel/sdk/trace"
	"go.opentelemetry.io/otel/trace"
	"go.opentelemetry.io/otel/verif/internal/vk"
	"pgregory.net/rapid"
)

// Op is one step of one goroutine.
type Op struct {
	K  string `json:"k"`            // endpanic read end endts attrs event link error status name isrec child tracer regproc unregproc flush shutdown
	S  int    `json:"s"`            // span index
	N  int    `json:"n,omitempty"`  // number of attributes (attrs/event/link)
	P  int    `json:"p,omitempty"`  // perturbation before the op
	TS int64  `json:"ts,omitempty"` // endts: offset in ms relative to the span's start time (signed: an end time may lie before the start)
	NS int64  `json:"ns,omitempty"` // endts: further offset in ns (added to TS)
	C  int    `json:"c,omitempty"`  // status: code 1 Error, 2 Ok; child: 1 = the sampler drops this child, 2 = record-only child; shutdown: 1 = the SECOND provider; flush: 1 = the second provider
}

// Case is one generated program.
type Case struct {
	Spans      int    `json:"spans"`
	Processors int    `json:"processors"`
	Trace      bool   `json:"runtime_trace"`
	Progs      [][]Op `json:"progs"`
	Runs       int    `json:"runs"`
	// RecOnly: bit i set = shared span i is RECORD-ONLY (a custom sampler's
	// decision: recording, not sampled). It is a recording span like any other:
	// every clause applies to it.
	RecOnly int `json:"rec_only,omitempty"`
	// StartShare: one more registered processor whose OnStart hands "racy"
	// children (op racychild) to a goroutine of its own, which mutates and
	// Ends the child while Tracer.Start may still be running.
	StartShare bool `json:"start_share,omitempty"`
	// ReLogger: the process-wide otel logger (all verbosity levels on) is a
	// sink that calls back into the TracerProvider on every log line - a
	// collaborator the SDK calls, like exporters and processors.
	ReLogger bool `json:"re_logger,omitempty"`
	// StartAt: per shared span the explicit start timestamp in Unix
	// nanoseconds (anywhere between 1906 and 2191: before the epoch, the epoch
	// itself, the past, the future); absent = the fixed 2023 instants of the
	// first version of this check. StartWall: bit i set = span i is started
	// without a timestamp (wall clock, with a monotonic reading).
	StartAt   []int64 `json:"start_at,omitempty"`
	StartWall int     `json:"start_wall,omitempty"`
	// ReEnd != 0: one more registered processor whose OnEnd calls back into
	// the span that is being ended (the ReadWriteSpan it kept from OnStart) and
	// into the provider. Bits: 1 End again, 2 SetAttributes+AddEvent, 4
	// IsRecording+SetName+SetStatus, 8 start (and end) a child of it, 16
	// ForceFlush+Tracer, 32 TracerProvider.Shutdown (the provider is shut down
	// from inside the first OnEnd that reaches this processor).
	ReEnd int `json:"re_end,omitempty"`
}

func legacyStart(i int) int64 { return (1700000000 + int64(i)) * 1e9 }

// genStart draws the start instant of span i: -1 = wall clock.
func genStart(t *rapid.T, i int) int64 {
	switch rapid.IntRange(0, 5).Draw(t, "start_class") {
	case 2: // in the future: a plain End then lies before the start
		return rapid.Int64Range(2_000_000_000_000_000_000, 7_000_000_000_000_000_000).Draw(t, "start_future")
	case 3: // anywhere in the past, also before 1970
		return rapid.Int64Range(-2_000_000_000_000_000_000, 1_600_000_000_000_000_000).Draw(t, "start_past")
	case 4:
		return rapid.SampledFrom([]int64{0, 1, -1, 1_000_000_000, 4_102_444_800_000_000_000}).Draw(t, "start_boundary")
	case 5:
		return -1 << 63
	}
	return legacyStart(i)
}

// genEndOffset draws the explicit end time of an End(WithTimestamp) as an
// offset from the span's start: after, before, exactly at, a nanosecond
// around, and log-scale far away (up to about ten years) on either side.
func genEndOffset(t *rapid.T) (ms, ns int64) {
	switch rapid.IntRange(0, 6).Draw(t, "end_class") {
	case 2:
		return rapid.Int64Range(-1000, -1).Draw(t, "ts_before"), 0
	case 3:
		return 0, rapid.SampledFrom([]int64{0, 1, -1}).Draw(t, "ns_at_start")
	case 4:
		e := rapid.IntRange(0, 11).Draw(t, "ts_exp")
		v := rapid.Int64Range(1, 9).Draw(t, "ts_mant")
		for i := 0; i < e; i++ {
			v *= 10
		}
		if v > 315_000_000_000 {
			v = 315_000_000_000
		}
		if rapid.Bool().Draw(t, "ts_neg") {
			v = -v
		}
		return v, 0
	case 5:
		return rapid.Int64Range(-1000, 1000).Draw(t, "ts_around"), rapid.Int64Range(0, 999_999).Draw(t, "ns")
	}
	return rapid.Int64Range(1, 1000).Draw(t, "ts"), 0
}

func gen(t *rapid.T) Case {
	c := Case{}
	c.Spans = rapid.IntRange(1, 3).Draw(t, "spans")
	c.Processors = rapid.IntRange(1, 3).Draw(t, "processors")
	c.Trace = rapid.Bool().Draw(t, "runtime_trace")
	for i := 0; i < c.Spans; i++ {
		at := genStart(t, i)
		if at == -1<<63 {
			c.StartWall |= 1 << i
			at = legacyStart(i)
		}
		c.StartAt = append(c.StartAt, at)
	}
	ng := rapid.IntRange(2, 8).Draw(t, "goroutines")
	kinds := []string{"endpanic", "read", "read", "end", "end", "end", "endts", "attrs", "attrs", "attrs", "event", "event", "link", "error", "status", "name", "isrec", "child", "child", "tracer", "regproc", "unregproc", "flush", "panicerror", "slowerror"}
	if rapid.IntRange(0, 2).Draw(t, "rec_only_spans") == 0 {
		c.RecOnly = rapid.IntRange(1, 1<<c.Spans-1).Draw(t, "rec_only")
	}
	c.ReLogger = rapid.IntRange(0, 3).Draw(t, "reentrant_logger") == 0
	if rapid.IntRange(0, 2).Draw(t, "reentrant_on_end") == 0 {
		c.ReEnd = rapid.IntRange(1, 31).Draw(t, "reentrant_on_end_actions")
		if rapid.IntRange(0, 5).Draw(t, "reentrant_shutdown") == 0 {
			c.ReEnd |= 32
		}
	}
	if c.StartShare = rapid.IntRange(0, 2).Draw(t, "start_share") == 0; c.StartShare {
		kinds = append(kinds, "racychild", "racychild", "racychild")
	}
	for g := 0; g < ng; g++ {
		n := rapid.IntRange(1, 10).Draw(t, "ops")
		var ops []Op
		for i := 0; i < n; i++ {
			op := Op{K: rapid.SampledFrom(kinds).Draw(t, "kind"), S: rapid.IntRange(0, c.Spans-1).Draw(t, "span"), P: rapid.IntRange(0, 3).Draw(t, "p")}
			switch op.K {
			case "attrs", "event", "link":
				op.N = rapid.IntRange(2, 5).Draw(t, "n")
			case "endts":
				op.TS, op.NS = genEndOffset(t)
			case "status":
				op.C = rapid.IntRange(1, 2).Draw(t, "code")
			case "child":
				op.C = rapid.SampledFrom([]int{0, 0, 1, 2}).Draw(t, "child_decision")
				// N odd: the child is started through a tracer of a SECOND
				// TracerProvider (the shared span still is its parent)
				op.N = rapid.SampledFrom([]int{0, 0, 0, 1}).Draw(t, "other_provider")
				// N bit 1: started with WithNewRoot: the new span has NO parent
				// although the shared span is in the context it is started with
				if rapid.IntRange(0, 5).Draw(t, "new_root") == 0 {
					op.N |= 2
				}
			case "endpanic":
				op.C = rapid.IntRange(0, 1).Draw(t, "stack_trace")
			case "flush":
				op.C = rapid.SampledFrom([]int{0, 0, 1}).Draw(t, "flush_provider")
				op.N = rapid.SampledFrom([]int{0, 0, 1}).Draw(t, "flush_ctx_cancelled")
			case "racychild":
				op.C = rapid.IntRange(0, 3).Draw(t, "sharer_action")
			}
			ops = append(ops, op)
		}
		c.Progs = append(c.Progs, ops)
	}
	// LIFE CYCLE of the provider as part of the program (one case in three):
	// 1..2 TracerProvider.Shutdown calls (N=1: with a context that is already
	// cancelled; C=1: the second provider) at generated places of generated
	// goroutines, i.e. before, while and after the spans started earlier End.
	if rapid.IntRange(0, 2).Draw(t, "life_cycle") == 0 {
		for k, n := 0, rapid.IntRange(1, 2).Draw(t, "shutdowns"); k < n; k++ {
			g := rapid.IntRange(0, len(c.Progs)-1).Draw(t, "shutdown_goroutine")
			at := rapid.IntRange(0, len(c.Progs[g])).Draw(t, "shutdown_at")
			op := Op{K: "shutdown", P: rapid.IntRange(0, 3).Draw(t, "p"),
				C: rapid.SampledFrom([]int{0, 0, 0, 1}).Draw(t, "shutdown_provider"),
				N: rapid.SampledFrom([]int{0, 0, 1}).Draw(t, "shutdown_ctx_cancelled")}
			ops := append([]Op{}, c.Progs[g][:at]...)
			ops = append(ops, op)
			c.Progs[g] = append(ops, c.Progs[g][at:]...)
		}
	}
	c.Runs = 3
	return c
}

// ---------------------------------------------------------------------

type snapCopy struct {
	name      string
	attrs     map[string]string
	attrOrder []string // the keys in the order the snapshot lists them
	events    []string // rendered "name|k=v|k=v"
	links     []string
	status    string
	end       time.Time
	children  int
	// the rest of what a snapshot exposes, rendered
	fixed string
}

func render(kvs []attribute.KeyValue) string {
	parts := make([]string, len(kvs))
	for i, kv := range kvs {
		parts[i] = string(kv.Key) + "=" + kv.Value.Emit()
	}
	sort.Strings(parts)
	return strings.Join(parts, "|")
}

func copySnap(s sdktrace.ReadOnlySpan) snapCopy {
	sc := snapCopy{name: s.Name(), attrs: map[string]string{}, end: s.EndTime(), children: s.ChildSpanCount()}
	for _, kv := range s.Attributes() {
		sc.attrs[string(kv.Key)] = kv.Value.Emit()
		sc.attrOrder = append(sc.attrOrder, string(kv.Key))
	}
	for _, e := range s.Events() {
		sc.events = append(sc.events, e.Name+"#"+render(e.Attributes))
	}
	for _, l := range s.Links() {
		sc.links = append(sc.links, l.SpanContext.SpanID().String()+"#"+render(l.Attributes))
	}
	st := s.Status()
	sc.status = fmt.Sprintf("%d/%s", st.Code, st.Description)
	var evt []string
	for _, e := range s.Events() {
		evt = append(evt, fmt.Sprintf("%d+%d", e.Time.UnixNano(), e.DroppedAttributeCount))
	}
	sc.fixed = fmt.Sprintf("start=%d kind=%d parent=%s ctx=%s/%s/%s dropped=%d/%d/%d scope=%s eventtimes=%v",
		s.StartTime().UnixNano(), s.SpanKind(), s.Parent().SpanID(), s.SpanContext().TraceID(), s.SpanContext().SpanID(), s.SpanContext().TraceFlags(),
		s.DroppedAttributes(), s.DroppedEvents(), s.DroppedLinks(), s.InstrumentationScope().Name, evt)
	return sc
}

func (a snapCopy) equal(b snapCopy) string {
	if a.name != b.name {
		return fmt.Sprintf("name %q -> %q", a.name, b.name)
	}
	if a.status != b.status {
		return fmt.Sprintf("status %q -> %q", a.status, b.status)
	}
	if !a.end.Equal(b.end) {
		return fmt.Sprintf("end time %v -> %v", a.end, b.end)
	}
	if a.children != b.children {
		return fmt.Sprintf("child count %d -> %d", a.children, b.children)
	}
	if len(a.attrs) != len(b.attrs) {
		return fmt.Sprintf("%d attributes -> %d", len(a.attrs), len(b.attrs))
	}
	for k, v := range a.attrs {
		if b.attrs[k] != v {
			return fmt.Sprintf("attribute %q %q -> %q", k, v, b.attrs[k])
		}
	}
	if strings.Join(a.attrOrder, "\x00") != strings.Join(b.attrOrder, "\x00") {
		return fmt.Sprintf("attribute order %q -> %q", a.attrOrder, b.attrOrder)
	}
	if strings.Join(a.events, ";") != strings.Join(b.events, ";") {
		return fmt.Sprintf("events %v -> %v", a.events, b.events)
	}
	if strings.Join(a.links, ";") != strings.Join(b.links, ";") {
		return fmt.Sprintf("links %v -> %v", a.links, b.links)
	}
	if a.fixed != b.fixed {
		return fmt.Sprintf("%s -> %s", a.fixed, b.fixed)
	}
	return ""
}

// endJudge decides whether an exported end time is "the single end time" of
// the span: the timestamp one of the End calls supplied. offered are the
// explicit timestamps of the End(WithTimestamp) calls made on the span; plain
// says that some End call had no timestamp (it supplies a reading of the
// clock taken during the run, i.e. between t0 and t1; an hour of slack on
// either side so that no clock adjustment can matter - this is about
// end times that are years off, not about durations).
func endJudge(end time.Time, offered []time.Time, plain bool, t0, t1 time.Time) string {
	for _, o := range offered {
		if end.Equal(o) {
			return ""
		}
	}
	if !plain {
		return fmt.Sprintf("ended at %s, which no End call supplied (every End call had an explicit timestamp: %s)", fmtT(end), fmtTs(offered))
	}
	if end.Before(t0.Add(-time.Hour)) || end.After(t1.Add(time.Hour)) {
		return fmt.Sprintf("ended at %s, which is neither one of the explicit timestamps %s nor a reading of the clock during the run (%s .. %s)", fmtT(end), fmtTs(offered), fmtT(t0), fmtT(t1))
	}
	return ""
}

func fmtT(t time.Time) string { return t.UTC().Format("2006-01-02T15:04:05.000000000Z") }
func fmtTs(ts []time.Time) string {
	out := make([]string, len(ts))
	for i, t := range ts {
		out[i] = fmtT(t)
	}
	return "[" + strings.Join(out, " ") + "]"
}

type delivery struct {
	at   int64
	snap snapCopy
	ro   sdktrace.ReadOnlySpan
	// what the span itself (the ReadWriteSpan this processor kept from OnStart)
	// reported as its end time while OnEnd ran
	hasLive bool
	liveEnd time.Time
}

type recProcessor struct {
	clock  *vk.Clock
	mu     sync.Mutex
	ends   map[trace.SpanID][]delivery
	live   []sdktrace.ReadWriteSpan // every span seen in OnStart (kept: a processor may look at it later)
	liveBy map[trace.SpanID]sdktrace.ReadWriteSpan
}

func (p *recProcessor) OnStart(_ context.Context, s sdktrace.ReadWriteSpan) {
	id := s.SpanContext().SpanID()
	p.mu.Lock()
	p.live = append(p.live, s)
	if p.liveBy == nil {
		p.liveBy = map[trace.SpanID]sdktrace.ReadWriteSpan{}
	}
	p.liveBy[id] = s
	p.mu.Unlock()
}

// inspect reads every span the processor was given in OnStart through all
// its getters (as a processor that kept the span may do at any time, also
// after End): reading must not change what was exported.
func (p *recProcessor) inspect() {
	p.mu.Lock()
	live := append([]sdktrace.ReadWriteSpan{}, p.live...)
	p.mu.Unlock()
	for _, s := range live {
		_ = s.Name()
		_ = s.Attributes()
		_ = s.Events()
		_ = s.Links()
		_ = s.Status()
		_ = s.EndTime()
		_ = s.StartTime()
		_ = s.DroppedAttributes()
		_ = s.DroppedEvents()
		_ = s.DroppedLinks()
		_ = s.ChildSpanCount()
		_ = s.Parent()
		_ = s.SpanKind()
		_ = s.Resource()
		_ = s.InstrumentationScope()
		_ = s.IsRecording()
		_ = s.SpanContext()
	}
}
func (p *recProcessor) OnEnd(s sdktrace.ReadOnlySpan) {
	d := delivery{at: p.clock.Tick(), snap: copySnap(s), ro: s}
	id := s.SpanContext().SpanID()
	p.mu.Lock()
	kept := p.liveBy[id]
	p.mu.Unlock()
	if kept != nil {
		d.hasLive, d.liveEnd = true, kept.EndTime()
	}
	p.mu.Lock()
	p.ends[s.SpanContext().SpanID()] = append(p.ends[s.SpanContext().SpanID()], d)
	p.mu.Unlock()
}
func (p *recProcessor) Shutdown(context.Context) error   { return nil }
func (p *recProcessor) ForceFlush(context.Context) error { return nil }

type opRec struct {
	op         Op
	g, i       int
	start, end int64
	tag        string
	recAfter   bool         // IsRecording() observed right after the op (end ops)
	isRec      bool         // isrec: what IsRecording() answered
	recovered  string       // endpanic: what the caller recovered
	child      trace.SpanID // child / racychild: the span the op started
	fin        int64        // when the whole op was over (child ops: after the child's End returned)
	// slowerror: clock instants inside the error's Error method, which the SDK
	// calls while it holds the span's lock (0 = never called)
	errEnter, errExit int64
}

// slowErr is an error whose Error method takes a while: the span's lock is
// held meanwhile, so no End can complete in between.
type slowErr struct {
	clock *vk.Clock
	rec   *opRec
}

func (e *slowErr) Error() string {
	e.rec.errEnter = e.clock.Tick()
	time.Sleep(300 * time.Microsecond)
	e.rec.errExit = e.clock.Tick()
	return "slow." + e.rec.tag
}

// reSink is a logr sink with every level enabled that uses the provider on
// each line it is given: obtains a tracer for a scope of its own (new on the
// first line, cached afterwards) and takes its own lock, as a real sink does.
type reSink struct {
	tp *sdktrace.TracerProvider
	mu sync.Mutex
	n  int
}

func (s *reSink) Init(logr.RuntimeInfo) {}
func (s *reSink) Enabled(int) bool      { return true }
func (s *reSink) touch() {
	s.mu.Lock()
	s.n++
	n := s.n
	s.mu.Unlock()
	_ = s.tp.Tracer(fmt.Sprintf("from.logger.%d", n%3))
}
func (s *reSink) Info(int, string, ...any)       { s.touch() }
func (s *reSink) Error(error, string, ...any)    { s.touch() }
func (s *reSink) WithValues(...any) logr.LogSink { return s }
func (s *reSink) WithName(string) logr.LogSink   { return s }

// panicErr is an error whose Error method dereferences its nil receiver.
type panicErr struct{ msg string }

func (e *panicErr) Error() string { return e.msg }

// shareProcessor hands the children named child.racy.<action>.* it sees in
// OnStart to a goroutine of its own: that goroutine mutates the span and Ends
// it, possibly before Tracer.Start has returned to the goroutine that started
// it (which Ends the child as well).
type shareProcessor struct {
	done sync.Map // trace.SpanID -> chan struct{}
}

func (p *shareProcessor) OnStart(_ context.Context, s sdktrace.ReadWriteSpan) {
	name := s.Name()
	if !strings.HasPrefix(name, "child.racy.") {
		return
	}
	ch := make(chan struct{})
	p.done.Store(s.SpanContext().SpanID(), ch)
	go func() {
		defer close(ch)
		switch name[len("child.racy."):][0] {
		case '1':
			s.SetName(name + ".renamed")
		case '2':
			s.SetAttributes(attribute.String("sharer", "x"))
		case '3':
			s.AddEvent("sharer")
			_ = s.IsRecording()
		}
		s.End()
	}()
}
func (p *shareProcessor) OnEnd(sdktrace.ReadOnlySpan)      {}
func (p *shareProcessor) Shutdown(context.Context) error   { return nil }
func (p *shareProcessor) ForceFlush(context.Context) error { return nil }
func (p *shareProcessor) wait(id trace.SpanID) {
	if ch, ok := p.done.Load(id); ok {
		<-ch.(chan struct{})
	}
}

// reProcessor is the re-entrant collaborator: its OnEnd uses the span that is
// being ended and the provider (once per span, so that a span that is wrongly
// delivered twice does not recurse without end).
type reProcessor struct {
	mode int
	tp   *sdktrace.TracerProvider
	// mode&32: when (harness clock) the Shutdown call made from OnEnd was issued
	clock  *vk.Clock
	shutAt atomic.Int64
	mu     sync.Mutex
	kept   map[trace.SpanID]sdktrace.ReadWriteSpan
	seen   map[trace.SpanID]bool
	n      atomic.Int64
}

func (p *reProcessor) OnStart(_ context.Context, s sdktrace.ReadWriteSpan) {
	id := s.SpanContext().SpanID()
	p.mu.Lock()
	p.kept[id] = s
	p.mu.Unlock()
}

func (p *reProcessor) OnEnd(s sdktrace.ReadOnlySpan) {
	if strings.HasPrefix(s.Name(), "child.") {
		return
	}
	id := s.SpanContext().SpanID()
	p.mu.Lock()
	live, again := p.kept[id], p.seen[id]
	p.seen[id] = true
	p.mu.Unlock()
	if live == nil || again {
		return
	}
	p.n.Add(1)
	if p.mode&1 != 0 {
		live.End()
		live.End(trace.WithTimestamp(time.Unix(1, 0)))
	}
	if p.mode&2 != 0 {
		live.SetAttributes(attribute.String("reentrant", "x"))
		live.AddEvent("reentrant")
		live.AddLink(trace.Link{SpanContext: trace.NewSpanContext(trace.SpanContextConfig{TraceID: trace.TraceID{7}, SpanID: trace.SpanID{7}})})
	}
	if p.mode&4 != 0 {
		_ = live.IsRecording()
		live.SetName("reentrant")
		live.SetStatus(codes.Error, "reentrant")
		live.RecordError(errors.New("reentrant"))
	}
	if p.mode&8 != 0 {
		_, ch := p.tp.Tracer("c10.reentrant").Start(trace.ContextWithSpan(context.Background(), live), "child.reentrant")
		ch.End()
	}
	if p.mode&16 != 0 {
		_ = p.tp.ForceFlush(context.Background())
		_ = p.tp.Tracer("c10.reentrant.2")
	}
	if p.mode&32 != 0 && p.shutAt.CompareAndSwap(0, p.clock.Tick()) {
		_ = p.tp.Shutdown(context.Background())
	}
}
func (p *reProcessor) Shutdown(context.Context) error   { return nil }
func (p *reProcessor) ForceFlush(context.Context) error { return nil }

// nameSampler drops spans named child.drop.*, records-only child.recordonly.*
// and samples everything else.
type nameSampler struct{}

func (nameSampler) ShouldSample(p sdktrace.SamplingParameters) sdktrace.SamplingResult {
	res := sdktrace.SamplingResult{Decision: sdktrace.RecordAndSample, Tracestate: trace.SpanContextFromContext(p.ParentContext).TraceState()}
	switch {
	case strings.HasPrefix(p.Name, "child.drop."):
		res.Decision = sdktrace.Drop
	case strings.HasPrefix(p.Name, "child.recordonly."), strings.HasPrefix(p.Name, "recordonly."):
		res.Decision = sdktrace.RecordOnly
	}
	return res
}
func (nameSampler) Description() string { return "c10.nameSampler" }

func spanName(c Case, i int) string {
	if c.RecOnly>>i&1 == 1 {
		return fmt.Sprintf("recordonly.span%d", i)
	}
	return fmt.Sprintf("span%d", i)
}

func unlimited() sdktrace.SpanLimits {
	return sdktrace.SpanLimits{AttributeValueLengthLimit: -1, AttributeCountLimit: -1, EventCountLimit: -1, LinkCountLimit: -1, AttributePerEventCountLimit: -1, AttributePerLinkCountLimit: -1}
}

func runOnce(c Case) ([]vk.Violation, map[string]bool) {
	var vs []vk.Violation
	classes := map[string]bool{}
	bad := func(kind, format string, a ...any) { vs = append(vs, vk.V(kind, format, a...)) }
	mark := func(cond bool, label string) {
		if cond {
			classes[label] = true
		}
	}
	otel.SetErrorHandler(&vk.ErrCapture{})

	if c.Trace {
		if err := rtrace.Start(io.Discard); err == nil {
			defer rtrace.Stop()
		}
	}
	clock := &vk.Clock{}
	procs := make([]*recProcessor, c.Processors)
	// children may be sampled out or record-only (decided by their name): a
	// span's child count is about the spans that consider it their parent,
	// whatever the sampler answered for them
	opts := []sdktrace.TracerProviderOption{sdktrace.WithRawSpanLimits(unlimited()), sdktrace.WithSampler(nameSampler{})}
	rep := &reProcessor{mode: c.ReEnd, clock: clock, kept: map[trace.SpanID]sdktrace.ReadWriteSpan{}, seen: map[trace.SpanID]bool{}}
	for i := range procs {
		procs[i] = &recProcessor{clock: clock, ends: map[trace.SpanID][]delivery{}}
		opts = append(opts, sdktrace.WithSpanProcessor(procs[i]))
		if i == 0 && c.ReEnd != 0 {
			// between the recording processors: the first one copies the
			// snapshot before, the others after the re-entrant calls
			opts = append(opts, sdktrace.WithSpanProcessor(rep))
		}
	}
	share := &shareProcessor{}
	if c.StartShare {
		opts = append(opts, sdktrace.WithSpanProcessor(share))
	}
	tp := sdktrace.NewTracerProvider(opts...)
	tr := tp.Tracer("c10")
	rep.tp = tp
	if c.ReLogger {
		otel.SetLogger(logr.New(&reSink{tp: tp}))
		defer otel.SetLogger(logr.Discard())
		classes["logger_calls_back_into_the_provider"] = true
	}
	// a second provider in the same process: children started through its
	// tracer have the shared span as parent all the same (and are delivered to
	// ITS processor, not to the first provider's)
	proc2 := &recProcessor{clock: clock, ends: map[trace.SpanID][]delivery{}}
	tp2 := sdktrace.NewTracerProvider(sdktrace.WithRawSpanLimits(unlimited()), sdktrace.WithSampler(nameSampler{}), sdktrace.WithSpanProcessor(proc2))
	tr2 := tp2.Tracer("c10.other")
	// every regproc op registers a processor of its own (a processor registered
	// twice is legitimately delivered to twice); unregproc removes the one the
	// same goroutine registered last.
	var xmu sync.Mutex
	var extras []*recProcessor
	mine := make([][]*recProcessor, len(c.Progs))
	// when each extra processor's Register call returned / its Unregister call
	// was issued (never = still registered at the end)
	regEnd := map[*recProcessor]int64{}
	unregStart := map[*recProcessor]int64{}
	unregEnd := map[*recProcessor]int64{} // when the Unregister call returned

	spans := make([]trace.Span, c.Spans)
	ctxs := make([]context.Context, c.Spans)
	starts := make([]time.Time, c.Spans)
	t0 := time.Now()
	for i := range spans {
		at := legacyStart(i)
		if i < len(c.StartAt) {
			at = c.StartAt[i]
		}
		if c.StartWall>>i&1 == 1 {
			ctxs[i], spans[i] = tr.Start(context.Background(), spanName(c, i))
			// what the span says its start is (without the monotonic reading:
			// explicit end timestamps are plain wall clock instants)
			starts[i] = spans[i].(sdktrace.ReadOnlySpan).StartTime().Round(0)
			classes["span_started_by_the_wall_clock"] = true
			continue
		}
		starts[i] = time.Unix(0, at)
		ctxs[i], spans[i] = tr.Start(context.Background(), spanName(c, i), trace.WithTimestamp(starts[i]))
		mark(starts[i].After(t0), "span_start_in_the_future")
		mark(at < 0, "span_start_before_1970")
	}
	endAt := func(op Op) time.Time {
		return starts[op.S].Add(time.Duration(op.TS)*time.Millisecond + time.Duration(op.NS))
	}

	var rmu sync.Mutex
	var recs []*opRec
	vk.Parallel(len(c.Progs), func(g int) {
		for i, op := range c.Progs[g] {
			vk.Perturb(op.P)
			r := &opRec{op: op, g: g, i: i, tag: fmt.Sprintf("g%di%d", g, i)}
			sp := spans[op.S]
			kvs := func(n int) []attribute.KeyValue {
				out := make([]attribute.KeyValue, n)
				for j := range out {
					out[j] = attribute.String(fmt.Sprintf("%s.%d", r.tag, j), r.tag)
				}
				return out
			}
			r.start = clock.Tick()
			switch op.K {
			case "end":
				sp.End()
				r.recAfter = sp.IsRecording()
			case "endts":
				sp.End(trace.WithTimestamp(endAt(op)))
				r.recAfter = sp.IsRecording()
			case "attrs":
				sp.SetAttributes(kvs(op.N)...)
			case "event":
				sp.AddEvent("ev."+r.tag, trace.WithAttributes(kvs(op.N)...))
			case "link":
				var sid trace.SpanID
				copy(sid[:], fmt.Sprintf("%08d", g*100+i))
				sp.AddLink(trace.Link{SpanContext: trace.NewSpanContext(trace.SpanContextConfig{TraceID: trace.TraceID{9}, SpanID: sid}), Attributes: kvs(op.N)})
			case "error":
				sp.RecordError(errors.New("err." + r.tag))
			case "slowerror":
				sp.RecordError(&slowErr{clock: clock, rec: r})
			case "panicerror":
				// a failing collaborator: the error's Error method panics (typed
				// nil pointer) and the caller recovers; the span must stay usable
				func() {
					defer func() { _ = recover() }()
					var pe *panicErr
					sp.RecordError(pe)
				}()
			case "status":
				sp.SetStatus(codes.Code(op.C), "st."+r.tag)
			case "name":
				sp.SetName("nm." + r.tag)
			case "endpanic":
				// End while panicking (deferred): End adds an exception event,
				// ends the span and lets the panic go on
				func() {
					defer func() { r.recovered = fmt.Sprint(recover()) }()
					if op.C == 1 {
						defer sp.End(trace.WithStackTrace(true))
					} else {
						defer sp.End()
					}
					panic("pn." + r.tag)
				}()
				r.recAfter = sp.IsRecording()
			case "read":
				// every getter of the span, while the others mutate and end it
				ro := sp.(sdktrace.ReadOnlySpan)
				_, _, _, _ = ro.Name(), ro.Events(), ro.Links(), ro.Status()
				if op.C == 1 {
					// NOT drawn by the generator at present (attributes-getter-
					// writes-exported-array: the getter de-duplicates in place, i.e.
					// writes to the array the exported snapshot shares, while a
					// processor reads that snapshot: a data race, which stops the
					// whole run, the race detector cannot be told about known races);
					// testdata/attributes-getter-race.json replays it
					_ = ro.Attributes()
				}
				_, _, _, _, _ = ro.StartTime(), ro.EndTime(), ro.SpanKind(), ro.Parent(), ro.SpanContext()
				_, _, _, _ = ro.DroppedAttributes(), ro.DroppedEvents(), ro.DroppedLinks(), ro.ChildSpanCount()
				_, _, _ = ro.Resource(), ro.InstrumentationScope(), sp.TracerProvider()
			case "isrec":
				r.isRec = sp.IsRecording()
			case "child":
				ctr := tr
				if op.N%2 == 1 {
					ctr = tr2
				}
				var so []trace.SpanStartOption
				if op.N&2 != 0 {
					so = append(so, trace.WithNewRoot(), trace.WithAttributes(attribute.String("k", "v")), trace.WithLinks(trace.Link{SpanContext: sp.SpanContext()}))
				}
				_, ch := ctr.Start(ctxs[op.S], [...]string{"child.", "child.drop.", "child.recordonly."}[op.C%3]+r.tag, so...)
				r.end = clock.Tick() // Start returned
				r.child = ch.SpanContext().SpanID()
				ch.End()
			case "racychild":
				_, ch := tr.Start(ctxs[op.S], fmt.Sprintf("child.racy.%d.%s", op.C%4, r.tag))
				r.end = clock.Tick() // Start returned
				r.child = ch.SpanContext().SpanID()
				ch.End()
				share.wait(r.child)
			case "tracer":
				_ = tp.Tracer("t." + r.tag)
			case "regproc":
				x := &recProcessor{clock: clock, ends: map[trace.SpanID][]delivery{}}
				xmu.Lock()
				extras = append(extras, x)
				xmu.Unlock()
				mine[g] = append(mine[g], x)
				tp.RegisterSpanProcessor(x)
				xmu.Lock()
				regEnd[x] = clock.Tick()
				xmu.Unlock()
			case "unregproc":
				if n := len(mine[g]); n > 0 {
					xmu.Lock()
					unregStart[mine[g][n-1]] = clock.Tick()
					xmu.Unlock()
					tp.UnregisterSpanProcessor(mine[g][n-1])
					xmu.Lock()
					unregEnd[mine[g][n-1]] = clock.Tick()
					xmu.Unlock()
					mine[g] = mine[g][:n-1]
				} else {
					tp.UnregisterSpanProcessor(&recProcessor{clock: clock, ends: map[trace.SpanID][]delivery{}}) // never registered
				}
			case "flush", "shutdown":
				ctx := context.Background()
				if op.N == 1 {
					cctx, cancel := context.WithCancel(ctx)
					cancel()
					ctx = cctx
				}
				p := tp
				if op.C == 1 {
					p = tp2
				}
				if op.K == "flush" {
					_ = p.ForceFlush(ctx)
				} else {
					_ = p.Shutdown(ctx)
				}
			}
			r.fin = clock.Tick()
			if r.end == 0 {
				r.end = r.fin
			}
			rmu.Lock()
			recs = append(recs, r)
			rmu.Unlock()
		}
	})
	t1 := time.Now()
	_ = tp.Shutdown(context.Background())
	_ = tp2.Shutdown(context.Background())
	// processors that kept the spans they saw in OnStart look at them now
	for _, p := range procs {
		p.inspect()
	}
	proc2.inspect()

	// ---- oracle ----
	const never = int64(1) << 62
	// life cycle: when the first Shutdown of each provider was ISSUED by the
	// program (an op, or the re-entrant processor from inside OnEnd). What is
	// decided about delivery: a span all of whose End calls had returned before
	// that instant was ended while every processor was registered and the
	// provider alive - exactly once, as ever. A span with an End call that was
	// still running or not yet issued by then may or may not reach the
	// processors (Shutdown: "all registered span processors are shut down ...
	// After Shutdown is called, all methods are no-ops"; the statement speaks
	// of REGISTERED processors): at most once. Everything else the statement
	// says about End holds whatever the provider's state: not recording once
	// End has returned, one end time, the one an End call supplied.
	shutIssue := [2]int64{never, never}
	for _, r := range recs {
		if r.op.K == "shutdown" && r.start < shutIssue[r.op.C&1] {
			shutIssue[r.op.C&1] = r.start
		}
	}
	if at := rep.shutAt.Load(); at != 0 {
		classes["Shutdown_called_from_inside_OnEnd"] = true
		if at < shutIssue[0] {
			shutIssue[0] = at
		}
	}
	mark(shutIssue[0] != never, "provider_shut_down_by_the_program")
	mark(shutIssue[1] != never, "second_provider_shut_down_by_the_program")
	firstEndIssue := make([]int64, c.Spans)
	firstEndReturn := make([]int64, c.Spans)
	lastEndReturn := make([]int64, c.Spans) // by then the End call that delivered the span has returned too
	enders := make([]int, c.Spans)
	endTimes := make([][]time.Time, c.Spans) // explicit timestamps offered
	plainEnd := make([]bool, c.Spans)
	for i := range firstEndIssue {
		firstEndIssue[i], firstEndReturn[i] = never, never
	}
	firstEndReturnOf := func(s int) int64 {
		m := never
		for _, r := range recs {
			if (r.op.K == "end" || r.op.K == "endts" || r.op.K == "endpanic") && r.op.S == s && r.end < m {
				m = r.end
			}
		}
		return m
	}
	for _, r := range recs {
		if r.op.K == "isrec" && r.isRec && r.start > firstEndReturnOf(r.op.S) {
			bad("recording_after_end", "span %d: IsRecording() issued at t=%d answered true although an End call had returned at t=%d", r.op.S, r.start, firstEndReturnOf(r.op.S))
		}
		if r.op.K == "end" || r.op.K == "endts" || r.op.K == "endpanic" {
			s := r.op.S
			enders[s]++
			if r.start < firstEndIssue[s] {
				firstEndIssue[s] = r.start
			}
			if r.end < firstEndReturn[s] {
				firstEndReturn[s] = r.end
			}
			if r.end > lastEndReturn[s] {
				lastEndReturn[s] = r.end
			}
			if r.op.K == "endts" {
				endTimes[s] = append(endTimes[s], endAt(r.op))
				off := endAt(r.op).Sub(starts[s])
				mark(off < 0, "End_with_a_timestamp_before_the_start")
				mark(off == 0, "End_with_a_timestamp_equal_to_the_start")
				mark(off > 24*time.Hour || off < -24*time.Hour, "End_with_a_timestamp_over_a_day_from_the_start")
			} else {
				plainEnd[s] = true
			}
			if r.recAfter {
				bad("recording_after_end", "span %d: IsRecording() was true right after End returned (goroutine %d)", s, r.g)
			}
		}
	}
	for s := 0; s < c.Spans; s++ {
		sid := spans[s].SpanContext().SpanID()
		if enders[s] >= 2 {
			classes["two_or_more_goroutines_end_same_span"] = true
		}
		var ref *delivery
		for pi, p := range procs {
			p.mu.Lock()
			ds := p.ends[sid]
			p.mu.Unlock()
			want := 0
			if enders[s] > 0 {
				want = 1
			}
			if settled := lastEndReturn[s] < shutIssue[0]; settled || want == 0 {
				if len(ds) != want {
					bad("delivery_count", "span %d was delivered %d time(s) to processor %d; End was called %d time(s) by the program (the last of them returned at t=%d, TracerProvider.Shutdown was first issued at t=%d; %d = never)", s, len(ds), pi, enders[s], lastEndReturn[s], shutIssue[0], never)
				}
				mark(want == 1 && shutIssue[0] != never, "span_fully_ended_before_Shutdown_was_issued")
			} else {
				if len(ds) > 1 {
					bad("delivery_count", "span %d was delivered %d times to processor %d (End called %d time(s), some of them not over when TracerProvider.Shutdown was issued at t=%d)", s, len(ds), pi, enders[s], shutIssue[0])
				}
				mark(firstEndIssue[s] > shutIssue[0], "every_End_of_a_span_issued_after_Shutdown_was")
				mark(firstEndIssue[s] < shutIssue[0], "Shutdown_issued_while_a_span_was_being_ended")
				mark(len(ds) == 0, "span_ended_around_Shutdown_not_delivered")
			}
			for di := range ds {
				d := &ds[di]
				if ref == nil {
					ref = d
				} else if !ref.snap.end.Equal(d.snap.end) {
					bad("end_time_differs", "span %d: processors saw end times %v and %v", s, ref.snap.end, d.snap.end)
				}
				// the exported snapshot never changes afterwards
				if diff := d.snap.equal(copySnap(d.ro)); diff != "" {
					bad("snapshot_changed", "span %d: the snapshot handed to processor %d changed after OnEnd: %s", s, pi, diff)
				}
				// a single end time: the span a processor kept from OnStart
				// reports the end time the exported snapshot carries
				if d.hasLive && !d.liveEnd.Equal(d.snap.end) {
					bad("two_end_times", "span %d (start %s): the snapshot handed to processor %d ends at %s, but the span itself (the ReadWriteSpan the processor kept from OnStart) reported EndTime() %s while OnEnd ran", s, fmtT(starts[s]), pi, fmtT(d.snap.end), fmtT(d.liveEnd))
				}
			}
		}
		for xi, x := range extras {
			x.mu.Lock()
			n := len(x.ends[sid])
			x.mu.Unlock()
			if n > 1 {
				bad("delivery_count", "span %d was delivered %d times to a processor that was registered/unregistered concurrently", s, n)
			}
			// a processor whose registration had returned before the first End
			// of the span was issued, and whose Unregister (if any) was issued
			// only after EVERY End call on the span had returned, was
			// registered during the whole ending of the span: it must have got
			// the span. (Not "after an End had returned": an End call that
			// lost the race returns at once while the winning call may still be
			// on its way to the processors - found as a false alarm of this
			// rule by the thorough tier, one case in 370 000.)
			re, ok := regEnd[x]
			us, unreg := unregStart[x]
			// the earliest instant at which an End of this span can have marked
			// it ended: not before the first End was issued, and not while a
			// RecordError that got the span's lock before that was still
			// inside its (slow) Error method
			earliest := firstEndIssue[s]
			for _, r := range recs {
				if r.op.K == "slowerror" && r.op.S == s && r.errEnter > 0 && r.errEnter < firstEndIssue[s] && r.errExit > earliest {
					earliest = r.errExit
				}
			}
			if earliest > firstEndIssue[s] {
				classes["End_held_up_behind_a_slow_RecordError"] = true
			}
			// ... and a processor whose Unregister had RETURNED by then was no
			// longer registered when the span ended: it must not get it
			if ue, done := unregEnd[x]; done && enders[s] > 0 && ue < earliest && ue < shutIssue[0] && n != 0 {
				bad("unregistered_processor_got_span", "span %d was delivered %d time(s) to extra processor %d although its UnregisterSpanProcessor call had returned (t=%d) before any End of the span could have taken effect (t=%d)", s, n, xi, ue, earliest)
			}
			if ok && enders[s] > 0 && re < earliest && (!unreg || us > lastEndReturn[s]) && lastEndReturn[s] < shutIssue[0] && n != 1 {
				bad("registered_processor_missed_span", "span %d was delivered %d time(s) to extra processor %d although its RegisterSpanProcessor call had returned (t=%d) before any End of the span could have taken effect (t=%d: first End issued at t=%d, held up behind a slow RecordError if later) and it was not unregistered before every End call had returned (t=%d)", s, n, xi, re, earliest, firstEndIssue[s], lastEndReturn[s])
			}
			if ok && enders[s] > 0 && re < firstEndIssue[s] {
				classes["extra_processor_registered_before_end"] = true
			}
		}
		if ref == nil {
			// not delivered (no End, or ended around / after Shutdown). "Ends
			// exactly once, with a single end time": when every End call has
			// returned the span has an end time, one that an End call supplied
			if enders[s] > 0 {
				if live := spans[s].(sdktrace.ReadOnlySpan).EndTime(); live.IsZero() {
					bad("no_end_time", "span %d (start %s): End was called %d time(s) and every call has returned (first End issued at t=%d; TracerProvider.Shutdown first issued at t=%d), yet the span reports no end time: EndTime() is zero", s, fmtT(starts[s]), enders[s], firstEndIssue[s], shutIssue[0])
				} else if why := endJudge(live, endTimes[s], plainEnd[s], t0, t1); why != "" {
					bad("end_time_invented", "span %d (start %s), not delivered (ended around Shutdown), %s", s, fmtT(starts[s]), why)
				}
			}
			continue
		}
		snap := ref.snap
		// a single end time: the one that one of the End calls supplied ...
		if why := endJudge(snap.end, endTimes[s], plainEnd[s], t0, t1); why != "" {
			bad("end_time_invented", "span %d (start %s) %s", s, fmtT(starts[s]), why)
		}
		// ... which is also what the span itself reports from then on
		if live := spans[s].(sdktrace.ReadOnlySpan).EndTime(); !live.Equal(snap.end) {
			bad("two_end_times", "span %d (start %s): the exported snapshot ends at %s, but the span itself reports EndTime() %s after every goroutine has finished", s, fmtT(starts[s]), fmtT(snap.end), fmtT(live))
		}
		if snap.end.Before(starts[s]) {
			classes["exported_end_time_before_the_start"] = true
		}
		// mutations
		childLo, childHi := 0, 0
		rootLo, rootHi := 0, 0 // new-root spans started with the shared span in the context
		names := map[string]bool{spanName(c, s): true}
		statuses := map[string]bool{"0/": true}
		for _, r := range recs {
			if r.op.S != s {
				continue
			}
			must := r.end < firstEndIssue[s]
			mustNot := r.start > firstEndReturn[s]
			present, total := 0, 0
			switch r.op.K {
			case "attrs":
				total = r.op.N
				for j := 0; j < r.op.N; j++ {
					if snap.attrs[fmt.Sprintf("%s.%d", r.tag, j)] == r.tag {
						present++
					}
				}
			case "event", "error", "link":
				total = 1
				var list []string
				var want string
				switch r.op.K {
				case "event":
					list = snap.events
					kv := make([]attribute.KeyValue, r.op.N)
					for j := range kv {
						kv[j] = attribute.String(fmt.Sprintf("%s.%d", r.tag, j), r.tag)
					}
					want = "ev." + r.tag + "#" + render(kv)
				case "link":
					list = snap.links
					kv := make([]attribute.KeyValue, r.op.N)
					for j := range kv {
						kv[j] = attribute.String(fmt.Sprintf("%s.%d", r.tag, j), r.tag)
					}
					var sid trace.SpanID
					copy(sid[:], fmt.Sprintf("%08d", r.g*100+r.i))
					want = sid.String() + "#" + render(kv)
				case "error":
					list = snap.events
					want = "err." + r.tag
				}
				partial := false
				for _, e := range list {
					if e == want || (r.op.K == "error" && strings.Contains(e, "exception.message="+want)) {
						present++
					} else if r.op.K != "error" && strings.Contains(e, r.tag+".") {
						partial = true
					}
				}
				if present > 1 {
					bad("mutation_applied_twice", "span %d: %s %s appears %d times in the snapshot", s, r.op.K, r.tag, present)
					present = 1
				}
				if partial && present == 0 {
					bad("mutation_torn", "span %d: %s %s is only partly present in the snapshot: %v", s, r.op.K, r.tag, list)
				}
			case "endpanic":
				// the exception event End adds when it is called while panicking
				total = 1
				for _, e := range snap.events {
					if !strings.Contains(e, "pn."+r.tag) {
						continue
					}
					if strings.HasPrefix(e, "exception#") && strings.Contains(e, "exception.message=pn."+r.tag+"|") && strings.Contains(e, "exception.type=") &&
						(r.op.C != 1 || strings.Contains(e, "exception.stacktrace=")) {
						present++
					} else {
						bad("mutation_torn", "span %d: the exception event of End-while-panicking %s is only partly present in the snapshot: %q", s, r.tag, e)
					}
				}
				if present > 1 {
					bad("mutation_applied_twice", "span %d: the exception event of End-while-panicking %s appears %d times in the snapshot", s, r.tag, present)
					present = 1
				}
				classes["End_while_panicking"] = true
				mark(present == 1, "End_while_panicking_left_its_exception_event")
				mark(r.recovered == "pn."+r.tag, "End_while_panicking_let_the_panic_continue")
				// whether the event of an End call that did not win is kept is
				// not for this property to say; after an End has returned it
				// must be absent like any other mutation
				if r.start > firstEndReturn[s] && present != 0 {
					bad("mutation_after_end", "span %d: End-while-panicking %s was issued (t=%d) after an End had returned (t=%d) but its exception event is in the snapshot", s, r.tag, r.start, firstEndReturn[s])
				}
				continue
			case "name":
				names["nm."+r.tag] = true
				continue
			case "status":
				if r.op.C == 1 {
					statuses["1/st."+r.tag] = true
				} else {
					statuses["2/"] = true
				}
				continue
			case "child", "racychild":
				if r.op.K == "child" && r.op.N&2 != 0 {
					// WithNewRoot: the new span has no parent, it is nobody's child
					if r.end < firstEndIssue[s] {
						rootLo++
					}
					if r.start < firstEndReturn[s] {
						rootHi++
					}
					classes["new_root_span_started_from_the_shared_span's_context"] = true
					continue
				}
				if r.end < firstEndIssue[s] {
					childLo++
				}
				if r.start < firstEndReturn[s] {
					childHi++
				}
				continue
			default:
				continue
			}
			switch {
			case present != 0 && present != total:
				bad("mutation_torn", "span %d: %s %s is partly present in the snapshot (%d of %d)", s, r.op.K, r.tag, present, total)
			case must && present == 0:
				bad("mutation_lost", "span %d: %s %s returned (t=%d) before the first End was issued (t=%d) but is absent from the snapshot", s, r.op.K, r.tag, r.end, firstEndIssue[s])
			case mustNot && present != 0:
				bad("mutation_after_end", "span %d: %s %s was issued (t=%d) after an End had returned (t=%d) but is in the snapshot", s, r.op.K, r.tag, r.start, firstEndReturn[s])
			}
			if !must && !mustNot {
				classes["mutation_concurrent_with_end"] = true
			}
		}
		if !names[snap.name] {
			bad("name_invented", "span %d exported with name %q which nobody set", s, snap.name)
		}
		if !statuses[snap.status] {
			bad("status_invented", "span %d exported with status %q which nobody set", s, snap.status)
		}
		if snap.children > childHi && rootHi > 0 && snap.children <= childHi+rootHi && snap.children >= childLo+rootLo {
			bad("child_count_includes_new_root", "span %d: ChildSpanCount %d, but only %d..%d children were started before the end; %d..%d further spans were started WITH trace.WithNewRoot() from a context holding span %d: they have no parent (Parent() is invalid, new trace ID) yet were counted as its children", s, snap.children, childLo, childHi, rootLo, rootHi, s)
		} else if snap.children < childLo || snap.children > childHi {
			bad("child_count", "span %d: ChildSpanCount %d, but %d children were started before the first End was issued and %d before the first End returned", s, snap.children, childLo, childHi)
		}
		if childHi > 0 {
			classes["children_started"] = true
		}
		for _, r := range recs {
			if r.op.S == s && r.op.K == "child" && r.op.C%3 != 0 {
				classes["child_dropped_or_record_only_by_sampler"] = true
			}
		}
	}
	// children: started and ended inside one op, so every initial processor
	// (registered throughout) gets each recording child exactly once and a
	// dropped child never; a racy child is Ended by two goroutines.
	for _, r := range recs {
		if r.op.K != "child" && r.op.K != "racychild" {
			continue
		}
		want := 1
		if r.op.K == "child" && r.op.C%3 == 1 {
			want = 0
		}
		other := r.op.K == "child" && r.op.N%2 == 1
		for pi, p := range append(append([]*recProcessor{}, procs...), proc2) {
			w := want
			if other != (pi == len(procs)) { // the provider the child was NOT started through
				w = 0
			}
			p.mu.Lock()
			n := len(p.ends[r.child])
			p.mu.Unlock()
			// the child's provider was alive during the whole op, or else: at most
			prov := 0
			if pi == len(procs) {
				prov = 1
			}
			if r.fin > shutIssue[prov] && n <= w {
				continue
			}
			if n != w {
				bad("child_delivery_count", "%s %s of span %d (decision %d, second provider %v) was delivered %d time(s) to processor %d, expected %d", r.op.K, r.tag, r.op.S, r.op.C, other, n, pi, w)
			}
		}
		if other {
			classes["child_started_through_a_second_provider"] = true
		}
		if r.op.K == "racychild" {
			classes["child_shared_from_OnStart_and_ended_by_two_goroutines"] = true
		}
	}
	if c.RecOnly != 0 {
		classes["record_only_shared_span"] = true
	}
	if len(vs) > 0 {
		var h []string
		for _, r := range recs {
			h = append(h, fmt.Sprintf("t=%d..%d g%d %s span%d %s", r.start, r.end, r.g, r.op.K, r.op.S, r.tag))
		}
		sort.Slice(h, func(i, j int) bool {
			var a, b int64
			fmt.Sscanf(h[i], "t=%d", &a)
			fmt.Sscanf(h[j], "t=%d", &b)
			return a < b
		})
		vs[0].Observed = h
	}
	return vs, classes
}

func run(c Case) ([]vk.Violation, vk.Info) {
	var info vk.Info
	all := map[string]bool{}
	var vs []vk.Violation
	runs := c.Runs
	if runs < 1 {
		runs = 1
	}
	for i := 0; i < runs && len(vs) == 0; i++ {
		v, cl := runOnce(c)
		vs = v
		for k := range cl {
			all[k] = true
		}
	}
	info.NonTrivial = all["two_or_more_goroutines_end_same_span"]
	for k := range all {
		info.Class(k)
	}
	info.ClassIf(c.Trace, "runtime_trace_enabled")
	info.ClassIf(c.Processors > 1, "several_processors")
	info.ClassIf(c.ReEnd != 0, "processor_OnEnd_calls_back_into_the_span_and_provider")
	return vs, info
}

func TestSpanConcurrent(t *testing.T) {
	vk.Run(t, vk.Spec[Case]{
		Property: "C10", Check: "span_concurrent",
		Rule: "2..8 goroutines applying generated sequences of End / End(WithTimestamp: signed offsets from before to after the start) / End while panicking / all getters / tagged SetAttributes batches / AddEvent / AddLink / RecordError / SetStatus / SetName / IsRecording / child Start / Tracer / Register+UnregisterSpanProcessor / ForceFlush to 1..3 shared spans (start: explicit past, pre-1970, future, or wall clock) with 1..3 recording processors and optionally a processor whose OnEnd re-enters the span and the provider, children also with WithNewRoot, runtime/trace on or off, each program run 3 times under -race; " +
			"non-trivial = at least two goroutines call End on the same span; distinct = distinct case encodings",
		Quick: 1200, Thorough: 20000,
		Gen: gen, Run: run, Repeat: 300,
		Known:       map[string]func(Case, vk.Violation) bool{},
		CaseTimeout: 60 * time.Second,
	})
}

// ---------------------------------------------------------------------
// end_race

// RaceCase parameterises the End race.
type RaceCase struct {
	Spans      int   `json:"spans"`
	Goroutines int   `json:"goroutines"`
	Processors int   `json:"processors"`
	Trace      bool  `json:"runtime_trace"`
	Perturb    []int `json:"perturb"`  // per goroutine: perturbation between barrier release and End
	WithTS     []int `json:"with_ts"`  // per goroutine: 1 = End(WithTimestamp(g-specific))
	Mutators   int   `json:"mutators"` // extra goroutines calling SetAttributes on the spans meanwhile
	// AttrLimit: 0 = unlimited; 1..3 = AttributeCountLimit, and the spans are
	// pre-filled to the limit so that the mutators' same-key updates take the
	// in-place update path of a full span (the path on which a mutation that
	// slips past End would alter the already exported snapshot).
	AttrLimit int `json:"attr_limit,omitempty"`
	// StartAt: explicit start of span 0 in Unix ns (span i starts i seconds
	// later; 0 = the fixed 2023 instant); StartWall: no explicit start.
	// TSOff: per goroutine the offset (ns, signed) of its explicit end
	// timestamp from the span's start (absent = (g+1) seconds).
	StartAt   int64   `json:"start_at,omitempty"`
	StartWall bool    `json:"start_wall,omitempty"`
	TSOff     []int64 `json:"ts_off,omitempty"`
	// ShutdownAt k > 0: one more goroutine calls TracerProvider.Shutdown when
	// the enders have gathered at span k-1, i.e. while that span is being ended
	// (ShutdownP: its perturbation before the call); spans k.. are ended on a
	// provider that is shutting / shut down. 0 = the provider outlives the race.
	ShutdownAt int `json:"shutdown_at,omitempty"`
	ShutdownP  int `json:"shutdown_p,omitempty"`
}

func genRace(t *rapid.T) RaceCase {
	c := RaceCase{}
	c.Spans = rapid.IntRange(20, 60).Draw(t, "spans")
	c.Goroutines = rapid.IntRange(2, 6).Draw(t, "goroutines")
	c.Processors = rapid.IntRange(1, 2).Draw(t, "processors")
	c.Trace = rapid.IntRange(0, 3).Draw(t, "runtime_trace") != 0
	c.Perturb = rapid.SliceOfN(rapid.IntRange(0, 1), c.Goroutines, c.Goroutines).Draw(t, "perturb")
	c.WithTS = rapid.SliceOfN(rapid.IntRange(0, 1), c.Goroutines, c.Goroutines).Draw(t, "with_ts")
	c.Mutators = rapid.IntRange(0, 2).Draw(t, "mutators")
	if c.Mutators > 0 {
		c.AttrLimit = rapid.SampledFrom([]int{0, 1, 2, 3}).Draw(t, "attr_limit")
	}
	if at := genStart(t, 0); at == -1<<63 {
		c.StartWall = true
	} else if at != legacyStart(0) {
		c.StartAt = at
	}
	for g := 0; g < c.Goroutines; g++ {
		ms, ns := genEndOffset(t)
		c.TSOff = append(c.TSOff, ms*1_000_000+ns)
	}
	if rapid.IntRange(0, 3).Draw(t, "life_cycle") == 0 {
		c.ShutdownAt = rapid.IntRange(1, c.Spans).Draw(t, "shutdown_at")
		c.ShutdownP = rapid.IntRange(0, 3).Draw(t, "shutdown_p")
	}
	return c
}

func runRace(c RaceCase) ([]vk.Violation, vk.Info) {
	var vs []vk.Violation
	var info vk.Info
	bad := func(kind, format string, a ...any) { vs = append(vs, vk.V(kind, format, a...)) }
	otel.SetErrorHandler(&vk.ErrCapture{})
	if c.Trace {
		if err := rtrace.Start(io.Discard); err == nil {
			defer rtrace.Stop()
		}
	}
	clock := &vk.Clock{}
	procs := make([]*recProcessor, c.Processors)
	limits := unlimited()
	if c.AttrLimit > 0 {
		limits.AttributeCountLimit = c.AttrLimit
	}
	opts := []sdktrace.TracerProviderOption{sdktrace.WithRawSpanLimits(limits)}
	for i := range procs {
		procs[i] = &recProcessor{clock: clock, ends: map[trace.SpanID][]delivery{}}
		opts = append(opts, sdktrace.WithSpanProcessor(procs[i]))
	}
	tp := sdktrace.NewTracerProvider(opts...)
	tr := tp.Tracer("c10")
	spans := make([]trace.Span, c.Spans)
	starts := make([]time.Time, c.Spans)
	t0 := time.Now()
	for i := range spans {
		if c.StartWall {
			_, spans[i] = tr.Start(context.Background(), "s")
			starts[i] = spans[i].(sdktrace.ReadOnlySpan).StartTime().Round(0)
		} else {
			starts[i] = time.Unix(0, legacyStart(i))
			if c.StartAt != 0 {
				starts[i] = time.Unix(0, c.StartAt).Add(time.Duration(i) * time.Second)
			}
			_, spans[i] = tr.Start(context.Background(), "s", trace.WithTimestamp(starts[i]))
		}
		if c.AttrLimit > 0 {
			spans[i].SetAttributes(attribute.Int("m", -1), attribute.Int("i", -1), attribute.Int("x", -1))
		}
	}
	arrived := make([]atomic.Int32, c.Spans)
	stillRecording := atomic.Int32{}
	var stop atomic.Bool
	var mwg sync.WaitGroup
	for m := 0; m < c.Mutators; m++ {
		mwg.Add(1)
		go func(m int) {
			defer mwg.Done()
			round := 0
			for !stop.Load() {
				round++
				for i := range spans {
					spans[i].SetAttributes(attribute.Int("m", m*1000000+round), attribute.Int("i", i*1000000+round))
				}
				runtime.Gosched()
			}
		}(m)
	}
	tsOff := func(g int) time.Duration {
		if g < len(c.TSOff) {
			return time.Duration(c.TSOff[g])
		}
		return time.Duration(g+1) * time.Second
	}
	plain, beforeStart := false, false
	for g := 0; g < c.Goroutines; g++ {
		if c.WithTS[g] != 1 {
			plain = true
		} else if tsOff(g) < 0 {
			beforeStart = true
		}
	}
	// per span: when (harness clock) the last of the racing End calls returned
	lastReturn := make([]atomic.Int64, c.Spans)
	const never = int64(1) << 62
	shutIssue := never
	var swg sync.WaitGroup
	if k := c.ShutdownAt; k > 0 && k <= c.Spans {
		swg.Add(1)
		go func() {
			defer swg.Done()
			for arrived[k-1].Load() < int32(c.Goroutines) {
				runtime.Gosched()
			}
			vk.Perturb(c.ShutdownP)
			shutIssue = clock.Tick()
			_ = tp.Shutdown(context.Background())
		}()
	}
	vk.Parallel(c.Goroutines, func(g int) {
		for i := range spans {
			arrived[i].Add(1)
			for arrived[i].Load() < int32(c.Goroutines) {
				runtime.Gosched()
			}
			vk.Perturb(c.Perturb[g])
			if c.WithTS[g] == 1 {
				spans[i].End(trace.WithTimestamp(starts[i].Add(tsOff(g))))
			} else {
				spans[i].End()
			}
			if spans[i].IsRecording() {
				stillRecording.Add(1)
			}
			at := clock.Tick()
			for {
				old := lastReturn[i].Load()
				if old >= at || lastReturn[i].CompareAndSwap(old, at) {
					break
				}
			}
		}
	})
	stop.Store(true)
	mwg.Wait()
	swg.Wait()
	t1 := time.Now()
	_ = tp.Shutdown(context.Background())
	if n := stillRecording.Load(); n > 0 {
		bad("recording_after_end", "IsRecording() was true %d time(s) right after End returned", n)
	}
	notDelivered := 0
	for i, sp := range spans {
		sid := sp.SpanContext().SpanID()
		var first *delivery
		for pi, p := range procs {
			p.mu.Lock()
			ds := p.ends[sid]
			p.mu.Unlock()
			// life cycle: a span whose End calls had all returned before Shutdown
			// was issued: exactly once; one ended around / after it: at most once
			if settled := lastReturn[i].Load() < shutIssue; settled && len(ds) != 1 || len(ds) > 1 {
				bad("delivery_count", "span %d was delivered %d time(s) to processor %d although %d goroutines raced on End (the last End returned at t=%d, TracerProvider.Shutdown was issued at t=%d; %d = never)", i, len(ds), pi, c.Goroutines, lastReturn[i].Load(), shutIssue, never)
			} else if !settled && len(ds) == 0 {
				notDelivered++
			}
			for di := range ds {
				d := &ds[di]
				if first == nil {
					first = d
				} else if !first.snap.end.Equal(d.snap.end) {
					bad("end_time_differs", "span %d: processors saw end times %v and %v", i, first.snap.end, d.snap.end)
				}
				if diff := d.snap.equal(copySnap(d.ro)); diff != "" {
					bad("snapshot_changed", "span %d: the snapshot handed to processor %d changed after OnEnd: %s", i, pi, diff)
				}
				if d.hasLive && !d.liveEnd.Equal(d.snap.end) {
					bad("two_end_times", "span %d (start %s): the snapshot handed to processor %d ends at %s, but the span itself (the ReadWriteSpan the processor kept from OnStart) reported EndTime() %s while OnEnd ran", i, fmtT(starts[i]), pi, fmtT(d.snap.end), fmtT(d.liveEnd))
				}
			}
		}
		// a single end time: the one that one of the racing End calls supplied,
		// which is also what the span itself reports afterwards
		var offered []time.Time
		for g := 0; g < c.Goroutines; g++ {
			if c.WithTS[g] == 1 {
				offered = append(offered, starts[i].Add(tsOff(g)))
			}
		}
		if first == nil {
			// ended around / after Shutdown and not delivered: it has ended all
			// the same, with an end time an End call supplied
			if live := sp.(sdktrace.ReadOnlySpan).EndTime(); live.IsZero() {
				bad("no_end_time", "span %d (start %s): %d End calls have returned (TracerProvider.Shutdown issued at t=%d, the last End returned at t=%d), yet the span reports no end time: EndTime() is zero", i, fmtT(starts[i]), c.Goroutines, shutIssue, lastReturn[i].Load())
			} else if why := endJudge(live, offered, plain, t0, t1); why != "" {
				bad("end_time_invented", "span %d (start %s), not delivered (ended around Shutdown), %s", i, fmtT(starts[i]), why)
			}
			continue
		}
		if why := endJudge(first.snap.end, offered, plain, t0, t1); why != "" {
			bad("end_time_invented", "span %d (start %s) %s", i, fmtT(starts[i]), why)
		}
		if live := sp.(sdktrace.ReadOnlySpan).EndTime(); !live.Equal(first.snap.end) {
			bad("two_end_times", "span %d (start %s): the exported snapshot ends at %s, but the span itself reports EndTime() %s after every goroutine has finished", i, fmtT(starts[i]), fmtT(first.snap.end), fmtT(live))
		}
	}
	info.ClassIf(c.StartWall, "spans_started_by_the_wall_clock")
	info.ClassIf(!c.StartWall && starts[0].After(t0), "span_start_in_the_future")
	info.ClassIf(beforeStart, "End_with_a_timestamp_before_the_start")
	info.ClassIf(!plain, "every_End_has_an_explicit_timestamp")
	info.NonTrivial = true
	info.ClassIf(c.Trace, "runtime_trace_enabled")
	info.ClassIf(c.Mutators > 0, "concurrent_mutators")
	info.ClassIf(c.AttrLimit > 0, "spans_full_at_attribute_limit")
	info.ClassIf(c.Goroutines >= 4, "four_or_more_enders")
	info.ClassIf(shutIssue != never, "provider_shut_down_while_the_spans_end")
	info.ClassIf(notDelivered > 0, "spans_ended_around_Shutdown_not_delivered")
	return vs, info
}

func TestEndRace(t *testing.T) {
	vk.Run(t, vk.Spec[RaceCase]{
		Property: "C10", Check: "end_race",
		Rule:  "G=2..6 goroutines all call End (plain or with a goroutine-specific timestamp: signed offset from the start, which is explicit past/future or the wall clock) on each of N=20..60 shared spans, released together span by span through a spin barrier, 0..2 goroutines mutating the spans meanwhile, runtime/trace mostly on; every case is non-trivial (N G-way End races); distinct = distinct parameter tuples",
		Quick: 220, Thorough: 4000,
		Gen: genRace, Run: runRace, Repeat: 200,
		CaseTimeout: 60 * time.Second,
	})
}
