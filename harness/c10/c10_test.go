// Package c10 decides property C10 (a span ends exactly once; the tracing
// API is safe under concurrent use) with generated racing programs on shared
// spans, with and without Go execution tracing, under the race detector.
//
// Two searches:
//
//   - span_concurrent: 2..8 goroutines apply generated sequences of End,
//     End(WithTimestamp), tagged SetAttributes batches, AddEvent, AddLink,
//     RecordError, SetStatus, SetName, IsRecording, child Start and
//     provider-level calls (Tracer, Register/UnregisterSpanProcessor,
//     ForceFlush) to 1..3 shared spans; 1..3 recording processors.
//   - end_race: G goroutines end the same N spans, released together span by
//     span through a spin barrier (the harness tightens the schedule from the
//     outside), which is what reaches the window between the release and the
//     re-acquisition of the span lock around the execution-tracer task end.
//
// Oracle (schedule independent, logical clock from the harness):
//   - every span on which End was called is delivered to every permanently
//     registered processor exactly once, with one end time; never without End;
//   - a mutation whose call returned before the first End was issued is
//     completely present in the exported snapshot, one issued after some End
//     had returned is completely absent, anything in between is all or
//     nothing (attribute batches use keys private to the batch, events and
//     links carry their tag in every attribute);
//   - the snapshot read again after all goroutines finished equals the deep
//     copy taken inside OnEnd;
//   - IsRecording() is false once an End call has returned;
//   - ChildSpanCount lies between the children whose Start returned before
//     the first End was issued and those whose Start was issued before the
//     first End returned;
//   - no data race (race detector), no panic, every goroutine finishes
//     (watchdog).
//
// Span limits are set to unlimited so that drops do not blur atomicity.
package c10

import (
	"context"
	"errors"
	"fmt"
	"github.com/go-logr/logr"
	"io"
	"runtime"
	rtrace "runtime/trace"
	"sort"
	"strings"
	"sync"
	"sync/atomic"
	"testing"
	"time"

	"go.opentelemetry.io/otel"
	"go.opentelemetry.io/otel/attribute"
	"go.opentelemetry.io/otel/codes"
	sdktrace "go.opentelemetry.io/otel/sdk/trace"
	"go.opentelemetry.io/otel/trace"
	"go.opentelemetry.io/otel/verif/internal/vk"
	"pgregory.net/rapid"
)

// Op is one step of one goroutine.
type Op struct {
	K  string `json:"k"`            // end endts attrs event link error status name isrec child tracer regproc unregproc flush
	S  int    `json:"s"`            // span index
	N  int    `json:"n,omitempty"`  // number of attributes (attrs/event/link)
	P  int    `json:"p,omitempty"`  // perturbation before the op
	TS int64  `json:"ts,omitempty"` // endts: offset in ms after the span's start time
	C  int    `json:"c,omitempty"`  // status: code 1 Error, 2 Ok; child: 1 = the sampler drops this child, 2 = record-only child
}

// Case is one generated program.
type Case struct {
	Spans      int    `json:"spans"`
	Processors int    `json:"processors"`
	Trace      bool   `json:"runtime_trace"`
	Progs      [][]Op `json:"progs"`
	Runs       int    `json:"runs"`
	// RecOnly: bit i set = shared span i is RECORD-ONLY (a custom sampler's
	// decision: recording, not sampled). It is a recording span like any other:
	// every clause applies to it.
	RecOnly int `json:"rec_only,omitempty"`
	// StartShare: one more registered processor whose OnStart hands "racy"
	// children (op racychild) to a goroutine of its own, which mutates and
	// Ends the child while Tracer.Start may still be running.
	StartShare bool `json:"start_share,omitempty"`
	// ReLogger: the process-wide otel logger (all verbosity levels on) is a
	// sink that calls back into the TracerProvider on every log line - a
	// collaborator the SDK calls, like exporters and processors.
	ReLogger bool `json:"re_logger,omitempty"`
}

func gen(t *rapid.T) Case {
	c := Case{}
	c.Spans = rapid.IntRange(1, 3).Draw(t, "spans")
	c.Processors = rapid.IntRange(1, 3).Draw(t, "processors")
	c.Trace = rapid.Bool().Draw(t, "runtime_trace")
	ng := rapid.IntRange(2, 8).Draw(t, "goroutines")
	kinds := []string{"end", "end", "end", "endts", "attrs", "attrs", "attrs", "event", "event", "link", "error", "status", "name", "isrec", "child", "child", "tracer", "regproc", "unregproc", "flush", "panicerror", "slowerror"}
	if rapid.IntRange(0, 2).Draw(t, "rec_only_spans") == 0 {
		c.RecOnly = rapid.IntRange(1, 1<<c.Spans-1).Draw(t, "rec_only")
	}
	c.ReLogger = rapid.IntRange(0, 3).Draw(t, "reentrant_logger") == 0
	if c.StartShare = rapid.IntRange(0, 2).Draw(t, "start_share") == 0; c.StartShare {
		kinds = append(kinds, "racychild", "racychild", "racychild")
	}
	for g := 0; g < ng; g++ {
		n := rapid.IntRange(1, 10).Draw(t, "ops")
		var ops []Op
		for i := 0; i < n; i++ {
			op := Op{K: rapid.SampledFrom(kinds).Draw(t, "kind"), S: rapid.IntRange(0, c.Spans-1).Draw(t, "span"), P: rapid.IntRange(0, 3).Draw(t, "p")}
			switch op.K {
			case "attrs", "event", "link":
				op.N = rapid.IntRange(2, 5).Draw(t, "n")
			case "endts":
				op.TS = rapid.Int64Range(1, 1000).Draw(t, "ts")
			case "status":
				op.C = rapid.IntRange(1, 2).Draw(t, "code")
			case "child":
				op.C = rapid.SampledFrom([]int{0, 0, 1, 2}).Draw(t, "child_decision")
				// N odd: the child is started through a tracer of a SECOND
				// TracerProvider (the shared span still is its parent)
				op.N = rapid.SampledFrom([]int{0, 0, 0, 1}).Draw(t, "other_provider")
			case "racychild":
				op.C = rapid.IntRange(0, 3).Draw(t, "sharer_action")
			}
			ops = append(ops, op)
		}
		c.Progs = append(c.Progs, ops)
	}
	c.Runs = 3
	return c
}

// ---------------------------------------------------------------------

type snapCopy struct {
	name      string
	attrs     map[string]string
	attrOrder []string // the keys in the order the snapshot lists them
	events    []string // rendered "name|k=v|k=v"
	links     []string
	status    string
	end       time.Time
	children  int
}

func render(kvs []attribute.KeyValue) string {
	parts := make([]string, len(kvs))
	for i, kv := range kvs {
		parts[i] = string(kv.Key) + "=" + kv.Value.Emit()
	}
	sort.Strings(parts)
	return strings.Join(parts, "|")
}

func copySnap(s sdktrace.ReadOnlySpan) snapCopy {
	sc := snapCopy{name: s.Name(), attrs: map[string]string{}, end: s.EndTime(), children: s.ChildSpanCount()}
	for _, kv := range s.Attributes() {
		sc.attrs[string(kv.Key)] = kv.Value.Emit()
		sc.attrOrder = append(sc.attrOrder, string(kv.Key))
	}
	for _, e := range s.Events() {
		sc.events = append(sc.events, e.Name+"#"+render(e.Attributes))
	}
	for _, l := range s.Links() {
		sc.links = append(sc.links, l.SpanContext.SpanID().String()+"#"+render(l.Attributes))
	}
	st := s.Status()
	sc.status = fmt.Sprintf("%d/%s", st.Code, st.Description)
	return sc
}

func (a snapCopy) equal(b snapCopy) string {
	if a.name != b.name {
		return fmt.Sprintf("name %q -> %q", a.name, b.name)
	}
	if a.status != b.status {
		return fmt.Sprintf("status %q -> %q", a.status, b.status)
	}
	if !a.end.Equal(b.end) {
		return fmt.Sprintf("end time %v -> %v", a.end, b.end)
	}
	if a.children != b.children {
		return fmt.Sprintf("child count %d -> %d", a.children, b.children)
	}
	if len(a.attrs) != len(b.attrs) {
		return fmt.Sprintf("%d attributes -> %d", len(a.attrs), len(b.attrs))
	}
	for k, v := range a.attrs {
		if b.attrs[k] != v {
			return fmt.Sprintf("attribute %q %q -> %q", k, v, b.attrs[k])
		}
	}
	if strings.Join(a.attrOrder, "\x00") != strings.Join(b.attrOrder, "\x00") {
		return fmt.Sprintf("attribute order %q -> %q", a.attrOrder, b.attrOrder)
	}
	if strings.Join(a.events, ";") != strings.Join(b.events, ";") {
		return fmt.Sprintf("events %v -> %v", a.events, b.events)
	}
	if strings.Join(a.links, ";") != strings.Join(b.links, ";") {
		return fmt.Sprintf("links %v -> %v", a.links, b.links)
	}
	return ""
}

type delivery struct {
	at   int64
	snap snapCopy
	ro   sdktrace.ReadOnlySpan
}

type recProcessor struct {
	clock *vk.Clock
	mu    sync.Mutex
	ends  map[trace.SpanID][]delivery
	live  []sdktrace.ReadWriteSpan // every span seen in OnStart (kept: a processor may look at it later)
}

func (p *recProcessor) OnStart(_ context.Context, s sdktrace.ReadWriteSpan) {
	p.mu.Lock()
	p.live = append(p.live, s)
	p.mu.Unlock()
}

// inspect reads every span the processor was given in OnStart through all
// its getters (as a processor that kept the span may do at any time, also
// after End): reading must not change what was exported.
func (p *recProcessor) inspect() {
	p.mu.Lock()
	live := append([]sdktrace.ReadWriteSpan{}, p.live...)
	p.mu.Unlock()
	for _, s := range live {
		_ = s.Name()
		_ = s.Attributes()
		_ = s.Events()
		_ = s.Links()
		_ = s.Status()
		_ = s.EndTime()
		_ = s.StartTime()
		_ = s.DroppedAttributes()
		_ = s.DroppedEvents()
		_ = s.DroppedLinks()
		_ = s.ChildSpanCount()
		_ = s.Parent()
		_ = s.SpanKind()
		_ = s.Resource()
		_ = s.InstrumentationScope()
		_ = s.IsRecording()
		_ = s.SpanContext()
	}
}
func (p *recProcessor) OnEnd(s sdktrace.ReadOnlySpan) {
	d := delivery{at: p.clock.Tick(), snap: copySnap(s), ro: s}
	p.mu.Lock()
	p.ends[s.SpanContext().SpanID()] = append(p.ends[s.SpanContext().SpanID()], d)
	p.mu.Unlock()
}
func (p *recProcessor) Shutdown(context.Context) error   { return nil }
func (p *recProcessor) ForceFlush(context.Context) error { return nil }

type opRec struct {
	op         Op
	g, i       int
	start, end int64
	tag        string
	recAfter   bool         // IsRecording() observed right after the op (end ops)
	child      trace.SpanID // child / racychild: the span the op started
	// slowerror: clock instants inside the error's Error method, which the SDK
	// calls while it holds the span's lock (0 = never called)
	errEnter, errExit int64
}

// slowErr is an error whose Error method takes a while: the span's lock is
// held meanwhile, so no End can complete in between.
type slowErr struct {
	clock *vk.Clock
	rec   *opRec
}

func (e *slowErr) Error() string {
	e.rec.errEnter = e.clock.Tick()
	time.Sleep(300 * time.Microsecond)
	e.rec.errExit = e.clock.Tick()
	return "slow." + e.rec.tag
}

// reSink is a logr sink with every level enabled that uses the provider on
// each line it is given: obtains a tracer for a scope of its own (new on the
// first line, cached afterwards) and takes its own lock, as a real sink does.
type reSink struct {
	tp *sdktrace.TracerProvider
	mu sync.Mutex
	n  int
}

func (s *reSink) Init(logr.RuntimeInfo) {}
func (s *reSink) Enabled(int) bool      { return true }
func (s *reSink) touch() {
	s.mu.Lock()
	s.n++
	n := s.n
	s.mu.Unlock()
	_ = s.tp.Tracer(fmt.Sprintf("from.logger.%d", n%3))
}
func (s *reSink) Info(int, string, ...any)       { s.touch() }
func (s *reSink) Error(error, string, ...any)    { s.touch() }
func (s *reSink) WithValues(...any) logr.LogSink { return s }
func (s *reSink) WithName(string) logr.LogSink   { return s }

// panicErr is an error whose Error method dereferences its nil receiver.
type panicErr struct{ msg string }

func (e *panicErr) Error() string { return e.msg }

// shareProcessor hands the children named child.racy.<action>.* it sees in
// OnStart to a goroutine of its own: that goroutine mutates the span and Ends
// it, possibly before Tracer.Start has returned to the goroutine that started
// it (which Ends the child as well).
type shareProcessor struct {
	done sync.Map // trace.SpanID -> chan struct{}
}

func (p *shareProcessor) OnStart(_ context.Context, s sdktrace.ReadWriteSpan) {
	name := s.Name()
	if !strings.HasPrefix(name, "child.racy.") {
		return
	}
	ch := make(chan struct{})
	p.done.Store(s.SpanContext().SpanID(), ch)
	go func() {
		defer close(ch)
		switch name[len("child.racy."):][0] {
		case '1':
			s.SetName(name + ".renamed")
		case '2':
			s.SetAttributes(attribute.String("sharer", "x"))
		case '3':
			s.AddEvent("sharer")
			_ = s.IsRecording()
		}
		s.End()
	}()
}
func (p *shareProcessor) OnEnd(sdktrace.ReadOnlySpan)      {}
func (p *shareProcessor) Shutdown(context.Context) error   { return nil }
func (p *shareProcessor) ForceFlush(context.Context) error { return nil }
func (p *shareProcessor) wait(id trace.SpanID) {
	if ch, ok := p.done.Load(id); ok {
		<-ch.(chan struct{})
	}
}

// nameSampler drops spans named child.drop.*, records-only child.recordonly.*
// and samples everything else.
type nameSampler struct{}

func (nameSampler) ShouldSample(p sdktrace.SamplingParameters) sdktrace.SamplingResult {
	res := sdktrace.SamplingResult{Decision: sdktrace.RecordAndSample, Tracestate: trace.SpanContextFromContext(p.ParentContext).TraceState()}
	switch {
	case strings.HasPrefix(p.Name, "child.drop."):
		res.Decision = sdktrace.Drop
	case strings.HasPrefix(p.Name, "child.recordonly."), strings.HasPrefix(p.Name, "recordonly."):
		res.Decision = sdktrace.RecordOnly
	}
	return res
}
func (nameSampler) Description() string { return "c10.nameSampler" }

func spanName(c Case, i int) string {
	if c.RecOnly>>i&1 == 1 {
		return fmt.Sprintf("recordonly.span%d", i)
	}
	return fmt.Sprintf("span%d", i)
}

func unlimited() sdktrace.SpanLimits {
	return sdktrace.SpanLimits{AttributeValueLengthLimit: -1, AttributeCountLimit: -1, EventCountLimit: -1, LinkCountLimit: -1, AttributePerEventCountLimit: -1, AttributePerLinkCountLimit: -1}
}

func runOnce(c Case) ([]vk.Violation, map[string]bool) {
	var vs []vk.Violation
	classes := map[string]bool{}
	bad := func(kind, format string, a ...any) { vs = append(vs, vk.V(kind, format, a...)) }
	otel.SetErrorHandler(&vk.ErrCapture{})

	if c.Trace {
		if err := rtrace.Start(io.Discard); err == nil {
			defer rtrace.Stop()
		}
	}
	clock := &vk.Clock{}
	procs := make([]*recProcessor, c.Processors)
	// children may be sampled out or record-only (decided by their name): a
	// span's child count is about the spans that consider it their parent,
	// whatever the sampler answered for them
	opts := []sdktrace.TracerProviderOption{sdktrace.WithRawSpanLimits(unlimited()), sdktrace.WithSampler(nameSampler{})}
	for i := range procs {
		procs[i] = &recProcessor{clock: clock, ends: map[trace.SpanID][]delivery{}}
		opts = append(opts, sdktrace.WithSpanProcessor(procs[i]))
	}
	share := &shareProcessor{}
	if c.StartShare {
		opts = append(opts, sdktrace.WithSpanProcessor(share))
	}
	tp := sdktrace.NewTracerProvider(opts...)
	tr := tp.Tracer("c10")
	if c.ReLogger {
		otel.SetLogger(logr.New(&reSink{tp: tp}))
		defer otel.SetLogger(logr.Discard())
		classes["logger_calls_back_into_the_provider"] = true
	}
	// a second provider in the same process: children started through its
	// tracer have the shared span as parent all the same (and are delivered to
	// ITS processor, not to the first provider's)
	proc2 := &recProcessor{clock: clock, ends: map[trace.SpanID][]delivery{}}
	tp2 := sdktrace.NewTracerProvider(sdktrace.WithRawSpanLimits(unlimited()), sdktrace.WithSampler(nameSampler{}), sdktrace.WithSpanProcessor(proc2))
	tr2 := tp2.Tracer("c10.other")
	// every regproc op registers a processor of its own (a processor registered
	// twice is legitimately delivered to twice); unregproc removes the one the
	// same goroutine registered last.
	var xmu sync.Mutex
	var extras []*recProcessor
	mine := make([][]*recProcessor, len(c.Progs))
	// when each extra processor's Register call returned / its Unregister call
	// was issued (never = still registered at the end)
	regEnd := map[*recProcessor]int64{}
	unregStart := map[*recProcessor]int64{}
	unregEnd := map[*recProcessor]int64{} // when the Unregister call returned

	spans := make([]trace.Span, c.Spans)
	ctxs := make([]context.Context, c.Spans)
	starts := make([]time.Time, c.Spans)
	for i := range spans {
		starts[i] = time.Unix(1700000000+int64(i), 0)
		ctxs[i], spans[i] = tr.Start(context.Background(), spanName(c, i), trace.WithTimestamp(starts[i]))
	}

	var rmu sync.Mutex
	var recs []*opRec
	vk.Parallel(len(c.Progs), func(g int) {
		for i, op := range c.Progs[g] {
			vk.Perturb(op.P)
			r := &opRec{op: op, g: g, i: i, tag: fmt.Sprintf("g%di%d", g, i)}
			sp := spans[op.S]
			kvs := func(n int) []attribute.KeyValue {
				out := make([]attribute.KeyValue, n)
				for j := range out {
					out[j] = attribute.String(fmt.Sprintf("%s.%d", r.tag, j), r.tag)
				}
				return out
			}
			r.start = clock.Tick()
			switch op.K {
			case "end":
				sp.End()
				r.recAfter = sp.IsRecording()
			case "endts":
				sp.End(trace.WithTimestamp(starts[op.S].Add(time.Duration(op.TS) * time.Millisecond)))
				r.recAfter = sp.IsRecording()
			case "attrs":
				sp.SetAttributes(kvs(op.N)...)
			case "event":
				sp.AddEvent("ev."+r.tag, trace.WithAttributes(kvs(op.N)...))
			case "link":
				var sid trace.SpanID
				copy(sid[:], fmt.Sprintf("%08d", g*100+i))
				sp.AddLink(trace.Link{SpanContext: trace.NewSpanContext(trace.SpanContextConfig{TraceID: trace.TraceID{9}, SpanID: sid}), Attributes: kvs(op.N)})
			case "error":
				sp.RecordError(errors.New("err." + r.tag))
			case "slowerror":
				sp.RecordError(&slowErr{clock: clock, rec: r})
			case "panicerror":
				// a failing collaborator: the error's Error method panics (typed
				// nil pointer) and the caller recovers; the span must stay usable
				func() {
					defer func() { _ = recover() }()
					var pe *panicErr
					sp.RecordError(pe)
				}()
			case "status":
				sp.SetStatus(codes.Code(op.C), "st."+r.tag)
			case "name":
				sp.SetName("nm." + r.tag)
			case "isrec":
				_ = sp.IsRecording()
			case "child":
				ctr := tr
				if op.N%2 == 1 {
					ctr = tr2
				}
				_, ch := ctr.Start(ctxs[op.S], [...]string{"child.", "child.drop.", "child.recordonly."}[op.C%3]+r.tag)
				r.end = clock.Tick() // Start returned
				r.child = ch.SpanContext().SpanID()
				ch.End()
			case "racychild":
				_, ch := tr.Start(ctxs[op.S], fmt.Sprintf("child.racy.%d.%s", op.C%4, r.tag))
				r.end = clock.Tick() // Start returned
				r.child = ch.SpanContext().SpanID()
				ch.End()
				share.wait(r.child)
			case "tracer":
				_ = tp.Tracer("t." + r.tag)
			case "regproc":
				x := &recProcessor{clock: clock, ends: map[trace.SpanID][]delivery{}}
				xmu.Lock()
				extras = append(extras, x)
				xmu.Unlock()
				mine[g] = append(mine[g], x)
				tp.RegisterSpanProcessor(x)
				xmu.Lock()
				regEnd[x] = clock.Tick()
				xmu.Unlock()
			case "unregproc":
				if n := len(mine[g]); n > 0 {
					xmu.Lock()
					unregStart[mine[g][n-1]] = clock.Tick()
					xmu.Unlock()
					tp.UnregisterSpanProcessor(mine[g][n-1])
					xmu.Lock()
					unregEnd[mine[g][n-1]] = clock.Tick()
					xmu.Unlock()
					mine[g] = mine[g][:n-1]
				} else {
					tp.UnregisterSpanProcessor(&recProcessor{clock: clock, ends: map[trace.SpanID][]delivery{}}) // never registered
				}
			case "flush":
				_ = tp.ForceFlush(context.Background())
			}
			if r.end == 0 {
				r.end = clock.Tick()
			}
			rmu.Lock()
			recs = append(recs, r)
			rmu.Unlock()
		}
	})
	_ = tp.Shutdown(context.Background())
	// processors that kept the spans they saw in OnStart look at them now
	for _, p := range procs {
		p.inspect()
	}
	proc2.inspect()

	// ---- oracle ----
	const never = int64(1) << 62
	firstEndIssue := make([]int64, c.Spans)
	firstEndReturn := make([]int64, c.Spans)
	lastEndReturn := make([]int64, c.Spans) // by then the End call that delivered the span has returned too
	enders := make([]int, c.Spans)
	endTimes := make([]map[int64]bool, c.Spans) // explicit timestamps offered
	plainEnd := make([]bool, c.Spans)
	for i := range firstEndIssue {
		firstEndIssue[i], firstEndReturn[i] = never, never
		endTimes[i] = map[int64]bool{}
	}
	for _, r := range recs {
		if r.op.K == "end" || r.op.K == "endts" {
			s := r.op.S
			enders[s]++
			if r.start < firstEndIssue[s] {
				firstEndIssue[s] = r.start
			}
			if r.end < firstEndReturn[s] {
				firstEndReturn[s] = r.end
			}
			if r.end > lastEndReturn[s] {
				lastEndReturn[s] = r.end
			}
			if r.op.K == "endts" {
				endTimes[s][r.op.TS] = true
			} else {
				plainEnd[s] = true
			}
			if r.recAfter {
				bad("recording_after_end", "span %d: IsRecording() was true right after End returned (goroutine %d)", s, r.g)
			}
		}
	}
	for s := 0; s < c.Spans; s++ {
		sid := spans[s].SpanContext().SpanID()
		if enders[s] >= 2 {
			classes["two_or_more_goroutines_end_same_span"] = true
		}
		var ref *delivery
		for pi, p := range procs {
			p.mu.Lock()
			ds := p.ends[sid]
			p.mu.Unlock()
			want := 0
			if enders[s] > 0 {
				want = 1
			}
			if len(ds) != want {
				bad("delivery_count", "span %d was delivered %d time(s) to processor %d; End was called %d time(s) by the program", s, len(ds), pi, enders[s])
			}
			for di := range ds {
				d := &ds[di]
				if ref == nil {
					ref = d
				} else if !ref.snap.end.Equal(d.snap.end) {
					bad("end_time_differs", "span %d: processors saw end times %v and %v", s, ref.snap.end, d.snap.end)
				}
				// the exported snapshot never changes afterwards
				if diff := d.snap.equal(copySnap(d.ro)); diff != "" {
					bad("snapshot_changed", "span %d: the snapshot handed to processor %d changed after OnEnd: %s", s, pi, diff)
				}
			}
		}
		for xi, x := range extras {
			x.mu.Lock()
			n := len(x.ends[sid])
			x.mu.Unlock()
			if n > 1 {
				bad("delivery_count", "span %d was delivered %d times to a processor that was registered/unregistered concurrently", s, n)
			}
			// a processor whose registration had returned before the first End
			// of the span was issued, and whose Unregister (if any) was issued
			// only after EVERY End call on the span had returned, was
			// registered during the whole ending of the span: it must have got
			// the span. (Not "after an End had returned": an End call that
			// lost the race returns at once while the winning call may still be
			// on its way to the processors - found as a false alarm of this
			// rule by the thorough tier, one case in 370 000.)
			re, ok := regEnd[x]
			us, unreg := unregStart[x]
			// the earliest instant at which an End of this span can have marked
			// it ended: not before the first End was issued, and not while a
			// RecordError that got the span's lock before that was still
			// inside its (slow) Error method
			earliest := firstEndIssue[s]
			for _, r := range recs {
				if r.op.K == "slowerror" && r.op.S == s && r.errEnter > 0 && r.errEnter < firstEndIssue[s] && r.errExit > earliest {
					earliest = r.errExit
				}
			}
			if earliest > firstEndIssue[s] {
				classes["End_held_up_behind_a_slow_RecordError"] = true
			}
			// ... and a processor whose Unregister had RETURNED by then was no
			// longer registered when the span ended: it must not get it
			if ue, done := unregEnd[x]; done && enders[s] > 0 && ue < earliest && n != 0 {
				bad("unregistered_processor_got_span", "span %d was delivered %d time(s) to extra processor %d although its UnregisterSpanProcessor call had returned (t=%d) before any End of the span could have taken effect (t=%d)", s, n, xi, ue, earliest)
			}
			if ok && enders[s] > 0 && re < earliest && (!unreg || us > lastEndReturn[s]) && n != 1 {
				bad("registered_processor_missed_span", "span %d was delivered %d time(s) to extra processor %d although its RegisterSpanProcessor call had returned (t=%d) before any End of the span could have taken effect (t=%d: first End issued at t=%d, held up behind a slow RecordError if later) and it was not unregistered before every End call had returned (t=%d)", s, n, xi, re, earliest, firstEndIssue[s], lastEndReturn[s])
			}
			if ok && enders[s] > 0 && re < firstEndIssue[s] {
				classes["extra_processor_registered_before_end"] = true
			}
		}
		if ref == nil {
			continue
		}
		snap := ref.snap
		// end time: one of the offered ones
		if off := snap.end.Sub(starts[s]).Milliseconds(); !endTimes[s][off] || snap.end.Sub(starts[s]) != time.Duration(off)*time.Millisecond {
			if !plainEnd[s] {
				bad("end_time_invented", "span %d ended at %v which no End call supplied", s, snap.end)
			} else if snap.end.Before(starts[s]) {
				bad("end_time_before_start", "span %d ended at %v before its start %v", s, snap.end, starts[s])
			}
		}
		// mutations
		childLo, childHi := 0, 0
		names := map[string]bool{spanName(c, s): true}
		statuses := map[string]bool{"0/": true}
		for _, r := range recs {
			if r.op.S != s {
				continue
			}
			must := r.end < firstEndIssue[s]
			mustNot := r.start > firstEndReturn[s]
			present, total := 0, 0
			switch r.op.K {
			case "attrs":
				total = r.op.N
				for j := 0; j < r.op.N; j++ {
					if snap.attrs[fmt.Sprintf("%s.%d", r.tag, j)] == r.tag {
						present++
					}
				}
			case "event", "error", "link":
				total = 1
				var list []string
				var want string
				switch r.op.K {
				case "event":
					list = snap.events
					kv := make([]attribute.KeyValue, r.op.N)
					for j := range kv {
						kv[j] = attribute.String(fmt.Sprintf("%s.%d", r.tag, j), r.tag)
					}
					want = "ev." + r.tag + "#" + render(kv)
				case "link":
					list = snap.links
					kv := make([]attribute.KeyValue, r.op.N)
					for j := range kv {
						kv[j] = attribute.String(fmt.Sprintf("%s.%d", r.tag, j), r.tag)
					}
					var sid trace.SpanID
					copy(sid[:], fmt.Sprintf("%08d", r.g*100+r.i))
					want = sid.String() + "#" + render(kv)
				case "error":
					list = snap.events
					want = "err." + r.tag
				}
				partial := false
				for _, e := range list {
					if e == want || (r.op.K == "error" && strings.Contains(e, "exception.message="+want)) {
						present++
					} else if r.op.K != "error" && strings.Contains(e, r.tag+".") {
						partial = true
					}
				}
				if present > 1 {
					bad("mutation_applied_twice", "span %d: %s %s appears %d times in the snapshot", s, r.op.K, r.tag, present)
					present = 1
				}
				if partial && present == 0 {
					bad("mutation_torn", "span %d: %s %s is only partly present in the snapshot: %v", s, r.op.K, r.tag, list)
				}
			case "name":
				names["nm."+r.tag] = true
				continue
			case "status":
				if r.op.C == 1 {
					statuses["1/st."+r.tag] = true
				} else {
					statuses["2/"] = true
				}
				continue
			case "child", "racychild":
				if r.end < firstEndIssue[s] {
					childLo++
				}
				if r.start < firstEndReturn[s] {
					childHi++
				}
				continue
			default:
				continue
			}
			switch {
			case present != 0 && present != total:
				bad("mutation_torn", "span %d: %s %s is partly present in the snapshot (%d of %d)", s, r.op.K, r.tag, present, total)
			case must && present == 0:
				bad("mutation_lost", "span %d: %s %s returned (t=%d) before the first End was issued (t=%d) but is absent from the snapshot", s, r.op.K, r.tag, r.end, firstEndIssue[s])
			case mustNot && present != 0:
				bad("mutation_after_end", "span %d: %s %s was issued (t=%d) after an End had returned (t=%d) but is in the snapshot", s, r.op.K, r.tag, r.start, firstEndReturn[s])
			}
			if !must && !mustNot {
				classes["mutation_concurrent_with_end"] = true
			}
		}
		if !names[snap.name] {
			bad("name_invented", "span %d exported with name %q which nobody set", s, snap.name)
		}
		if !statuses[snap.status] {
			bad("status_invented", "span %d exported with status %q which nobody set", s, snap.status)
		}
		if snap.children < childLo || snap.children > childHi {
			bad("child_count", "span %d: ChildSpanCount %d, but %d children were started before the first End was issued and %d before the first End returned", s, snap.children, childLo, childHi)
		}
		if childHi > 0 {
			classes["children_started"] = true
		}
		for _, r := range recs {
			if r.op.S == s && r.op.K == "child" && r.op.C%3 != 0 {
				classes["child_dropped_or_record_only_by_sampler"] = true
			}
		}
	}
	// children: started and ended inside one op, so every initial processor
	// (registered throughout) gets each recording child exactly once and a
	// dropped child never; a racy child is Ended by two goroutines.
	for _, r := range recs {
		if r.op.K != "child" && r.op.K != "racychild" {
			continue
		}
		want := 1
		if r.op.K == "child" && r.op.C%3 == 1 {
			want = 0
		}
		other := r.op.K == "child" && r.op.N%2 == 1
		for pi, p := range append(append([]*recProcessor{}, procs...), proc2) {
			w := want
			if other != (pi == len(procs)) { // the provider the child was NOT started through
				w = 0
			}
			p.mu.Lock()
			n := len(p.ends[r.child])
			p.mu.Unlock()
			if n != w {
				bad("child_delivery_count", "%s %s of span %d (decision %d, second provider %v) was delivered %d time(s) to processor %d, expected %d", r.op.K, r.tag, r.op.S, r.op.C, other, n, pi, w)
			}
		}
		if other {
			classes["child_started_through_a_second_provider"] = true
		}
		if r.op.K == "racychild" {
			classes["child_shared_from_OnStart_and_ended_by_two_goroutines"] = true
		}
	}
	if c.RecOnly != 0 {
		classes["record_only_shared_span"] = true
	}
	if len(vs) > 0 {
		var h []string
		for _, r := range recs {
			h = append(h, fmt.Sprintf("t=%d..%d g%d %s span%d %s", r.start, r.end, r.g, r.op.K, r.op.S, r.tag))
		}
		sort.Slice(h, func(i, j int) bool {
			var a, b int64
			fmt.Sscanf(h[i], "t=%d", &a)
			fmt.Sscanf(h[j], "t=%d", &b)
			return a < b
		})
		vs[0].Observed = h
	}
	return vs, classes
}

func run(c Case) ([]vk.Violation, vk.Info) {
	var info vk.Info
	all := map[string]bool{}
	var vs []vk.Violation
	runs := c.Runs
	if runs < 1 {
		runs = 1
	}
	for i := 0; i < runs && len(vs) == 0; i++ {
		v, cl := runOnce(c)
		vs = v
		for k := range cl {
			all[k] = true
		}
	}
	info.NonTrivial = all["two_or_more_goroutines_end_same_span"]
	for k := range all {
		info.Class(k)
	}
	info.ClassIf(c.Trace, "runtime_trace_enabled")
	info.ClassIf(c.Processors > 1, "several_processors")
	return vs, info
}

func TestSpanConcurrent(t *testing.T) {
	vk.Run(t, vk.Spec[Case]{
		Property: "C10", Check: "span_concurrent",
		Rule: "2..8 goroutines applying generated sequences of End / End(WithTimestamp) / tagged SetAttributes batches / AddEvent / AddLink / RecordError / SetStatus / SetName / IsRecording / child Start / Tracer / Register+UnregisterSpanProcessor / ForceFlush to 1..3 shared spans with 1..3 recording processors, runtime/trace on or off, each program run 3 times under -race; " +
			"non-trivial = at least two goroutines call End on the same span; distinct = distinct case encodings",
		Quick: 1500, Thorough: 20000,
		Gen: gen, Run: run, Repeat: 300,
		CaseTimeout: 60 * time.Second,
	})
}

// ---------------------------------------------------------------------
// end_race

// RaceCase parameterises the End race.
type RaceCase struct {
	Spans      int   `json:"spans"`
	Goroutines int   `json:"goroutines"`
	Processors int   `json:"processors"`
	Trace      bool  `json:"runtime_trace"`
	Perturb    []int `json:"perturb"`  // per goroutine: perturbation between barrier release and End
	WithTS     []int `json:"with_ts"`  // per goroutine: 1 = End(WithTimestamp(g-specific))
	Mutators   int   `json:"mutators"` // extra goroutines calling SetAttributes on the spans meanwhile
	// AttrLimit: 0 = unlimited; 1..3 = AttributeCountLimit, and the spans are
	// pre-filled to the limit so that the mutators' same-key updates take the
	// in-place update path of a full span (the path on which a mutation that
	// slips past End would alter the already exported snapshot).
	AttrLimit int `json:"attr_limit,omitempty"`
}

func genRace(t *rapid.T) RaceCase {
	c := RaceCase{}
	c.Spans = rapid.IntRange(20, 60).Draw(t, "spans")
	c.Goroutines = rapid.IntRange(2, 6).Draw(t, "goroutines")
	c.Processors = rapid.IntRange(1, 2).Draw(t, "processors")
	c.Trace = rapid.IntRange(0, 3).Draw(t, "runtime_trace") != 0
	c.Perturb = rapid.SliceOfN(rapid.IntRange(0, 1), c.Goroutines, c.Goroutines).Draw(t, "perturb")
	c.WithTS = rapid.SliceOfN(rapid.IntRange(0, 1), c.Goroutines, c.Goroutines).Draw(t, "with_ts")
	c.Mutators = rapid.IntRange(0, 2).Draw(t, "mutators")
	if c.Mutators > 0 {
		c.AttrLimit = rapid.SampledFrom([]int{0, 1, 2, 3}).Draw(t, "attr_limit")
	}
	return c
}

func runRace(c RaceCase) ([]vk.Violation, vk.Info) {
	var vs []vk.Violation
	var info vk.Info
	bad := func(kind, format string, a ...any) { vs = append(vs, vk.V(kind, format, a...)) }
	otel.SetErrorHandler(&vk.ErrCapture{})
	if c.Trace {
		if err := rtrace.Start(io.Discard); err == nil {
			defer rtrace.Stop()
		}
	}
	clock := &vk.Clock{}
	procs := make([]*recProcessor, c.Processors)
	limits := unlimited()
	if c.AttrLimit > 0 {
		limits.AttributeCountLimit = c.AttrLimit
	}
	opts := []sdktrace.TracerProviderOption{sdktrace.WithRawSpanLimits(limits)}
	for i := range procs {
		procs[i] = &recProcessor{clock: clock, ends: map[trace.SpanID][]delivery{}}
		opts = append(opts, sdktrace.WithSpanProcessor(procs[i]))
	}
	tp := sdktrace.NewTracerProvider(opts...)
	tr := tp.Tracer("c10")
	spans := make([]trace.Span, c.Spans)
	starts := make([]time.Time, c.Spans)
	for i := range spans {
		starts[i] = time.Unix(1700000000+int64(i), 0)
		_, spans[i] = tr.Start(context.Background(), "s", trace.WithTimestamp(starts[i]))
		if c.AttrLimit > 0 {
			spans[i].SetAttributes(attribute.Int("m", -1), attribute.Int("i", -1), attribute.Int("x", -1))
		}
	}
	arrived := make([]atomic.Int32, c.Spans)
	stillRecording := atomic.Int32{}
	var stop atomic.Bool
	var mwg sync.WaitGroup
	for m := 0; m < c.Mutators; m++ {
		mwg.Add(1)
		go func(m int) {
			defer mwg.Done()
			round := 0
			for !stop.Load() {
				round++
				for i := range spans {
					spans[i].SetAttributes(attribute.Int("m", m*1000000+round), attribute.Int("i", i*1000000+round))
				}
				runtime.Gosched()
			}
		}(m)
	}
	vk.Parallel(c.Goroutines, func(g int) {
		for i := range spans {
			arrived[i].Add(1)
			for arrived[i].Load() < int32(c.Goroutines) {
				runtime.Gosched()
			}
			vk.Perturb(c.Perturb[g])
			if c.WithTS[g] == 1 {
				spans[i].End(trace.WithTimestamp(starts[i].Add(time.Duration(g+1) * time.Second)))
			} else {
				spans[i].End()
			}
			if spans[i].IsRecording() {
				stillRecording.Add(1)
			}
		}
	})
	stop.Store(true)
	mwg.Wait()
	_ = tp.Shutdown(context.Background())
	if n := stillRecording.Load(); n > 0 {
		bad("recording_after_end", "IsRecording() was true %d time(s) right after End returned", n)
	}
	for i, sp := range spans {
		sid := sp.SpanContext().SpanID()
		var first *delivery
		for pi, p := range procs {
			p.mu.Lock()
			ds := p.ends[sid]
			p.mu.Unlock()
			if len(ds) != 1 {
				bad("delivery_count", "span %d was delivered %d time(s) to processor %d although %d goroutines raced on End", i, len(ds), pi, c.Goroutines)
			}
			for di := range ds {
				d := &ds[di]
				if first == nil {
					first = d
				} else if !first.snap.end.Equal(d.snap.end) {
					bad("end_time_differs", "span %d: processors saw end times %v and %v", i, first.snap.end, d.snap.end)
				}
				if diff := d.snap.equal(copySnap(d.ro)); diff != "" {
					bad("snapshot_changed", "span %d: the snapshot handed to processor %d changed after OnEnd: %s", i, pi, diff)
				}
			}
		}
	}
	info.NonTrivial = true
	info.ClassIf(c.Trace, "runtime_trace_enabled")
	info.ClassIf(c.Mutators > 0, "concurrent_mutators")
	info.ClassIf(c.AttrLimit > 0, "spans_full_at_attribute_limit")
	info.ClassIf(c.Goroutines >= 4, "four_or_more_enders")
	return vs, info
}

func TestEndRace(t *testing.T) {
	vk.Run(t, vk.Spec[RaceCase]{
		Property: "C10", Check: "end_race",
		Rule:  "G=2..6 goroutines all call End (plain or with a goroutine-specific timestamp) on each of N=20..60 shared spans, released together span by span through a spin barrier, 0..2 goroutines mutating the spans meanwhile, runtime/trace mostly on; every case is non-trivial (N G-way End races); distinct = distinct parameter tuples",
		Quick: 250, Thorough: 4000,
		Gen: genRace, Run: runRace, Repeat: 200,
		CaseTimeout: 60 * time.Second,
	})
}
