// Package c06 decides property C06 (log batch processor: each record once,
// in emission order per goroutine, one export at a time, bounded batches,
// exported content frozen at emit time, nothing after Shutdown) by running
// generated concurrent, phased programs with generated exporter fault plans
// against sdk/log's BatchProcessor and evaluating a schedule-independent
// oracle over the recorded history.
//
// Readings of the statement (conservative where it is ambiguous):
//   - "passed to the exporter" = contained in the slice of an Export call,
//     whatever that call returns; an export error or timeout is never an
//     excuse for a record to be missing.
//   - Completeness is asserted for a ForceFlush / Shutdown call only when it
//     returned nil and does not overlap a Shutdown call, for records whose
//     Emit had returned before the call was issued and before any Shutdown
//     was issued.
//   - A record that is never exported must be explainable by the statement's
//     only exception (overwritten as the oldest when the bounded queue
//     overflowed): at least <queue size> other records must have been emitted
//     not-before it and before the first successful flush that follows it.
//     A record not yet exported when such a flush returns must never be
//     exported later.
//   - "Shutdown has returned" = every Shutdown call of the phase in which the
//     first one was issued has returned without error.
package c06

import (
	"context"
	"errors"
	"fmt"
	"sort"
	"strconv"
	"strings"
	"sync"
	"sync/atomic"
	"testing"
	"time"

	"github.com/go-logr/logr"
	"go.opentelemetry.io/otel"
	"go.opentelemetry.io/otel/log"
	sdklog "go.opentelemetry.io/otel/sdk/log"
	"go.opentelemetry.io/otel/sdk/log/logtest"
	"go.opentelemetry.io/otel/verif/internal/vk"
	"pgregory.net/rapid"
)

// Op is one step of one goroutine.
type Op struct {
	K string `json:"k"`           // emit | flush | shutdown | pause
	P int    `json:"p,omitempty"` // perturbation before the op
	T int    `json:"t,omitempty"` // flush/shutdown: ctx timeout in microseconds, 0 none, -1 cancelled, -2/-3/-6 cancelled 0.3/0.6/1.5 ms after the call was issued
	M bool   `json:"m,omitempty"` // emit: mutate the caller's record right after Emit returned
	C int    `json:"c,omitempty"` // emit: context handed to Emit: 0 live, 1 already cancelled, 2 deadline already expired (a record is emitted all the same)
}

// Case is one generated program.
type Case struct {
	Queue           int      `json:"queue"`
	Batch           int      `json:"batch"`
	IntervalUs      int64    `json:"interval_us"`
	ExportTimeoutUs int64    `json:"export_timeout_us"`
	Buffer          int      `json:"buffer"`
	ViaProvider     bool     `json:"via_provider"`
	Phases          [][][]Op `json:"phases"`
	Exporter        []int    `json:"exporter"` // n-th Export call: 0 ok, 1 error, 2 sleep 50us, 3 sleep 1ms, 4 sleep 3ms, 5 block until ctx done (cap 4ms)
	Runs            int      `json:"runs"`
}

func gen(t *rapid.T) Case {
	c := Case{}
	c.Queue = rapid.OneOf(rapid.IntRange(1, 4), rapid.IntRange(1, 32)).Draw(t, "queue")
	c.Batch = rapid.IntRange(1, c.Queue).Draw(t, "batch")
	c.IntervalUs = rapid.SampledFrom([]int64{1000, 3600e6, 3600e6}).Draw(t, "interval")
	c.ExportTimeoutUs = rapid.SampledFrom([]int64{2000, 1e6, 1e6}).Draw(t, "export_timeout")
	c.Buffer = rapid.IntRange(1, 3).Draw(t, "buffer")
	c.ViaProvider = rapid.IntRange(0, 2).Draw(t, "via_provider") == 0
	nphases := rapid.IntRange(1, 5).Draw(t, "phases")
	shutdownSeen := false
	for p := 0; p < nphases; p++ {
		var phase [][]Op
		switch rapid.IntRange(0, 5).Draw(t, "phase_kind") {
		case 0, 1: // a lone flush, then emits only, at most Queue of them: nothing may be lost
			if shutdownSeen {
				continue
			}
			c.Phases = append(c.Phases, [][]Op{{{K: "flush"}}})
			ng := rapid.IntRange(1, 4).Draw(t, "goroutines")
			budget := c.Queue
			for g := 0; g < ng; g++ {
				n := budget
				if g < ng-1 || rapid.Bool().Draw(t, "partial") {
					n = rapid.IntRange(0, budget).Draw(t, "n")
				}
				budget -= n
				var ops []Op
				for i := 0; i < n; i++ {
					ops = append(ops, Op{K: "emit", P: rapid.IntRange(0, 2).Draw(t, "p"), M: rapid.Bool().Draw(t, "m"), C: genEmitCtx(t)})
				}
				phase = append(phase, ops)
			}
		default:
			ng := rapid.IntRange(1, 6).Draw(t, "goroutines")
			for g := 0; g < ng; g++ {
				n := rapid.IntRange(0, 16).Draw(t, "ops")
				var ops []Op
				for i := 0; i < n; i++ {
					op := Op{P: rapid.IntRange(0, 4).Draw(t, "p")}
					switch k := rapid.IntRange(0, 19).Draw(t, "kind"); {
					case k < 15:
						op.K = "emit"
						op.M = rapid.Bool().Draw(t, "m")
						op.C = genEmitCtx(t)
					case k < 18:
						op.K = "flush"
						op.T = rapid.SampledFrom([]int{0, 0, 0, 50, 5000, -1, -2, -3, -6}).Draw(t, "ctx")
					case k == 18 && !shutdownSeen && rapid.Bool().Draw(t, "really_shutdown"):
						op.K = "shutdown"
						op.T = rapid.SampledFrom([]int{0, 0, 100, -1}).Draw(t, "ctx")
					default:
						op.K = "pause"
					}
					ops = append(ops, op)
				}
				phase = append(phase, ops)
			}
			for _, ops := range phase {
				for _, op := range ops {
					if op.K == "shutdown" {
						shutdownSeen = true
					}
				}
			}
		}
		c.Phases = append(c.Phases, phase)
	}
	if rapid.Bool().Draw(t, "slow_exporter") {
		c.Exporter = rapid.SliceOfN(rapid.SampledFrom([]int{3, 4, 4, 5, 1}), 8, 24).Draw(t, "exporter")
	} else {
		c.Exporter = rapid.SliceOfN(rapid.SampledFrom([]int{0, 0, 0, 1, 2, 2, 3, 4, 5}), 0, 24).Draw(t, "exporter")
	}
	c.Runs = 2
	return c
}

// ---------------------------------------------------------------------
// recording exporter

type recItem struct {
	id      int // global record id, -1 if unparsable
	content string
}

type exportCall struct {
	enter, exit int64
	items       []recItem
	err         bool
}

type recExporter struct {
	clock     *vk.Clock
	script    []int
	mu        sync.Mutex
	calls     []*exportCall
	n         atomic.Int64
	inflight  atomic.Int32
	overlap   atomic.Int32
	shutdowns atomic.Int32
}

var errScripted = errors.New("scripted exporter failure")

func render(r *sdklog.Record) (int, string) {
	var sb strings.Builder
	sb.WriteString(r.Body().AsString())
	r.WalkAttributes(func(kv log.KeyValue) bool {
		sb.WriteString("|" + kv.Key + "=" + kv.Value.String())
		return true
	})
	id := -1
	body := r.Body().AsString()
	if strings.HasPrefix(body, "rec:") {
		if n, err := strconv.Atoi(body[4:]); err == nil {
			id = n
		}
	}
	return id, sb.String()
}

func (e *recExporter) Export(ctx context.Context, records []sdklog.Record) error {
	if e.inflight.Add(1) > 1 {
		e.overlap.Add(1)
	}
	defer e.inflight.Add(-1)
	call := &exportCall{enter: e.clock.Tick()}
	for i := range records {
		id, content := render(&records[i]) // copy inside the call
		call.items = append(call.items, recItem{id, content})
	}
	e.mu.Lock()
	e.calls = append(e.calls, call)
	e.mu.Unlock()
	n := int(e.n.Add(1)) - 1
	beh := 0
	if n < len(e.script) {
		beh = e.script[n]
	}
	var err error
	switch beh {
	case 1:
		err = errScripted
	case 2:
		time.Sleep(50 * time.Microsecond)
	case 3:
		time.Sleep(time.Millisecond)
	case 4:
		time.Sleep(3 * time.Millisecond)
	case 5:
		select {
		case <-ctx.Done():
			err = ctx.Err()
		case <-time.After(4 * time.Millisecond):
		}
	}
	e.mu.Lock()
	call.err = err != nil
	call.exit = e.clock.Tick()
	e.mu.Unlock()
	return err
}

func (e *recExporter) Shutdown(context.Context) error {
	e.shutdowns.Add(1)
	return nil
}
func (e *recExporter) ForceFlush(context.Context) error { return nil }

// ---------------------------------------------------------------------

type emitRec struct {
	start, end int64
	producer   int // phase*100 + goroutine
	phase      int
	done       bool
}

type callRec struct {
	kind       string
	start, end int64
	err        error
	phase      int
}

func mkCtx(t int) (context.Context, context.CancelFunc) {
	switch {
	case t <= -2:
		// cancelled (not timed out) while the call is in progress
		ctx, cancel := context.WithCancel(context.Background())
		timer := time.AfterFunc(time.Duration(-t-1)*300*time.Microsecond, cancel)
		return ctx, func() { timer.Stop(); cancel() }
	case t < 0:
		ctx, cancel := context.WithCancel(context.Background())
		cancel()
		return ctx, cancel
	case t == 0:
		return context.Background(), func() {}
	default:
		return context.WithTimeout(context.Background(), time.Duration(t)*time.Microsecond)
	}
}

// expected content of record id: body + 7 attributes (5 inline + 2 in the
// overflow slice) all derived from the id.
func attrsFor(id int) []log.KeyValue {
	kvs := make([]log.KeyValue, 7)
	for i := range kvs {
		kvs[i] = log.String("k"+strconv.Itoa(i), "v"+strconv.Itoa(id)+"."+strconv.Itoa(i))
	}
	return kvs
}

func expectedContent(id int) string {
	var sb strings.Builder
	sb.WriteString("rec:" + strconv.Itoa(id))
	for _, kv := range attrsFor(id) {
		sb.WriteString("|" + kv.Key + "=" + kv.Value.String())
	}
	return sb.String()
}

func runOnce(c Case) ([]vk.Violation, map[string]bool) {
	var vs []vk.Violation
	classes := map[string]bool{}
	bad := func(kind, format string, a ...any) { vs = append(vs, vk.V(kind, format, a...)) }

	clock := &vk.Clock{}
	logs := &vk.LogCapture{}
	otel.SetLogger(logr.New(logs))
	otel.SetErrorHandler(&vk.ErrCapture{})

	// assign global record ids in program order
	type slot struct{ phase, g, i int }
	ids := map[slot]int{}
	nrec := 0
	for pi, ph := range c.Phases {
		for g, ops := range ph {
			for i, op := range ops {
				if op.K == "emit" {
					ids[slot{pi, g, i}] = nrec
					nrec++
				}
			}
		}
	}
	const extra = 2 // late records after shutdown
	total := nrec + extra

	exp := &recExporter{clock: clock, script: c.Exporter}
	bp := sdklog.NewBatchProcessor(exp,
		sdklog.WithMaxQueueSize(c.Queue), sdklog.WithExportMaxBatchSize(c.Batch),
		sdklog.WithExportInterval(time.Duration(c.IntervalUs)*time.Microsecond),
		sdklog.WithExportTimeout(time.Duration(c.ExportTimeoutUs)*time.Microsecond),
		sdklog.WithExportBufferSize(c.Buffer))

	var emit func(id int, mutate bool, ctxKind int)
	var flush, shutdown func(context.Context) error
	if c.ViaProvider {
		lp := sdklog.NewLoggerProvider(sdklog.WithProcessor(bp), sdklog.WithAttributeCountLimit(-1), sdklog.WithAttributeValueLengthLimit(-1))
		lg := lp.Logger("c06")
		emit = func(id int, mutate bool, ctxKind int) {
			var r log.Record
			r.SetBody(log.StringValue("rec:" + strconv.Itoa(id)))
			kvs := attrsFor(id)
			r.AddAttributes(kvs...)
			lg.Emit(emitCtx(ctxKind), r)
			if mutate {
				for i := range kvs {
					kvs[i] = log.String("mutated", "x")
				}
				r.SetBody(log.StringValue("MUTATED"))
				r.AddAttributes(log.String("k6", "MUTATED"), log.String("k0", "MUTATED"))
			}
		}
		flush, shutdown = lp.ForceFlush, lp.Shutdown
	} else {
		emit = func(id int, mutate bool, ctxKind int) {
			r := logtest.RecordFactory{
				Body: log.StringValue("rec:" + strconv.Itoa(id)), Attributes: attrsFor(id),
				AttributeCountLimit: -1, AttributeValueLengthLimit: -1,
			}.NewRecord()
			_ = bp.OnEmit(emitCtx(ctxKind), &r)
			if mutate {
				// overwrite in place: k6 lives in the overflow slice, k0 inline
				r.AddAttributes(log.String("k6", "MUTATED"), log.String("k0", "MUTATED"))
				r.SetBody(log.StringValue("MUTATED"))
			}
		}
		flush, shutdown = bp.ForceFlush, bp.Shutdown
	}

	emits := make([]emitRec, total)
	var cmu sync.Mutex
	var calls []*callRec
	doEmit := func(id, producer, phase int, mutate bool, ctxKind int) {
		emits[id].producer, emits[id].phase = producer, phase
		emits[id].start = clock.Tick()
		emit(id, mutate, ctxKind)
		emits[id].end = clock.Tick()
		emits[id].done = true
	}
	doCall := func(kind string, t, phase int) *callRec {
		ctx, cancel := mkCtx(t)
		defer cancel()
		r := &callRec{kind: kind, phase: phase}
		r.start = clock.Tick()
		if kind == "flush" {
			r.err = flush(ctx)
		} else {
			r.err = shutdown(ctx)
		}
		r.end = clock.Tick()
		cmu.Lock()
		calls = append(calls, r)
		cmu.Unlock()
		return r
	}

	for pi, ph := range c.Phases {
		vk.Parallel(len(ph), func(g int) {
			for i, op := range ph[g] {
				vk.Perturb(op.P)
				switch op.K {
				case "emit":
					doEmit(ids[slot{pi, g, i}], pi*100+g, pi, op.M, op.C)
				case "flush":
					doCall("flush", op.T, pi)
				case "shutdown":
					doCall("shutdown", op.T, pi)
				case "pause":
					time.Sleep(300 * time.Microsecond)
				}
			}
		})
	}

	const never = int64(1) << 62
	firstShutdownIssue := never
	for _, r := range calls {
		if r.kind == "shutdown" && r.start < firstShutdownIssue {
			firstShutdownIssue = r.start
		}
	}
	midShutdown := firstShutdownIssue != never
	final := len(c.Phases)
	if !midShutdown {
		doCall("flush", 0, final)
	}
	lastShutdown := doCall("shutdown", 0, final)
	if firstShutdownIssue > lastShutdown.start {
		firstShutdownIssue = lastShutdown.start
	}
	doEmit(nrec, 9999, final+1, false, 0)
	doEmit(nrec+1, 9999, final+1, true, 0)
	doCall("flush", 0, final+1)

	// cleanup only: let a Shutdown whose context expired finish in the background
	for i := 0; i < 4000 && exp.shutdowns.Load() == 0; i++ {
		time.Sleep(500 * time.Microsecond)
	}
	for i := 0; i < 4000 && exp.inflight.Load() != 0; i++ {
		time.Sleep(500 * time.Microsecond)
	}

	// ---- oracle ----
	exp.mu.Lock()
	ecalls := make([]*exportCall, len(exp.calls))
	for i, call := range exp.calls {
		cp := *call
		ecalls[i] = &cp
	}
	exp.mu.Unlock()

	where := map[int]*exportCall{}
	lastSeq := map[int]int{} // producer -> last exported id (ids grow in emission order per producer)
	for ci, call := range ecalls {
		if call.exit == 0 {
			call.exit = never
		}
		if len(call.items) > c.Batch {
			bad("batch_too_large", "Export call %d received %d records, the maximum batch size is %d", ci, len(call.items), c.Batch)
		}
		if len(call.items) == 0 {
			bad("empty_export", "Export call %d received no records", ci)
		}
		if call.err {
			classes["exporter_error_or_timeout"] = true
		}
		for _, it := range call.items {
			if it.id < 0 || it.id >= total || !emits[it.id].done {
				bad("unknown_record_exported", "Export call %d received a record the program never emitted: %q", ci, it.content)
				continue
			}
			if prev, dup := where[it.id]; dup {
				bad("exported_twice", "record %d passed to the exporter twice (calls entered at t=%d and t=%d)", it.id, prev.enter, call.enter)
			}
			where[it.id] = call
			if want := expectedContent(it.id); it.content != want {
				bad("content_changed", "record %d exported as %q, emitted as %q", it.id, it.content, want)
			}
			if call.enter < emits[it.id].start {
				bad("exported_before_emit", "record %d exported before it was emitted", it.id)
			}
			p := emits[it.id].producer
			if last, ok := lastSeq[p]; ok && it.id < last {
				bad("out_of_order", "goroutine %d: record %d exported after record %d although it was emitted earlier", p, it.id, last)
			}
			lastSeq[p] = it.id
		}
	}
	if n := exp.overlap.Load(); n > 0 {
		bad("concurrent_export", "Export was entered %d time(s) while another Export call was still running", n)
	}
	if n := exp.shutdowns.Load(); n > 1 {
		bad("exporter_shutdown_twice", "exporter Shutdown called %d times", n)
	}

	allShutdownsNil := true
	for _, r := range calls {
		if r.kind == "shutdown" && r.err != nil {
			allShutdownsNil = false
			classes["shutdown_returned_error"] = true
		}
	}
	shutdownPhase := int(^uint(0) >> 1)
	for _, r := range calls {
		if r.kind == "shutdown" && r.phase < shutdownPhase {
			shutdownPhase = r.phase
		}
	}
	shutdownReturned := int64(0)
	for _, r := range calls {
		if r.kind == "shutdown" && r.phase == shutdownPhase && r.end > shutdownReturned {
			shutdownReturned = r.end
		}
	}
	if allShutdownsNil {
		for ci, call := range ecalls {
			if call.enter > shutdownReturned {
				bad("export_after_shutdown", "Export call %d started (t=%d) after Shutdown had returned nil (t=%d)", ci, call.enter, shutdownReturned)
			}
		}
		if exp.shutdowns.Load() != 1 {
			bad("exporter_not_shut_down", "exporter Shutdown called %d times although every Shutdown call returned nil", exp.shutdowns.Load())
		}
	}

	// completeness
	overlapsOtherShutdown := func(r *callRec) bool {
		for _, o := range calls {
			if o != r && o.kind == "shutdown" && o.start < r.end {
				return true
			}
		}
		return false
	}
	var goodFlushes []*callRec // successful, asserted calls
	for _, r := range calls {
		if r.err != nil {
			classes[r.kind+"_returned_error"] = true
			continue
		}
		switch r.kind {
		case "flush":
			if r.end > firstShutdownIssue {
				continue
			}
		case "shutdown":
			if r.start != firstShutdownIssue || overlapsOtherShutdown(r) {
				continue
			}
		}
		goodFlushes = append(goodFlushes, r)
	}
	missing := 0
	for id := 0; id < total; id++ {
		e := emits[id]
		if !e.done || e.end >= firstShutdownIssue {
			continue
		}
		// first asserted call issued after the emit returned
		var f *callRec
		for _, r := range goodFlushes {
			if r.start > e.end && (f == nil || r.end < f.end) {
				f = r
			}
		}
		if f == nil {
			continue
		}
		call, exported := where[id]
		switch {
		case exported && call.enter < f.end:
			continue
		case exported:
			bad("not_flushed", "record %d (Emit returned t=%d) was passed to the exporter only at t=%d, after %s issued at t=%d had returned nil at t=%d", id, e.end, call.enter, f.kind, f.start, f.end)
			continue
		}
		missing++
		// never exported: must be explainable by overflow
		after := 0
		for o := 0; o < total; o++ {
			if o != id && emits[o].done && emits[o].end > e.start && emits[o].start < f.end {
				after++
			}
		}
		if after < c.Queue {
			bad("lost_without_overflow", "record %d (Emit t=%d..%d) was never passed to the exporter although %s (t=%d..%d) returned nil and only %d other records could have been queued after it (queue size %d)", id, e.start, e.end, f.kind, f.start, f.end, after, c.Queue)
		}
	}
	if missing > 0 {
		classes["overflow_overwrites_oldest"] = true
	}
	// the SDK's own drop report never exceeds what is actually missing
	var logged uint64
	for _, e := range logs.Entries() {
		if e.Msg == "dropped log records" {
			if d, ok := e.KV["dropped"].(uint64); ok {
				logged += d
			}
		}
	}
	neverExported := 0
	for id := 0; id < nrec; id++ {
		if _, ok := where[id]; emits[id].done && !ok {
			neverExported++
		}
	}
	if int(logged) > neverExported {
		bad("drop_report_exceeds_missing", "the processor logged %d dropped records but only %d emitted records were never exported", logged, neverExported)
	}

	if len(vs) > 0 {
		// attach the observed history to the first violation (schedule-dependent
		// failures cannot be re-derived from the case alone)
		var h []string
		for id := 0; id < total; id++ {
			if emits[id].done {
				h = append(h, fmt.Sprintf("t=%d..%d emit rec %d by goroutine %d", emits[id].start, emits[id].end, id, emits[id].producer))
			}
		}
		for _, r := range calls {
			h = append(h, fmt.Sprintf("t=%d..%d %s -> %v", r.start, r.end, r.kind, r.err))
		}
		for ci, call := range ecalls {
			var ids []int
			for _, it := range call.items {
				ids = append(ids, it.id)
			}
			h = append(h, fmt.Sprintf("t=%d..%d Export#%d %v err=%v", call.enter, call.exit, ci, ids, call.err))
		}
		sort.Slice(h, func(i, j int) bool {
			var a, b int64
			fmt.Sscanf(h[i], "t=%d", &a)
			fmt.Sscanf(h[j], "t=%d", &b)
			return a < b
		})
		if len(h) > 400 {
			h = h[:400]
		}
		vs[0].Observed = h
	}

	if len(ecalls) >= 2 {
		classes["two_or_more_exports"] = true
	}
	if midShutdown {
		classes["mid_run_shutdown"] = true
	}
	for _, r := range calls {
		if r.kind == "flush" && r.phase < final {
			for _, call := range ecalls {
				if call.enter < r.start && call.exit > r.start {
					classes["flush_issued_while_export_in_progress"] = true
				}
			}
		}
	}
	for _, call := range ecalls {
		classes[fmt.Sprintf("batch_full=%v", len(call.items) == c.Batch)] = true
	}
	return vs, classes
}

func run(c Case) ([]vk.Violation, vk.Info) {
	var info vk.Info
	runs := c.Runs
	if runs < 1 {
		runs = 1
	}
	all := map[string]bool{}
	var vs []vk.Violation
	for i := 0; i < runs && len(vs) == 0; i++ {
		v, cl := runOnce(c)
		vs = v
		for k := range cl {
			all[k] = true
		}
	}
	multi, flushes, overflowPhase, doneCtxEmit := false, 0, false, false
	for _, ph := range c.Phases {
		producers, n := 0, 0
		for _, ops := range ph {
			has := false
			for _, op := range ops {
				if op.K == "emit" {
					has = true
					n++
					if op.C != 0 {
						doneCtxEmit = true
					}
				}
				if op.K == "flush" {
					flushes++
				}
			}
			if has {
				producers++
			}
		}
		if producers >= 2 {
			multi = true
		}
		if n > c.Queue {
			overflowPhase = true
		}
	}
	info.NonTrivial = (multi || overflowPhase || flushes > 0) && all["two_or_more_exports"]
	for k := range all {
		info.Class(k)
	}
	info.ClassIf(doneCtxEmit, "emit_with_cancelled_or_expired_context")
	info.ClassIf(c.ViaProvider, "via_logger_provider")
	info.ClassIf(multi, "two_or_more_producers")
	info.ClassIf(overflowPhase, "phase_emits_more_than_queue")
	info.ClassIf(c.IntervalUs < 1e6, "interval_polling_active")
	return vs, info
}

func TestLogBatchProcessor(t *testing.T) {
	vk.Run(t, vk.Spec[Case]{
		Property: "C06", Check: "blp_history",
		Rule: "generated concurrent programs (1-5 barrier-separated phases of 1-6 goroutines issuing Emit (optionally mutating the caller's record afterwards) / ForceFlush / Shutdown / pauses with generated contexts and schedule perturbations) x BatchProcessor configurations (queue 1-32, batch 1-queue, interval 1ms/1h, export timeout 2ms/1s, export buffer 1-3, bare processor or through a LoggerProvider) x exporter fault plans (ok/error/slow/blocks until its context expires); each program is executed twice; " +
			"non-trivial = (>= 2 producer goroutines in a phase, or a phase emitting more than the queue holds, or a ForceFlush) and >= 2 Export calls observed; distinct = distinct case encodings",
		Quick: 300, Thorough: 3000,
		Gen: gen, Run: run, Repeat: 100,
		ShrinkTime: 30 * time.Second,
	})
}

// genEmitCtx draws the context an emit op hands to Emit: mostly live, sometimes
// already cancelled or past its deadline. The statement quantifies over every
// emitted record; a done context does not un-emit one (the pinned tree
// processes such records like any other).
func genEmitCtx(t *rapid.T) int {
	return rapid.SampledFrom([]int{0, 0, 0, 0, 0, 0, 1, 2}).Draw(t, "emit_ctx")
}

var (
	cancelledCtx = func() context.Context {
		ctx, cancel := context.WithCancel(context.Background())
		cancel()
		return ctx
	}()
	expiredCtx = func() context.Context {
		ctx, cancel := context.WithDeadline(context.Background(), time.Unix(1, 0))
		_ = cancel
		return ctx
	}()
)

func emitCtx(kind int) context.Context {
	switch kind {
	case 1:
		return cancelledCtx
	case 2:
		return expiredCtx
	}
	return context.Background()
}
