// Package c06 decides property C06 (log batch processor: each record once,
// in emission order per goroutine, one export at a time, bounded batches,
// exported content frozen at emit time, nothing after Shutdown) by running
// generated concurrent, phased programs with generated exporter fault plans
// against sdk/log's BatchProcessor and evaluating a schedule-independent
// oracle over the recorded history.
//
// Readings of the statement (conservative where it is ambiguous):
//   - "passed to the exporter" = contained in the slice of an Export call,
//     whatever that call returns; an export error or timeout is never an
//     excuse for a record to be missing.
//   - Completeness is asserted for a ForceFlush / Shutdown call only when it
//     returned nil and does not overlap a Shutdown call, for records whose
//     Emit had returned before the call was issued and before any Shutdown
//     was issued.
//   - A record that is never exported must be explainable by the statement's
//     only exception (overwritten as the oldest when the bounded queue
//     overflowed): at least <queue size> other records must have been emitted
//     not-before it and before the first successful flush that follows it.
//     A record not yet exported when such a flush returns must never be
//     exported later.
//   - "Shutdown has returned" = every Shutdown call of the phase in which the
//     first one was issued has returned without error.
//   - "the configured maximum batch size" / "the bounded queue" are what the
//     documentation of the With… options and of the OTEL_BLRP_* environment
//     variables makes of the configuration, through whichever channel it was
//     given (config_test.go holds the model); where the documentation has two
//     readings, the largest batch size and the smallest queue size are used.
//   - A change made to the record by a processor registered AFTER the batch
//     processor is a "later change to the caller's record" (the batch
//     processor's caller is the logger, which hands the same record on).
//   - A neighbour processor whose OnEmit fails does not un-emit a record.
//
// Sub-checks: blp_history (concurrent programs), blp_config (mostly
// sequential programs over every configuration channel and spelling, record
// counts placed around the configured sizes); both use the same oracle.
//
// Labels only, never asserted: the deadline of the Export context compared
// with the configured export timeout; which channel / spelling class each
// setting used.
package c06

import (
	"context"
	"errors"
	"fmt"
	"sort"
	"strconv"
	"strings"
	"sync"
	"sync/atomic"
	"testing"
	"time"

	"github.com/go-logr/logr"
	"go.opentelemetry.io/otel"
	"go.opentelemetry.io/otel/log"
	sdklog "go.opentelemetry.io/otel/sdk/log"
	"go.opentelemetry.io/otel/sdk/log/logtest"
	"go.opentelemetry.io/otel/verif/internal/vk"
	"pgregory.net/rapid"
)

// Op is one step of one goroutine.
type Op struct {
	K string `json:"k"`           // emit | flush | shutdown | pause
	P int    `json:"p,omitempty"` // perturbation before the op
	T int    `json:"t,omitempty"` // flush/shutdown: ctx timeout in microseconds, 0 none, -1 cancelled, -2/-3/-6 cancelled 0.3/0.6/1.5 ms after the call was issued
	M bool   `json:"m,omitempty"` // emit: mutate the caller's record right after Emit returned
	C int    `json:"c,omitempty"` // emit: context handed to Emit: 0 live, 1 already cancelled, 2 deadline already expired (a record is emitted all the same)
	N int    `json:"n,omitempty"` // emit: burst of N records back to back (0 and 1: a single record)
}

func (o Op) count() int {
	if o.K != "emit" {
		return 0
	}
	if o.N > 1 {
		return o.N
	}
	return 1
}

// Case is one generated program.
type Case struct {
	Queue           int      `json:"queue"`
	Batch           int      `json:"batch"`
	IntervalUs      int64    `json:"interval_us"`
	ExportTimeoutUs int64    `json:"export_timeout_us"`
	Buffer          int      `json:"buffer"`
	ViaProvider     bool     `json:"via_provider"`
	Phases          [][][]Op `json:"phases"`
	Exporter        []int    `json:"exporter"` // n-th Export call: 0 ok, 1 error, 2 sleep 50us, 3 sleep 1ms, 4 sleep 3ms, 5 block until ctx done (cap 4ms)
	Runs            int      `json:"runs"`
	// Cfg, when present, says through which channel (option, environment,
	// both, neither) and in which spelling every setting is configured; the
	// five fields above are then informative only. Absent: one option each.
	Cfg *Config `json:"cfg,omitempty"`
	// AttrN: 0 = seven attributes per record; otherwise AttrN-1 attributes
	// (0..12; the first five live inline in the SDK record, the rest in its
	// overflow slice).
	AttrN int `json:"attr_n,omitempty"`
	// Neighbour (through a LoggerProvider only): another processor registered
	// with the same provider: 0 none, 1 one whose OnEmit fails, registered
	// before the batch processor, 2 the same registered after it, 3 one that
	// rewrites the record it is handed, registered after it, 4 a second batch
	// processor with a tiny queue and an exporter that always fails, before it.
	Neighbour int `json:"neighbour,omitempty"`
}

func (c Case) nattrs() int {
	if c.AttrN == 0 {
		return 7
	}
	return c.AttrN - 1
}

func (c Case) config() Config {
	if c.Cfg != nil {
		return *c.Cfg
	}
	return Config{
		Queue: optOnly(int64(c.Queue)), Batch: optOnly(int64(c.Batch)),
		Interval: optOnly(c.IntervalUs), Timeout: optOnly(c.ExportTimeoutUs),
		Buffer: optOnly(int64(c.Buffer)),
	}
}

func gen(t *rapid.T) Case {
	c := Case{}
	c.Queue = rapid.OneOf(rapid.IntRange(1, 4), rapid.IntRange(1, 32), rapid.IntRange(1, 32), rapid.IntRange(33, 160)).Draw(t, "queue")
	c.Batch = rapid.IntRange(1, c.Queue).Draw(t, "batch")
	if rapid.IntRange(0, 7).Draw(t, "batch_above_queue") == 0 {
		c.Batch = c.Queue + rapid.IntRange(1, 8).Draw(t, "batch_excess")
	}
	c.IntervalUs = rapid.SampledFrom([]int64{200, 1000, 1000, 5000, 3600e6, 3600e6, 3600e6, 3600e6}).Draw(t, "interval")
	c.ExportTimeoutUs = rapid.SampledFrom([]int64{2000, 1e6, 1e6}).Draw(t, "export_timeout")
	c.Buffer = rapid.IntRange(1, 3).Draw(t, "buffer")
	c.ViaProvider = rapid.IntRange(0, 2).Draw(t, "via_provider") == 0
	if c.ViaProvider {
		c.Neighbour = rapid.SampledFrom([]int{0, 0, 1, 2, 3, 4}).Draw(t, "neighbour")
	}
	c.AttrN = rapid.SampledFrom([]int{0, 0, 0, 1, 2, 5, 6, 7, 9, 13}).Draw(t, "attr_n")
	if rapid.Bool().Draw(t, "spelled_config") {
		// the same values, each through a generated channel and spelling
		// that has exactly one reading
		c.Cfg = &Config{
			Queue:    genExact(t, int64(c.Queue), true, false),
			Batch:    genExact(t, int64(c.Batch), true, false),
			Interval: genExact(t, c.IntervalUs, true, true),
			Timeout:  genExact(t, c.ExportTimeoutUs, true, true),
			Buffer:   genExact(t, int64(c.Buffer), false, false),
		}
	}
	nphases := rapid.IntRange(1, 5).Draw(t, "phases")
	shutdownSeen := false
	for p := 0; p < nphases; p++ {
		var phase [][]Op
		switch rapid.IntRange(0, 5).Draw(t, "phase_kind") {
		case 0, 1: // a lone flush, then emits only, at most Queue of them: nothing may be lost
			if shutdownSeen {
				continue
			}
			c.Phases = append(c.Phases, [][]Op{{{K: "flush"}}})
			ng := rapid.IntRange(1, 4).Draw(t, "goroutines")
			budget := c.Queue
			for g := 0; g < ng; g++ {
				n := budget
				if g < ng-1 || rapid.Bool().Draw(t, "partial") {
					n = rapid.IntRange(0, budget).Draw(t, "n")
				}
				budget -= n
				var ops []Op
				for i := 0; i < n; i++ {
					ops = append(ops, Op{K: "emit", P: rapid.IntRange(0, 2).Draw(t, "p"), M: rapid.Bool().Draw(t, "m"), C: genEmitCtx(t)})
				}
				phase = append(phase, ops)
			}
		default:
			ng := rapid.IntRange(1, 6).Draw(t, "goroutines")
			for g := 0; g < ng; g++ {
				n := rapid.IntRange(0, 16).Draw(t, "ops")
				var ops []Op
				for i := 0; i < n; i++ {
					op := Op{P: rapid.IntRange(0, 4).Draw(t, "p")}
					switch k := rapid.IntRange(0, 19).Draw(t, "kind"); {
					case k < 15:
						op.K = "emit"
						op.M = rapid.Bool().Draw(t, "m")
						op.C = genEmitCtx(t)
						if rapid.IntRange(0, 9).Draw(t, "burst") == 0 {
							op.N = rapid.OneOf(rapid.IntRange(2, 8), rapid.IntRange(2, 2*c.Queue+2)).Draw(t, "burst_n")
						}
					case k < 18:
						op.K = "flush"
						op.T = rapid.SampledFrom([]int{0, 0, 0, 50, 5000, -1, -2, -3, -6}).Draw(t, "ctx")
					case k == 18 && !shutdownSeen && rapid.Bool().Draw(t, "really_shutdown"):
						op.K = "shutdown"
						op.T = rapid.SampledFrom([]int{0, 0, 100, -1}).Draw(t, "ctx")
					default:
						op.K = "pause"
					}
					ops = append(ops, op)
				}
				phase = append(phase, ops)
			}
			for _, ops := range phase {
				for _, op := range ops {
					if op.K == "shutdown" {
						shutdownSeen = true
					}
				}
			}
		}
		c.Phases = append(c.Phases, phase)
	}
	if rapid.Bool().Draw(t, "slow_exporter") {
		c.Exporter = rapid.SliceOfN(rapid.SampledFrom([]int{3, 4, 4, 5, 1}), 8, 24).Draw(t, "exporter")
	} else {
		c.Exporter = rapid.SliceOfN(rapid.SampledFrom([]int{0, 0, 0, 1, 2, 2, 3, 4, 5}), 0, 24).Draw(t, "exporter")
	}
	c.Runs = 2
	return c
}

// ---------------------------------------------------------------------
// recording exporter

type recItem struct {
	id      int // global record id, -1 if unparsable
	content string
}

type exportCall struct {
	enter, exit int64
	items       []recItem
	err         bool
}

type recExporter struct {
	clock     *vk.Clock
	script    []int
	mu        sync.Mutex
	calls     []*exportCall
	n         atomic.Int64
	inflight  atomic.Int32
	overlap   atomic.Int32
	shutdowns atomic.Int32
	// longest time to its deadline an Export context had on entry (ns)
	maxRemaining atomic.Int64
}

var errScripted = errors.New("scripted exporter failure")

func render(r *sdklog.Record) (int, string) {
	var sb strings.Builder
	sb.WriteString(r.Body().AsString())
	r.WalkAttributes(func(kv log.KeyValue) bool {
		sb.WriteString("|" + kv.Key + "=" + kv.Value.String())
		return true
	})
	id := -1
	body := r.Body().AsString()
	if strings.HasPrefix(body, "rec:") {
		if n, err := strconv.Atoi(body[4:]); err == nil {
			id = n
		}
	}
	return id, sb.String()
}

func (e *recExporter) Export(ctx context.Context, records []sdklog.Record) error {
	if e.inflight.Add(1) > 1 {
		e.overlap.Add(1)
	}
	defer e.inflight.Add(-1)
	call := &exportCall{enter: e.clock.Tick()}
	if dl, ok := ctx.Deadline(); ok {
		if d := int64(time.Until(dl)); d > e.maxRemaining.Load() {
			e.maxRemaining.Store(d)
		}
	} else {
		e.maxRemaining.Store(int64(huge))
	}
	for i := range records {
		id, content := render(&records[i]) // copy inside the call
		call.items = append(call.items, recItem{id, content})
	}
	e.mu.Lock()
	e.calls = append(e.calls, call)
	e.mu.Unlock()
	n := int(e.n.Add(1)) - 1
	beh := 0
	if n < len(e.script) {
		beh = e.script[n]
	}
	var err error
	switch beh {
	case 1:
		err = errScripted
	case 2:
		time.Sleep(50 * time.Microsecond)
	case 3:
		time.Sleep(time.Millisecond)
	case 4:
		time.Sleep(3 * time.Millisecond)
	case 5:
		select {
		case <-ctx.Done():
			err = ctx.Err()
		case <-time.After(4 * time.Millisecond):
		}
	}
	e.mu.Lock()
	call.err = err != nil
	call.exit = e.clock.Tick()
	e.mu.Unlock()
	return err
}

func (e *recExporter) Shutdown(context.Context) error {
	e.shutdowns.Add(1)
	return nil
}
func (e *recExporter) ForceFlush(context.Context) error { return nil }

// ---------------------------------------------------------------------

type emitRec struct {
	start, end int64
	producer   int // phase*100 + goroutine
	phase      int
	done       bool
}

type callRec struct {
	kind       string
	start, end int64
	err        error
	phase      int
}

func mkCtx(t int) (context.Context, context.CancelFunc) {
	switch {
	case t <= -2:
		// cancelled (not timed out) while the call is in progress
		ctx, cancel := context.WithCancel(context.Background())
		timer := time.AfterFunc(time.Duration(-t-1)*300*time.Microsecond, cancel)
		return ctx, func() { timer.Stop(); cancel() }
	case t < 0:
		ctx, cancel := context.WithCancel(context.Background())
		cancel()
		return ctx, cancel
	case t == 0:
		return context.Background(), func() {}
	default:
		return context.WithTimeout(context.Background(), time.Duration(t)*time.Microsecond)
	}
}

// expected content of record id: body + n attributes (the first 5 inline, the
// rest in the overflow slice) all derived from the id.
func attrsFor(id, n int) []log.KeyValue {
	kvs := make([]log.KeyValue, n)
	for i := range kvs {
		kvs[i] = log.String("k"+strconv.Itoa(i), "v"+strconv.Itoa(id)+"."+strconv.Itoa(i))
	}
	return kvs
}

func expectedContent(id, n int) string {
	var sb strings.Builder
	sb.WriteString("rec:" + strconv.Itoa(id))
	for _, kv := range attrsFor(id, n) {
		sb.WriteString("|" + kv.Key + "=" + kv.Value.String())
	}
	return sb.String()
}

func runOnce(c Case) ([]vk.Violation, map[string]bool) {
	var vs []vk.Violation
	classes := map[string]bool{}
	bad := func(kind, format string, a ...any) { vs = append(vs, vk.V(kind, format, a...)) }

	clock := &vk.Clock{}
	logs := &vk.LogCapture{}
	otel.SetLogger(logr.New(logs))
	otel.SetErrorHandler(&vk.ErrCapture{})

	// assign global record ids in program order
	type slot struct{ phase, g, i int }
	ids := map[slot]int{}
	nrec := 0
	for pi, ph := range c.Phases {
		for g, ops := range ph {
			for i, op := range ops {
				if n := op.count(); n > 0 {
					ids[slot{pi, g, i}] = nrec // first id of the burst
					nrec += n
				}
			}
		}
	}
	const extra = 2 // late records after shutdown
	total := nrec + extra

	exp := &recExporter{clock: clock, script: c.Exporter}
	cfg := c.config()
	eff := cfg.effective()
	for _, k := range eff.classes {
		classes[k] = true
	}
	// the environment is read by the constructor only
	restoreEnv := cfg.applyEnv()
	bp := func() *sdklog.BatchProcessor {
		defer restoreEnv()
		return sdklog.NewBatchProcessor(exp, cfg.options()...)
	}()

	na := c.nattrs()
	// the keys a later change overwrites: the first (inline) and the last one
	// (in the overflow slice when there are more than five), plus a new key
	mutation := func() []log.KeyValue {
		m := []log.KeyValue{log.String("added", "MUTATED")}
		if na > 0 {
			m = append(m, log.String("k"+strconv.Itoa(na-1), "MUTATED"), log.String("k0", "MUTATED"))
		}
		return m
	}
	var emit func(id int, mutate bool, ctxKind int)
	var flush, shutdown func(context.Context) error
	var neighbour *sdklog.BatchProcessor
	if c.ViaProvider {
		opts := []sdklog.LoggerProviderOption{sdklog.WithAttributeCountLimit(-1), sdklog.WithAttributeValueLengthLimit(-1)}
		switch c.Neighbour {
		case 1:
			opts = append(opts, sdklog.WithProcessor(failingProcessor{}), sdklog.WithProcessor(bp))
		case 2:
			opts = append(opts, sdklog.WithProcessor(bp), sdklog.WithProcessor(failingProcessor{}))
		case 3:
			opts = append(opts, sdklog.WithProcessor(bp), sdklog.WithProcessor(rewritingProcessor{mutation}))
		case 4:
			neighbour = sdklog.NewBatchProcessor(failingExporter{}, sdklog.WithMaxQueueSize(4), sdklog.WithExportMaxBatchSize(2), sdklog.WithExportInterval(time.Millisecond))
			opts = append(opts, sdklog.WithProcessor(neighbour), sdklog.WithProcessor(bp))
		default:
			opts = append(opts, sdklog.WithProcessor(bp))
		}
		lp := sdklog.NewLoggerProvider(opts...)
		lg := lp.Logger("c06")
		emit = func(id int, mutate bool, ctxKind int) {
			var r log.Record
			r.SetBody(log.StringValue("rec:" + strconv.Itoa(id)))
			kvs := attrsFor(id, na)
			r.AddAttributes(kvs...)
			lg.Emit(emitCtx(ctxKind), r)
			if mutate {
				for i := range kvs {
					kvs[i] = log.String("mutated", "x")
				}
				r.SetBody(log.StringValue("MUTATED"))
				r.AddAttributes(mutation()...)
			}
		}
		flush, shutdown = lp.ForceFlush, lp.Shutdown
	} else {
		emit = func(id int, mutate bool, ctxKind int) {
			kvs := attrsFor(id, na)
			r := logtest.RecordFactory{
				Body: log.StringValue("rec:" + strconv.Itoa(id)), Attributes: kvs,
				AttributeCountLimit: -1, AttributeValueLengthLimit: -1,
			}.NewRecord()
			_ = bp.OnEmit(emitCtx(ctxKind), &r)
			if mutate {
				for i := range kvs {
					kvs[i] = log.String("mutated", "x")
				}
				if id%2 == 1 {
					// replace the whole attribute set
					r.SetAttributes(mutation()...)
				} else {
					// overwrite in place and append
					r.AddAttributes(mutation()...)
				}
				r.SetBody(log.StringValue("MUTATED"))
			}
		}
		flush, shutdown = bp.ForceFlush, bp.Shutdown
	}
	_ = neighbour

	emits := make([]emitRec, total)
	var cmu sync.Mutex
	var calls []*callRec
	doEmit := func(id, producer, phase int, mutate bool, ctxKind int) {
		emits[id].producer, emits[id].phase = producer, phase
		emits[id].start = clock.Tick()
		emit(id, mutate, ctxKind)
		emits[id].end = clock.Tick()
		emits[id].done = true
	}
	doCall := func(kind string, t, phase int) *callRec {
		ctx, cancel := mkCtx(t)
		defer cancel()
		r := &callRec{kind: kind, phase: phase}
		r.start = clock.Tick()
		if kind == "flush" {
			r.err = flush(ctx)
		} else {
			r.err = shutdown(ctx)
		}
		r.end = clock.Tick()
		cmu.Lock()
		calls = append(calls, r)
		cmu.Unlock()
		return r
	}

	for pi, ph := range c.Phases {
		vk.Parallel(len(ph), func(g int) {
			for i, op := range ph[g] {
				vk.Perturb(op.P)
				switch op.K {
				case "emit":
					for k, first := 0, ids[slot{pi, g, i}]; k < op.count(); k++ {
						doEmit(first+k, pi*100+g, pi, op.M, op.C)
					}
				case "flush":
					doCall("flush", op.T, pi)
				case "shutdown":
					doCall("shutdown", op.T, pi)
				case "pause":
					time.Sleep(300 * time.Microsecond)
				}
			}
		})
	}

	const never = int64(1) << 62
	firstShutdownIssue := never
	for _, r := range calls {
		if r.kind == "shutdown" && r.start < firstShutdownIssue {
			firstShutdownIssue = r.start
		}
	}
	midShutdown := firstShutdownIssue != never
	final := len(c.Phases)
	if !midShutdown {
		doCall("flush", 0, final)
	}
	lastShutdown := doCall("shutdown", 0, final)
	if firstShutdownIssue > lastShutdown.start {
		firstShutdownIssue = lastShutdown.start
	}
	doEmit(nrec, 9999, final+1, false, 0)
	doEmit(nrec+1, 9999, final+1, true, 0)
	doCall("flush", 0, final+1)

	// cleanup only: let a Shutdown whose context expired finish in the background
	for i := 0; i < 4000 && exp.shutdowns.Load() == 0; i++ {
		time.Sleep(500 * time.Microsecond)
	}
	for i := 0; i < 4000 && exp.inflight.Load() != 0; i++ {
		time.Sleep(500 * time.Microsecond)
	}

	// ---- oracle ----
	exp.mu.Lock()
	ecalls := make([]*exportCall, len(exp.calls))
	for i, call := range exp.calls {
		cp := *call
		ecalls[i] = &cp
	}
	exp.mu.Unlock()

	where := map[int]*exportCall{}
	lastSeq := map[int]int{} // producer -> last exported id (ids grow in emission order per producer)
	for ci, call := range ecalls {
		if call.exit == 0 {
			call.exit = never
		}
		if int64(len(call.items)) > eff.batchMax {
			bad("batch_too_large", "Export call %d received %d records, the configured maximum batch size is %d (%s)", ci, len(call.items), eff.batchMax, describe(cfg.Batch))
		}
		if len(call.items) == 0 {
			bad("empty_export", "Export call %d received no records", ci)
		}
		if call.err {
			classes["exporter_error_or_timeout"] = true
		}
		for _, it := range call.items {
			if it.id < 0 || it.id >= total || !emits[it.id].done {
				bad("unknown_record_exported", "Export call %d received a record the program never emitted: %q", ci, it.content)
				continue
			}
			if prev, dup := where[it.id]; dup {
				bad("exported_twice", "record %d passed to the exporter twice (calls entered at t=%d and t=%d)", it.id, prev.enter, call.enter)
			}
			where[it.id] = call
			if want := expectedContent(it.id, na); it.content != want {
				bad("content_changed", "record %d exported as %q, emitted as %q", it.id, it.content, want)
			}
			if call.enter < emits[it.id].start {
				bad("exported_before_emit", "record %d exported before it was emitted", it.id)
			}
			p := emits[it.id].producer
			if last, ok := lastSeq[p]; ok && it.id < last {
				bad("out_of_order", "goroutine %d: record %d exported after record %d although it was emitted earlier", p, it.id, last)
			}
			lastSeq[p] = it.id
		}
	}
	if n := exp.overlap.Load(); n > 0 {
		bad("concurrent_export", "Export was entered %d time(s) while another Export call was still running", n)
	}
	if n := exp.shutdowns.Load(); n > 1 {
		bad("exporter_shutdown_twice", "exporter Shutdown called %d times", n)
	}

	allShutdownsNil := true
	for _, r := range calls {
		if r.kind == "shutdown" && r.err != nil {
			allShutdownsNil = false
			classes["shutdown_returned_error"] = true
		}
	}
	shutdownPhase := int(^uint(0) >> 1)
	for _, r := range calls {
		if r.kind == "shutdown" && r.phase < shutdownPhase {
			shutdownPhase = r.phase
		}
	}
	shutdownReturned := int64(0)
	for _, r := range calls {
		if r.kind == "shutdown" && r.phase == shutdownPhase && r.end > shutdownReturned {
			shutdownReturned = r.end
		}
	}
	if allShutdownsNil {
		for ci, call := range ecalls {
			if call.enter > shutdownReturned {
				bad("export_after_shutdown", "Export call %d started (t=%d) after Shutdown had returned nil (t=%d)", ci, call.enter, shutdownReturned)
			}
		}
		if exp.shutdowns.Load() != 1 {
			bad("exporter_not_shut_down", "exporter Shutdown called %d times although every Shutdown call returned nil", exp.shutdowns.Load())
		}
	}

	// completeness
	overlapsOtherShutdown := func(r *callRec) bool {
		for _, o := range calls {
			if o != r && o.kind == "shutdown" && o.start < r.end {
				return true
			}
		}
		return false
	}
	var goodFlushes []*callRec // successful, asserted calls
	for _, r := range calls {
		if r.err != nil {
			classes[r.kind+"_returned_error"] = true
			continue
		}
		switch r.kind {
		case "flush":
			if r.end > firstShutdownIssue {
				continue
			}
		case "shutdown":
			if r.start != firstShutdownIssue || overlapsOtherShutdown(r) {
				continue
			}
		}
		goodFlushes = append(goodFlushes, r)
	}
	missing := 0
	for id := 0; id < total; id++ {
		e := emits[id]
		if !e.done || e.end >= firstShutdownIssue {
			continue
		}
		// first asserted call issued after the emit returned
		var f *callRec
		for _, r := range goodFlushes {
			if r.start > e.end && (f == nil || r.end < f.end) {
				f = r
			}
		}
		if f == nil {
			continue
		}
		call, exported := where[id]
		switch {
		case exported && call.enter < f.end:
			continue
		case exported:
			bad("not_flushed", "record %d (Emit returned t=%d) was passed to the exporter only at t=%d, after %s issued at t=%d had returned nil at t=%d", id, e.end, call.enter, f.kind, f.start, f.end)
			continue
		}
		missing++
		// never exported: must be explainable by overflow
		after := 0
		for o := 0; o < total; o++ {
			if o != id && emits[o].done && emits[o].end > e.start && emits[o].start < f.end {
				after++
			}
		}
		if int64(after) < eff.queueMin {
			bad("lost_without_overflow", "record %d (Emit t=%d..%d) was never passed to the exporter although %s (t=%d..%d) returned nil and only %d other records could have been queued after it (configured queue size %d (%s))", id, e.start, e.end, f.kind, f.start, f.end, after, eff.queueMin, describe(cfg.Queue))
		}
	}
	if missing > 0 {
		classes["overflow_overwrites_oldest"] = true
	}
	// the SDK's own drop report never exceeds what is actually missing
	var logged uint64
	for _, e := range logs.Entries() {
		if e.Msg == "dropped log records" {
			if d, ok := e.KV["dropped"].(uint64); ok {
				logged += d
			}
		}
	}
	neverExported := 0
	for id := 0; id < nrec; id++ {
		if _, ok := where[id]; emits[id].done && !ok {
			neverExported++
		}
	}
	// (the neighbour batch processor logs its own drops through the same logger)
	// Class label only, NOT asserted: the statement says nothing about the
	// accuracy of the SDK's drop report, and the report is not attributable to
	// one execution (a poll goroutine left behind by a Shutdown that ran out of
	// time logs later, through the process-wide logger, into the capture of the
	// next execution). It was asserted until the thorough tier (seed 3) raised
	// it on the unchanged tree: "logged 20 dropped, 10 never exported" over two
	// executions of one program, each with 10 overwritten records - a false
	// alarm of the check, corrected here (DESIGN 7.2).
	if int(logged) > neverExported && c.Neighbour != 4 {
		classes["drop_report_exceeds_missing(not asserted)"] = true
	}

	if len(vs) > 0 {
		// attach the observed history to the first violation (schedule-dependent
		// failures cannot be re-derived from the case alone)
		var h []string
		for id := 0; id < total; id++ {
			if emits[id].done {
				h = append(h, fmt.Sprintf("t=%d..%d emit rec %d by goroutine %d", emits[id].start, emits[id].end, id, emits[id].producer))
			}
		}
		for _, r := range calls {
			h = append(h, fmt.Sprintf("t=%d..%d %s -> %v", r.start, r.end, r.kind, r.err))
		}
		for ci, call := range ecalls {
			var ids []int
			for _, it := range call.items {
				ids = append(ids, it.id)
			}
			h = append(h, fmt.Sprintf("t=%d..%d Export#%d %v err=%v", call.enter, call.exit, ci, ids, call.err))
		}
		sort.Slice(h, func(i, j int) bool {
			var a, b int64
			fmt.Sscanf(h[i], "t=%d", &a)
			fmt.Sscanf(h[j], "t=%d", &b)
			return a < b
		})
		if len(h) > 400 {
			h = h[:400]
		}
		vs[0].Observed = h
	}

	if len(ecalls) >= 2 {
		classes["two_or_more_exports"] = true
	}
	if midShutdown {
		classes["mid_run_shutdown"] = true
	}
	for _, r := range calls {
		if r.kind == "flush" && r.phase < final {
			for _, call := range ecalls {
				if call.enter < r.start && call.exit > r.start {
					classes["flush_issued_while_export_in_progress"] = true
				}
			}
		}
	}
	for _, call := range ecalls {
		classes[fmt.Sprintf("batch_full=%v", int64(len(call.items)) == eff.batchMax)] = true
		if n := len(call.items); n > 32 {
			classes["export_of_more_than_32_records"] = true
		}
	}
	if eff.ambiguous {
		classes["queue_or_batch_has_two_readings"] = true
	}
	if d := exp.maxRemaining.Load(); d/1000 > eff.timeoutMaxUs {
		// label only: the statement has no clause on the export deadline
		classes["export_deadline_later_than_configured_timeout"] = true
	}
	if nrec > 64 {
		classes["more_than_64_records"] = true
	}
	if nrec > 1024 {
		classes["more_than_1024_records"] = true
	}
	return vs, classes
}

func run(c Case) ([]vk.Violation, vk.Info) {
	var info vk.Info
	runs := c.Runs
	if runs < 1 {
		runs = 1
	}
	all := map[string]bool{}
	var vs []vk.Violation
	for i := 0; i < runs && len(vs) == 0; i++ {
		v, cl := runOnce(c)
		vs = v
		for k := range cl {
			all[k] = true
		}
	}
	multi, flushes, overflowPhase, doneCtxEmit, burst := false, 0, false, false, false
	eff := c.config().effective()
	for _, ph := range c.Phases {
		producers, n := 0, 0
		for _, ops := range ph {
			has := false
			for _, op := range ops {
				if op.K == "emit" {
					has = true
					n += op.count()
					if op.C != 0 {
						doneCtxEmit = true
					}
					if op.N > 1 {
						burst = true
					}
				}
				if op.K == "flush" {
					flushes++
				}
			}
			if has {
				producers++
			}
		}
		if producers >= 2 {
			multi = true
		}
		if int64(n) > eff.queueMin {
			overflowPhase = true
		}
	}
	info.NonTrivial = (multi || overflowPhase || flushes > 0) && all["two_or_more_exports"]
	for k := range all {
		info.Class(k)
	}
	info.ClassIf(doneCtxEmit, "emit_with_cancelled_or_expired_context")
	info.ClassIf(c.ViaProvider, "via_logger_provider")
	info.ClassIf(c.Neighbour != 0, fmt.Sprintf("neighbour_processor=%d", c.Neighbour))
	info.ClassIf(true, fmt.Sprintf("attributes_per_record=%s", map[bool]string{true: "0-5_inline_only", false: "6+_overflow_slice"}[c.nattrs() <= 5]))
	info.ClassIf(multi, "two_or_more_producers")
	info.ClassIf(overflowPhase, "phase_emits_more_than_queue")
	info.ClassIf(c.IntervalUs < 1e6, "interval_polling_active")
	info.ClassIf(burst, "emit_burst")
	info.ClassIf(c.Cfg != nil, "config_through_generated_channels")
	return vs, info
}

func TestLogBatchProcessor(t *testing.T) {
	vk.Run(t, vk.Spec[Case]{
		Property: "C06", Check: "blp_history",
		Rule: "generated concurrent programs (1-5 barrier-separated phases of 1-6 goroutines issuing Emit (single records or bursts of up to 2*queue+2, 0-12 attributes per record, optionally changing the caller's record and the attribute slice it was built from afterwards) / ForceFlush / Shutdown / pauses with generated contexts and schedule perturbations) x BatchProcessor configurations (queue 1-160, batch 1-queue or up to 8 above it, interval 200us/1ms/5ms/1h, export timeout 2ms/1s, export buffer 1-3; in half of the cases every setting goes through a generated channel: option, OTEL_BLRP_* environment variable in a generated legal spelling, both, option given twice) x bare processor or through a LoggerProvider, there optionally next to a neighbour processor (OnEmit fails, before or after; rewrites the record, after; a second batch processor with a failing exporter) x exporter fault plans (ok/error/slow/blocks until its context expires); each program is executed twice; " +
			"non-trivial = (>= 2 producer goroutines in a phase, or a phase emitting more than the queue holds, or a ForceFlush) and >= 2 Export calls observed; distinct = distinct case encodings",
		Quick: 300, Thorough: 3000,
		Gen: gen, Run: run, Repeat: 100,
		ShrinkTime: 30 * time.Second,
	})
}

// TestLogBatchProcessorConfig: the same oracle over mostly sequential programs
// whose configuration reaches the processor through every channel (option,
// environment, both, neither, an option given twice, an option value < 1) and
// every spelling, and whose record counts straddle the configured sizes.
func TestLogBatchProcessorConfig(t *testing.T) {
	vk.Run(t, vk.Spec[Case]{
		Property: "C06", Check: "blp_config",
		Rule: "each of queue size, max batch size, interval, export timeout and export buffer is configured through a generated channel (With… option, OTEL_BLRP_* environment variable, both, neither = documented default, option given twice, option value < 1) with generated values (< 1, 1-12, 1-130, 100-2600, very large batch sizes) and, for the environment, generated spellings (plain / plus sign / zero padded decimal integers, blank, blank padded, 0x 0o 0b prefixed, underscores, fractions, exponents, unit suffixes, garbage, out of range); 1-3 segments of one or two goroutines emitting a burst whose size is placed around the sizes the configuration can be read as (size-2..size+3, 1..2*size), each followed by ForceFlush, nothing or a final Shutdown; the oracle of blp_history with the largest batch size and the smallest queue size any documented reading of the configuration allows; " +
			"non-trivial = queue or batch size configured otherwise than by one valid option, and >= 2 Export calls observed; distinct = distinct case encodings",
		Quick: 1000, Thorough: 15000,
		Gen: genConfigCase, Run: runConfig, Repeat: 3,
		ShrinkTime: 30 * time.Second,
	})
}

func runConfig(c Case) ([]vk.Violation, vk.Info) {
	vs, info := run(c)
	cfg := c.config()
	plain := func(s Setting) bool { return len(s.Opts) == 1 && s.Opts[0] >= 1 }
	two := false
	for _, k := range info.Classes {
		if k == "two_or_more_exports" {
			two = true
		}
	}
	info.NonTrivial = two && !(plain(cfg.Queue) && plain(cfg.Batch))
	return vs, info
}

// genEmitCtx draws the context an emit op hands to Emit: mostly live, sometimes
// already cancelled or past its deadline. The statement quantifies over every
// emitted record; a done context does not un-emit one (the pinned tree
// processes such records like any other).
func genEmitCtx(t *rapid.T) int {
	return rapid.SampledFrom([]int{0, 0, 0, 0, 0, 0, 1, 2}).Draw(t, "emit_ctx")
}

var (
	cancelledCtx = func() context.Context {
		ctx, cancel := context.WithCancel(context.Background())
		cancel()
		return ctx
	}()
	expiredCtx = func() context.Context {
		ctx, cancel := context.WithDeadline(context.Background(), time.Unix(1, 0))
		_ = cancel
		return ctx
	}()
)

func emitCtx(kind int) context.Context {
	switch kind {
	case 1:
		return cancelledCtx
	case 2:
		return expiredCtx
	}
	return context.Background()
}

// describe renders how a setting was configured, for violation messages.
func describe(s Setting) string {
	var parts []string
	for _, o := range s.Opts {
		parts = append(parts, fmt.Sprintf("option %d", o))
	}
	if s.EnvSet {
		parts = append(parts, fmt.Sprintf("environment %q", string(s.Env)))
	}
	if len(parts) == 0 {
		return "neither option nor environment: default"
	}
	return strings.Join(parts, ", ")
}

// failingProcessor is a neighbour whose OnEmit always fails.
type failingProcessor struct{}

func (failingProcessor) OnEmit(context.Context, *sdklog.Record) error {
	return errors.New("scripted neighbour processor failure")
}
func (failingProcessor) Shutdown(context.Context) error   { return nil }
func (failingProcessor) ForceFlush(context.Context) error { return nil }

// rewritingProcessor is a neighbour that changes the record it is handed (the
// record the processors registered before it were handed, too).
type rewritingProcessor struct{ mutation func() []log.KeyValue }

func (p rewritingProcessor) OnEmit(_ context.Context, r *sdklog.Record) error {
	r.AddAttributes(p.mutation()...)
	r.SetBody(log.StringValue("REWRITTEN"))
	return nil
}
func (rewritingProcessor) Shutdown(context.Context) error   { return nil }
func (rewritingProcessor) ForceFlush(context.Context) error { return nil }

// failingExporter is the exporter of the neighbour batch processor.
type failingExporter struct{}

func (failingExporter) Export(context.Context, []sdklog.Record) error {
	return errors.New("scripted neighbour exporter failure")
}
func (failingExporter) Shutdown(context.Context) error   { return nil }
func (failingExporter) ForceFlush(context.Context) error { return nil }
