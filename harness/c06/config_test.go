package c06

// Configuration channels of the BatchProcessor as a generated dimension.
//
// The statement quantifies over "all queue, batch, buffer, interval and
// timeout settings" and names "the configured maximum batch size" and "the
// bounded queue". A setting reaches the processor through an option, through
// an OTEL_BLRP_* environment variable, through both, or through neither
// (documented default). This file holds
//   - the data description of one configuration (Config / Setting),
//   - an implementation-independent model of which effective value(s) the
//     documentation allows for it (readings), and
//   - generators for every legal (and a number of illegal) spellings.
//
// Model, from the doc comments of the With… options of sdk/log and the
// OpenTelemetry environment variable specification:
//   - an option whose value is >= 1 wins over everything else;
//   - without an option, an environment value that is a decimal integer >= 1
//     is used (milliseconds for the two durations);
//   - otherwise the documented default is used (queue 2048, batch 512,
//     interval 1 s, timeout 30 s, buffer 1).
// Where the documentation can be read in two ways the model keeps BOTH
// readings and the oracle uses the weaker bound (largest batch bound,
// smallest queue):
//   - an option value < 1 together with an environment value ("the default
//     value is also used when the provided value is less than one" vs. "if the
//     environment variable is set and this option is not passed");
//   - an environment value that is not a decimal integer but that a lenient
//     parser could make sense of (surrounding blanks, 0x/0o/0b prefixes,
//     digit-group underscores, a fraction or exponent, a unit suffix): the
//     documented reading is "not an integer -> not applied", the lenient one
//     is tolerated;
//   - an integer that does not fit an int64 (or a millisecond count that
//     overflows a Duration).
// A decimal integer with a sign or with leading zeros ("+8", "08", "0100") is
// a decimal integer: one reading.

import (
	"math"
	"math/big"
	"os"
	"regexp"
	"strconv"
	"strings"
	"time"

	sdklog "go.opentelemetry.io/otel/sdk/log"
	"go.opentelemetry.io/otel/verif/internal/vk"
	"pgregory.net/rapid"
)

// Setting says how one setting is handed to NewBatchProcessor.
type Setting struct {
	// Opts: values handed to the With… option, one entry per call, in call
	// order (sizes as is, durations in microseconds). Empty: option not passed.
	Opts []int64 `json:"opts,omitempty"`
	// EnvSet: the environment variable is set to Env (byte for byte).
	EnvSet bool   `json:"env_set,omitempty"`
	Env    vk.Str `json:"env,omitempty"`
}

// Config is the configuration of one processor.
type Config struct {
	Queue    Setting `json:"queue"`
	Batch    Setting `json:"batch"`
	Interval Setting `json:"interval"`
	Timeout  Setting `json:"timeout"`
	Buffer   Setting `json:"buffer"`
}

// Documented names and defaults (option doc comments in sdk/log/batch.go and
// the specification's "Batch LogRecord Processor" table).
const (
	envQueue    = "OTEL_BLRP_MAX_QUEUE_SIZE"
	envBatch    = "OTEL_BLRP_MAX_EXPORT_BATCH_SIZE"
	envInterval = "OTEL_BLRP_SCHEDULE_DELAY"
	envTimeout  = "OTEL_BLRP_EXPORT_TIMEOUT"

	dfltQueue      = 2048
	dfltBatch      = 512
	dfltIntervalUs = 1_000_000
	dfltTimeoutUs  = 30_000_000
	dfltBuffer     = 1

	huge = int64(1) << 62
)

var decimalInteger = regexp.MustCompile(`^[+-]?[0-9]+$`)

// envReadings returns the effective values the documentation allows when the
// setting is taken from the environment value s (unit: what one count of the
// variable is worth in the model's unit) and a label for the class of s.
func envReadings(set bool, s string, unit, dflt int64) ([]int64, string) {
	if !set {
		return []int64{dflt}, "env_unset"
	}
	if s == "" {
		return []int64{dflt}, "env_blank"
	}
	if decimalInteger.MatchString(s) {
		b, _ := new(big.Int).SetString(s, 10)
		cls := "env_decimal"
		digits := strings.TrimLeft(s, "+-")
		if len(digits) > 1 && digits[0] == '0' {
			cls = "env_decimal_zero_padded"
		} else if s[0] == '+' {
			cls = "env_decimal_plus_sign"
		}
		if !b.IsInt64() || b.Int64() > math.MaxInt64/unit/1000 {
			return []int64{dflt, huge}, "env_out_of_range"
		}
		n := b.Int64()
		if n < 1 {
			return []int64{dflt}, "env_less_than_one"
		}
		return []int64{n * unit}, cls
	}
	// Not a decimal integer: documented as "not applied". Lenient readings
	// are tolerated, never required.
	vals := []int64{dflt}
	add := func(n int64) {
		if n >= 1 && n <= math.MaxInt64/unit/1000 {
			vals = append(vals, n*unit)
		}
	}
	t := strings.TrimSpace(s)
	if n, err := strconv.ParseInt(t, 0, 64); err == nil {
		add(n)
	}
	if n, err := strconv.ParseInt(strings.ReplaceAll(t, "_", ""), 10, 64); err == nil {
		add(n)
	}
	if f, err := strconv.ParseFloat(t, 64); err == nil && f >= 1 && f < 1e15 {
		add(int64(f))
		add(int64(math.Ceil(f)))
	}
	if d, err := time.ParseDuration(t); err == nil && d > 0 {
		// a unit suffix: as a duration, or the number in front of it
		if unit > 1 {
			vals = append(vals, int64(d/time.Microsecond))
		}
		if n, err := strconv.ParseInt(strings.TrimRight(t, "abcdefghijklmnopqrstuvwxyzµ"), 10, 64); err == nil {
			add(n)
		}
	}
	if len(vals) > 1 {
		return vals, "env_not_decimal_lenient_reading_exists"
	}
	return vals, "env_garbage"
}

// readings returns every effective value the documentation allows for s.
func (s Setting) readings(hasEnv bool, unit, dflt int64) ([]int64, []string) {
	var cls []string
	envVals, envCls := []int64{dflt}, "env_unset"
	if hasEnv {
		envVals, envCls = envReadings(s.EnvSet, string(s.Env), unit, dflt)
	}
	switch len(s.Opts) {
	case 0:
		cls = append(cls, "option_absent", envCls)
		return envVals, cls
	case 1:
	default:
		cls = append(cls, "option_given_twice")
	}
	last := s.Opts[len(s.Opts)-1]
	if last >= 1 {
		cls = append(cls, "option_valid")
		if s.EnvSet {
			cls = append(cls, "option_and_env")
		}
		return []int64{last}, cls
	}
	// option value < 1: default by the option's doc comment, or whatever the
	// environment says; an earlier valid value of the same option is tolerated
	cls = append(cls, "option_less_than_one", envCls)
	vals := append([]int64{dflt}, envVals...)
	for _, o := range s.Opts {
		if o >= 1 {
			vals = append(vals, o)
		}
	}
	return vals, cls
}

func minOf(v []int64) int64 {
	m := v[0]
	for _, x := range v {
		if x < m {
			m = x
		}
	}
	return m
}

func maxOf(v []int64) int64 {
	m := v[0]
	for _, x := range v {
		if x > m {
			m = x
		}
	}
	return m
}

// effective is what the oracle may rely on.
type effective struct {
	batchMax     int64 // no reading of the configuration allows a larger export
	queueMin     int64 // no reading of the configuration gives a smaller queue
	timeoutMaxUs int64 // label only
	ambiguous    bool
	classes      []string
}

func (c Config) effective() effective {
	var e effective
	tag := func(name string, cls []string) {
		for _, k := range cls {
			e.classes = append(e.classes, name+":"+k)
		}
	}
	q, qc := c.Queue.readings(true, 1, dfltQueue)
	b, bc := c.Batch.readings(true, 1, dfltBatch)
	_, ic := c.Interval.readings(true, 1000, dfltIntervalUs)
	to, tc := c.Timeout.readings(true, 1000, dfltTimeoutUs)
	_, uc := c.Buffer.readings(false, 1, dfltBuffer)
	tag("queue", qc)
	tag("batch", bc)
	tag("interval", ic)
	tag("timeout", tc)
	tag("buffer", uc)
	e.queueMin, e.batchMax, e.timeoutMaxUs = minOf(q), maxOf(b), maxOf(to)
	e.ambiguous = len(q) > 1 || len(b) > 1
	return e
}

func (c Config) options() []sdklog.BatchProcessorOption {
	var o []sdklog.BatchProcessorOption
	for _, v := range c.Queue.Opts {
		o = append(o, sdklog.WithMaxQueueSize(int(v)))
	}
	for _, v := range c.Batch.Opts {
		o = append(o, sdklog.WithExportMaxBatchSize(int(v)))
	}
	for _, v := range c.Interval.Opts {
		o = append(o, sdklog.WithExportInterval(time.Duration(v)*time.Microsecond))
	}
	for _, v := range c.Timeout.Opts {
		o = append(o, sdklog.WithExportTimeout(time.Duration(v)*time.Microsecond))
	}
	for _, v := range c.Buffer.Opts {
		o = append(o, sdklog.WithExportBufferSize(int(v)))
	}
	return o
}

// applyEnv puts the environment in the state the configuration describes and
// returns the function that restores what was there before.
func (c Config) applyEnv() (restore func()) {
	type saved struct {
		key, val string
		was      bool
	}
	var old []saved
	for _, kv := range []struct {
		key string
		s   Setting
	}{{envQueue, c.Queue}, {envBatch, c.Batch}, {envInterval, c.Interval}, {envTimeout, c.Timeout}} {
		v, was := os.LookupEnv(kv.key)
		old = append(old, saved{kv.key, v, was})
		if kv.s.EnvSet {
			_ = os.Setenv(kv.key, string(kv.s.Env))
		} else {
			_ = os.Unsetenv(kv.key)
		}
	}
	return func() {
		for _, o := range old {
			if o.was {
				_ = os.Setenv(o.key, o.val)
			} else {
				_ = os.Unsetenv(o.key)
			}
		}
	}
}

// ---------------------------------------------------------------------
// generators

// genDecimal draws a legal spelling of the decimal integer n: as printed, with
// an explicit plus sign, zero padded, or both.
func genDecimal(t *rapid.T, n int64) string {
	sign, digits := "", strconv.FormatInt(n, 10)
	if n < 0 {
		sign, digits = "-", digits[1:]
	}
	switch rapid.IntRange(0, 5).Draw(t, "spelling") {
	case 0, 1:
	case 2:
		if n >= 0 {
			sign = "+"
		}
	case 3, 4:
		digits = strings.Repeat("0", rapid.IntRange(1, 4).Draw(t, "zeros")) + digits
	case 5:
		if n >= 0 {
			sign = "+"
		}
		digits = strings.Repeat("0", rapid.IntRange(1, 3).Draw(t, "zeros")) + digits
	}
	return sign + digits
}

// genNonDecimal draws a value that is not a decimal integer: spellings of n a
// lenient parser would accept, and garbage.
func genNonDecimal(t *rapid.T, n int64) string {
	if n < 0 {
		n = -n
	}
	dec := strconv.FormatInt(n, 10)
	switch rapid.IntRange(0, 13).Draw(t, "nondecimal") {
	case 0:
		return " " + dec
	case 1:
		return dec + rapid.SampledFrom([]string{" ", "\n", "\t", "\r\n"}).Draw(t, "ws")
	case 2:
		return "0x" + strconv.FormatInt(n, 16)
	case 3:
		return "0X" + strings.ToUpper(strconv.FormatInt(n, 16))
	case 4:
		return "0o" + strconv.FormatInt(n, 8)
	case 5:
		return "0b" + strconv.FormatInt(n, 2)
	case 6:
		if len(dec) > 3 {
			return dec[:len(dec)-3] + "_" + dec[len(dec)-3:]
		}
		return dec + "_0"
	case 7:
		return dec + ".0"
	case 8:
		return dec + "e0"
	case 9:
		return dec + rapid.SampledFrom([]string{"ms", "s", "k", "ns"}).Draw(t, "suffix")
	case 10:
		return rapid.SampledFrom([]string{"-", "+", "0x", "abc", "true", "NaN", "٣", "1 2", "--1", "1-"}).Draw(t, "garbage")
	case 11:
		return dec + "99999999999999999999" // does not fit 64 bits
	case 12:
		return strconv.FormatFloat(float64(n)+0.5, 'f', -1, 64)
	default:
		return "'" + dec + "'"
	}
}

// genExact draws a way to configure the value v (>= 1) that has exactly one
// reading. ms: the environment counts milliseconds and v is in microseconds.
func genExact(t *rapid.T, v int64, hasEnv, ms bool) Setting {
	envOK := hasEnv && (!ms || v%1000 == 0)
	envN := v
	if ms {
		envN = v / 1000
	}
	other := func(label string) int64 { // some other valid value
		o := rapid.Int64Range(1, 40).Draw(t, label)
		if ms {
			o *= 1000
		}
		return o
	}
	mode := rapid.IntRange(0, 6).Draw(t, "source")
	if !envOK && (mode == 1 || mode == 2 || mode == 3) {
		mode = 0
	}
	switch mode {
	case 1, 2: // environment only
		return Setting{EnvSet: true, Env: vk.Str(genDecimal(t, envN))}
	case 3: // both: the option wins
		o := other("env_other")
		if ms {
			o /= 1000
		}
		return Setting{Opts: []int64{v}, EnvSet: true, Env: vk.Str(genDecimal(t, o))}
	case 4: // option given twice: the last one counts
		return Setting{Opts: []int64{other("opt_other"), v}}
	default:
		return Setting{Opts: []int64{v}}
	}
}

// genAny draws any way to configure a setting around the value n (which may
// be < 1): every source combination and every spelling class.
func genAny(t *rapid.T, n int64, hasEnv, ms bool) Setting {
	optV := n
	if ms {
		optV = n * 1000
	}
	var s Setting
	mode := rapid.SampledFrom([]int{0, 0, 1, 2, 3, 4, 5, 2, 3, 4, 5, 6, 6, 7, 8, 9}).Draw(t, "source")
	if !hasEnv {
		mode = []int{0, 0, 0, 0, 0, 0, 1, 8, 9, 0}[mode]
	}
	env := func(n int64) {
		s.EnvSet = true
		switch rapid.IntRange(0, 9).Draw(t, "env_class") {
		case 0, 1, 2, 3, 4, 5:
			s.Env = vk.Str(genDecimal(t, n))
		case 6:
			s.Env = ""
		default:
			s.Env = vk.Str(genNonDecimal(t, n))
		}
	}
	switch mode {
	case 0: // option only
		s.Opts = []int64{optV}
	case 1: // nothing: default
	case 2, 3, 4, 5: // environment only
		env(n)
	case 6: // both
		s.Opts = []int64{optV}
		env(rapid.Int64Range(-2, 3000).Draw(t, "env_other"))
	case 7: // an option value < 1 and the environment
		s.Opts = []int64{rapid.Int64Range(-2, 0).Draw(t, "opt_invalid")}
		env(n)
	case 8: // option twice
		s.Opts = []int64{rapid.Int64Range(-2, 3000).Draw(t, "opt_first"), optV}
	case 9: // an option value < 1 alone
		s.Opts = []int64{rapid.Int64Range(-2, 0).Draw(t, "opt_invalid")}
	}
	return s
}

func optOnly(v int64) Setting { return Setting{Opts: []int64{v}} }

// genSize draws a queue / batch size "around" the interesting magnitudes,
// values < 1 included.
func genSize(t *rapid.T, label string) int64 {
	switch rapid.IntRange(0, 11).Draw(t, label+"_magnitude") {
	case 0:
		return rapid.Int64Range(-2, 0).Draw(t, label)
	case 1, 2, 3, 4:
		return rapid.Int64Range(1, 12).Draw(t, label)
	case 5, 6, 7, 8:
		return rapid.Int64Range(1, 130).Draw(t, label)
	case 9, 10:
		return rapid.Int64Range(100, 1100).Draw(t, label)
	default:
		return rapid.Int64Range(1000, 2600).Draw(t, label)
	}
}

// genConfigCase draws a mostly sequential program whose record counts are
// placed around the sizes the configuration can be read as, under any
// configuration channel and spelling.
func genConfigCase(t *rapid.T) Case {
	c := Case{Runs: 1}
	qn, bn := genSize(t, "queue"), genSize(t, "batch")
	if rapid.IntRange(0, 15).Draw(t, "batch_very_large") == 0 {
		bn = rapid.SampledFrom([]int64{1 << 16, 100000, 1 << 20}).Draw(t, "batch_large")
	}
	in := rapid.SampledFrom([]int64{-1, 0, 1, 2, 5, 1000, 3600000, 3600000, 3600000, 3600000}).Draw(t, "interval_ms")
	tn := rapid.SampledFrom([]int64{-1, 0, 2, 50, 1000, 1000, 30000, 30000}).Draw(t, "timeout_ms")
	un := rapid.Int64Range(-1, 4).Draw(t, "buffer")
	cfg := Config{
		Queue:    genAny(t, qn, true, false),
		Batch:    genAny(t, bn, true, false),
		Interval: genAny(t, in, true, true),
		Timeout:  genAny(t, tn, true, true),
		Buffer:   genAny(t, un, false, false),
	}
	c.Cfg = &cfg
	c.ViaProvider = rapid.IntRange(0, 3).Draw(t, "via_provider") == 0
	c.AttrN = rapid.SampledFrom([]int{0, 0, 0, 1, 3, 6, 9}).Draw(t, "attr_n")
	eff := cfg.effective()
	c.Queue, c.Batch = int(eff.queueMin), int(min(eff.batchMax, 1<<31-1))
	c.IntervalUs, c.ExportTimeoutUs, c.Buffer = in*1000, tn*1000, int(un)

	// record counts around every size in sight
	q, _ := cfg.Queue.readings(true, 1, dfltQueue)
	b, _ := cfg.Batch.readings(true, 1, dfltBatch)
	var pivots, bigPivots []int64
	for _, v := range append(append([]int64{qn, bn}, q...), b...) {
		switch {
		case v >= 1 && v <= 300:
			pivots = append(pivots, v)
		case v > 300 && v <= 2600:
			bigPivots = append(bigPivots, v)
		}
	}
	if len(pivots) == 0 {
		pivots = []int64{8, 40}
	}
	const maxRecords = 2700
	left := maxRecords
	nseg := rapid.IntRange(1, 3).Draw(t, "segments")
	shut := false
	for sgm := 0; sgm < nseg && left > 0 && !shut; sgm++ {
		pv := rapid.SampledFrom(pivots).Draw(t, "pivot")
		if len(bigPivots) > 0 && rapid.IntRange(0, 6).Draw(t, "big") == 0 {
			// costly, hence rare: the documented defaults (2048, 512) and
			// configured sizes of that magnitude
			pv = rapid.SampledFrom(bigPivots).Draw(t, "big_pivot")
		}
		var n int64
		switch rapid.IntRange(0, 3).Draw(t, "count_kind") {
		case 0:
			n = pv + rapid.Int64Range(-2, 3).Draw(t, "delta")
		case 1:
			n = rapid.Int64Range(1, 2*pv).Draw(t, "n")
		case 2:
			n = rapid.Int64Range(pv, 2*pv+1).Draw(t, "n")
		default:
			n = rapid.Int64Range(1, pv).Draw(t, "n")
		}
		n = max(1, min(n, int64(left)))
		left -= int(n)
		ng := 1
		if rapid.IntRange(0, 4).Draw(t, "two_producers") == 0 && n >= 2 {
			ng = 2
		}
		var phase [][]Op
		for g := 0; g < ng; g++ {
			k := int(n) / ng
			if g == 0 {
				k = int(n) - k*(ng-1)
			}
			phase = append(phase, []Op{{K: "emit", N: k, M: rapid.Bool().Draw(t, "m"), C: genEmitCtx(t)}})
		}
		switch rapid.IntRange(0, 5).Draw(t, "then") {
		case 0: // nothing: the next segment piles up on this one
		case 1:
			if sgm == nseg-1 {
				phase[0] = append(phase[0], Op{K: "shutdown"})
				shut = true
				break
			}
			fallthrough
		default:
			phase[0] = append(phase[0], Op{K: "flush"})
		}
		c.Phases = append(c.Phases, phase)
	}
	if rapid.IntRange(0, 3).Draw(t, "exporter_faults") == 0 {
		c.Exporter = rapid.SliceOfN(rapid.SampledFrom([]int{0, 0, 0, 1, 2}), 0, 12).Draw(t, "exporter")
	}
	return c
}
