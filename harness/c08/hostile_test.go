package c08

import (
	"context"
	"math"
	"runtime"
	"sync"
	"sync/atomic"

	"go.opentelemetry.io/otel/attribute"
	"go.opentelemetry.io/otel/sdk/instrumentation"
	"go.opentelemetry.io/otel/sdk/metric/metricdata"
	"go.opentelemetry.io/otel/verif/internal/vk"
)

// ---------------------------------------------------------------------
// the consumer of collected data
//
// What Collect leaves in the ResourceMetrics belongs to the caller: an export
// stage converts units, sorts, rounds, clears after sending - in place. A
// collect step therefore says, per reader, which kinds of slices reachable
// from the output its consumer writes over AFTER having read it (the snapshot
// the oracle works on is taken first). No element is added or removed: only
// memory the consumer was handed is written. The measurement history goes on
// afterwards; every clause of the statement keeps applying to the later
// collections of both readers ("for all finite histories interleaving
// measurements ... and collections": what the caller does with its own copy
// of the data is not part of the history of the instruments).

const (
	scrBounds  = 1 << iota // HistogramDataPoint.Bounds
	scrCounts              // HistogramDataPoint.BucketCounts, ExponentialBucket.Counts
	scrPoints              // elements of every DataPoints slice
	scrMetrics             // elements of ScopeMetrics[i].Metrics
	scrScopes              // elements of ResourceMetrics.ScopeMetrics
	scrAll     = scrBounds | scrCounts | scrPoints | scrMetrics | scrScopes
)

var scribbledSet = attribute.NewSet(attribute.String("scribbled", "by the consumer"))

// scribbleF writes over a float64 slice in place. style 0: unit conversion
// (divide by 1000), 1: zero ("clear after export"), 2: negate and reverse
// (still sorted), 3: NaN.
func scribbleF(s []float64, style int) {
	switch style & 3 {
	case 0:
		for i := range s {
			s[i] = s[i]/1000 - 1
		}
	case 1:
		clear(s)
	case 2:
		for i, j := 0, len(s)-1; i <= j; i, j = i+1, j-1 {
			s[i], s[j] = -s[j]-1, -s[i]-1
		}
	default:
		for i := range s {
			s[i] = math.NaN()
		}
	}
}

// scribbleU writes over a count slice in place. style 0: add, 1: zero,
// 2: reverse and add one, 3: all ones.
func scribbleU(s []uint64, style int) {
	switch style & 3 {
	case 0:
		for i := range s {
			s[i] += 1000 + uint64(i)
		}
	case 1:
		clear(s)
	case 2:
		for i, j := 0, len(s)-1; i <= j; i, j = i+1, j-1 {
			s[i], s[j] = s[j]+1, s[i]+1
		}
	default:
		for i := range s {
			s[i] = math.MaxUint64
		}
	}
}

func scribbleNum[N int64 | float64](dps []metricdata.DataPoint[N], mask, style int) (reached int) {
	if mask&scrPoints != 0 && len(dps) > 0 {
		reached |= scrPoints
		for i := range dps {
			if style&1 == 1 {
				dps[i] = metricdata.DataPoint[N]{}
			} else {
				dps[i].Attributes = scribbledSet
				dps[i].Value = dps[i].Value*2 + 7
				dps[i].StartTime, dps[i].Time = dps[i].Time, dps[i].StartTime
			}
		}
	}
	return reached
}

func scribbleHist[N int64 | float64](dps []metricdata.HistogramDataPoint[N], mask, style int) (reached int) {
	for i := range dps {
		if mask&scrBounds != 0 && len(dps[i].Bounds) > 0 {
			reached |= scrBounds
			// all points of one collection may share one bounds slice: write once
			if i == 0 || len(dps[i-1].Bounds) == 0 || &dps[i].Bounds[0] != &dps[i-1].Bounds[0] {
				scribbleF(dps[i].Bounds, style)
			}
		}
		if mask&scrCounts != 0 && len(dps[i].BucketCounts) > 0 {
			reached |= scrCounts
			scribbleU(dps[i].BucketCounts, style)
		}
	}
	if mask&scrPoints != 0 && len(dps) > 0 {
		reached |= scrPoints
		for i := range dps {
			if style&1 == 1 {
				dps[i] = metricdata.HistogramDataPoint[N]{}
			} else {
				dps[i].Attributes = scribbledSet
				dps[i].Count += 1000
				dps[i].Sum = dps[i].Sum*2 + 7
				dps[i].Min, dps[i].Max = metricdata.NewExtrema(N(-7)), metricdata.Extrema[N]{}
				dps[i].StartTime, dps[i].Time = dps[i].Time, dps[i].StartTime
			}
		}
	}
	return reached
}

func scribbleExpo[N int64 | float64](dps []metricdata.ExponentialHistogramDataPoint[N], mask, style int) (reached int) {
	for i := range dps {
		if mask&scrCounts != 0 && len(dps[i].PositiveBucket.Counts)+len(dps[i].NegativeBucket.Counts) > 0 {
			reached |= scrCounts
			scribbleU(dps[i].PositiveBucket.Counts, style)
			scribbleU(dps[i].NegativeBucket.Counts, style)
		}
	}
	if mask&scrPoints != 0 && len(dps) > 0 {
		reached |= scrPoints
		for i := range dps {
			if style&1 == 1 {
				dps[i] = metricdata.ExponentialHistogramDataPoint[N]{}
			} else {
				dps[i].Attributes = scribbledSet
				dps[i].Count += 1000
				dps[i].ZeroCount += 1000
				dps[i].Scale -= 3
				dps[i].PositiveBucket.Offset += 5
				dps[i].NegativeBucket.Offset -= 5
				dps[i].Sum = dps[i].Sum*2 + 7
				dps[i].StartTime, dps[i].Time = dps[i].Time, dps[i].StartTime
			}
		}
	}
	return reached
}

// scribble is the consumer writing over the kinds of slices named by mask that
// are reachable from rm (inner slices first, so that every kind asked for is
// written before the element that holds it is); it returns the kinds it
// actually found something of. Exemplar slices are always empty here (no
// sampled span context is ever recorded with) and attribute sets / resources /
// strings are immutable values.
func scribble(rm *metricdata.ResourceMetrics, mask, style int) (reached int) {
	mask &= scrAll
	if rm == nil || mask == 0 {
		return 0
	}
	for si := range rm.ScopeMetrics {
		ms := rm.ScopeMetrics[si].Metrics
		for mi := range ms {
			switch d := ms[mi].Data.(type) {
			case metricdata.Sum[int64]:
				reached |= scribbleNum(d.DataPoints, mask, style)
			case metricdata.Sum[float64]:
				reached |= scribbleNum(d.DataPoints, mask, style)
			case metricdata.Gauge[int64]:
				reached |= scribbleNum(d.DataPoints, mask, style)
			case metricdata.Gauge[float64]:
				reached |= scribbleNum(d.DataPoints, mask, style)
			case metricdata.Histogram[int64]:
				reached |= scribbleHist(d.DataPoints, mask, style)
			case metricdata.Histogram[float64]:
				reached |= scribbleHist(d.DataPoints, mask, style)
			case metricdata.ExponentialHistogram[int64]:
				reached |= scribbleExpo(d.DataPoints, mask, style)
			case metricdata.ExponentialHistogram[float64]:
				reached |= scribbleExpo(d.DataPoints, mask, style)
			}
		}
		if mask&scrMetrics != 0 && len(ms) > 0 {
			reached |= scrMetrics
			for mi := range ms {
				switch {
				case style&1 == 1:
					ms[mi] = metricdata.Metrics{}
				case style&2 == 2:
					// another aggregation type in the slot
					ms[mi] = metricdata.Metrics{Name: "scribbled", Data: metricdata.Gauge[float64]{DataPoints: []metricdata.DataPoint[float64]{{Attributes: scribbledSet, Value: 7}}}}
				default:
					ms[mi].Name, ms[mi].Unit, ms[mi].Description = "scribbled", "scribbled", "scribbled"
				}
			}
		}
	}
	if mask&scrScopes != 0 && len(rm.ScopeMetrics) > 0 {
		reached |= scrScopes
		for si := range rm.ScopeMetrics {
			if style&1 == 1 {
				rm.ScopeMetrics[si] = metricdata.ScopeMetrics{}
			} else {
				rm.ScopeMetrics[si].Scope = instrumentation.Scope{Name: "scribbled", Version: "0", Attributes: scribbledSet}
			}
		}
	}
	return reached
}

// ---------------------------------------------------------------------
// concurrent records

// Rec is one measurement of a concurrent-record step.
type Rec struct {
	Inst int    `json:"inst"`
	Set  int    `json:"set"`
	V    vk.F64 `json:"v"`
	I    int64  `json:"i,omitempty"`
	Sp   int    `json:"sp,omitempty"`
}

const (
	maxVolley     = 8  // goroutines of a concurrent-record step
	maxVolleyRecs = 12 // measurements per goroutine
)

// volley runs fn(0..n-1) in n goroutines that are released together: each
// reports in and then spins on one flag (yielding now and then, so that it
// works with any GOMAXPROCS and on a busy machine), which is a much tighter
// start than waking n goroutines parked on a channel. It returns when all are
// done.
func volley(n int, fn func(g int)) {
	var ready atomic.Int32
	var start atomic.Bool
	var wg sync.WaitGroup
	for g := 0; g < n; g++ {
		wg.Add(1)
		go func(g int) {
			defer wg.Done()
			ready.Add(1)
			for spin := 0; !start.Load(); spin++ {
				if spin&63 == 63 {
					runtime.Gosched()
				}
			}
			fn(g)
		}(g)
	}
	for int(ready.Load()) < n {
		runtime.Gosched()
	}
	start.Store(true)
	wg.Wait()
}

// concurrentRecords executes a "crec" step: goroutine g makes the measurements
// op.G[g] in order; all goroutines are released together and joined before
// the history goes on. Sums, counts and buckets do not depend on the order in
// which the measurements land (int64 arithmetic wraps, the float64 values are
// exactly summable), so the model of the cycle is the multiset of all of them;
// for a gauge "the last value recorded" is the last record of one of the
// goroutines that recorded to the stream.
//
// extra (an "rcol" step: records during collection) are further goroutines
// released at the same moment - the two readers' Collect calls. A measurement
// of such a step lands before or after either collection; the streams it
// touches are marked as racing for the cycle.
func (w *world) concurrentRecords(ctx context.Context, op Op, extra ...func()) {
	racing := len(extra) > 0
	gs := op.G
	if len(gs) > maxVolley {
		gs = gs[:maxVolley]
	}
	calls := make([][]func(), len(gs))
	type stream = [2]int
	lastOf := make([]map[stream]num, len(gs)) // per goroutine: its last record per stream
	var order []stream                        // streams in order of first appearance (deterministic)
	seen := map[stream]bool{}
	var model []struct {
		st stream
		v  num
	}
	for g, recs := range gs {
		if len(recs) > maxVolleyRecs {
			recs = recs[:maxVolleyRecs]
		}
		lastOf[g] = map[stream]num{}
		for _, r := range recs {
			if r.Inst < 0 || r.Inst >= len(w.sdefs) || !w.validSet(r.Set) {
				continue
			}
			if w.createdAt[r.Inst] < 0 {
				w.createSync(r.Inst) // instruments are created before the goroutines start
			}
			d := w.sdefs[r.Inst]
			if racing && d.kind == kExpo && !safeExpo(modelValue(r.V, r.I, d.float).float()) {
				continue // the cycle such a value lands in is not known (never generated)
			}
			if d.float {
				calls[g] = append(calls[g], w.fPrep[r.Inst](ctx, float64(r.V), r.Set, r.Sp))
			} else {
				calls[g] = append(calls[g], w.iPrep[r.Inst](ctx, intValue(r.V, r.I), r.Set, r.Sp))
			}
			st, v := stream{r.Inst, r.Set}, modelValue(r.V, r.I, d.float)
			lastOf[g][st] = v
			if !seen[st] {
				seen[st] = true
				order = append(order, st)
			}
			model = append(model, struct {
				st stream
				v  num
			}{st, v})
		}
	}
	if len(model) == 0 && !racing {
		return
	}
	volley(len(calls)+len(extra), func(g int) {
		if g >= len(calls) {
			extra[g-len(calls)]()
			return
		}
		for _, f := range calls[g] {
			f()
		}
	})
	if racing {
		for _, st := range order {
			w.racing[st[0]][st[1]] = true
		}
	}
	for _, st := range order {
		var cands []num
		for g := range gs {
			if v, ok := lastOf[g][st]; ok {
				cands = append(cands, v)
			}
		}
		i, set := st[0], st[1]
		if len(cands) > w.volley[i][set] {
			if len(w.pending[i][set]) == 0 {
				w.volleyFirst[i][set] = len(cands) >= 2
			}
			w.volley[i][set] = len(cands)
		}
		if len(cands) >= 2 && !w.everRec[st] {
			w.firstEver = true
		}
		w.gaugeLast[i][set] = cands
	}
	for _, m := range model {
		w.pending[m.st[0]][m.st[1]] = append(w.pending[m.st[0]][m.st[1]], m.v)
		w.everRec[m.st] = true
	}
}

// lastCandidates: the values one of which a gauge reports for the cycle.
func (cy *cycle) lastCandidates(i, set int) []num {
	if cy.GaugeLast != nil {
		if c := cy.GaugeLast[i][set]; len(c) > 0 {
			return c
		}
	}
	vals := cy.Recorded[i][set]
	return vals[len(vals)-1:]
}

// racing: the stream was measured while this cycle's collections were running.
func (cy *cycle) racing(i, set int) bool { return cy.Racing != nil && cy.Racing[i][set] }
