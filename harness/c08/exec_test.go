package c08

import (
	"context"
	"fmt"
	"time"

	"go.opentelemetry.io/otel/attribute"
	"go.opentelemetry.io/otel/metric"
	sdkmetric "go.opentelemetry.io/otel/sdk/metric"
	"go.opentelemetry.io/otel/sdk/metric/metricdata"
	"go.opentelemetry.io/otel/sdk/resource"
)

// setPool is the fixed pool of attribute sets; a case uses a prefix of it.
var setPool = [maxSets][]attribute.KeyValue{
	{},
	{attribute.String("k", "a")},
	{attribute.String("k", "b")},
	{attribute.String("k", "a"), attribute.Int("n", 1)},
	{attribute.Int("n", 1)},
}

var setIndex = func() map[attribute.Distinct]int {
	m := map[attribute.Distinct]int{}
	for i, kvs := range setPool {
		s := attribute.NewSet(kvs...)
		m[s.Equivalent()] = i
	}
	return m
}()

// ---------------------------------------------------------------------
// snapshots of collected data (deep copies, number type erased)

type point struct {
	Start, Time time.Time
	Val         float64 // sum / gauge
	// histograms
	Count          uint64
	Sum            float64
	HasMin, HasMax bool
	Min, Max       float64
	Bounds         []float64
	Buckets        []uint64
	// exponential histograms
	Scale     int32
	Zero      uint64
	ZeroThr   float64
	PosOff    int32
	Pos       []uint64
	NegOff    int32
	Neg       []uint64
	Exemplars int
}

type series struct {
	Type        string // sum | gauge | hist | expo
	Float       bool   // number type of the data
	Temporality metricdata.Temporality
	Pts         map[int]*point // by pool index of the attribute set
}

type snap struct {
	Series   map[string]*series // by instrument (stream) name
	Problems []string           // structural problems: kind\x00message
	Slot     map[string][2]int  // where the metric sat in the output: scope index, metric index
}

func (s *snap) problem(kind, format string, a ...any) {
	s.Problems = append(s.Problems, kind+"\x00"+fmt.Sprintf(format, a...))
}

func (s *snap) add(name, typ string, temp metricdata.Temporality, float ...bool) *series {
	if _, dup := s.Series[name]; dup {
		s.problem("duplicate_metric", "metric %q appears twice in one collection", name)
	}
	se := &series{Type: typ, Temporality: temp, Pts: map[int]*point{}, Float: len(float) > 0 && float[0]}
	s.Series[name] = se
	return se
}

func (s *snap) put(name string, se *series, attrs attribute.Set, p *point) {
	idx, ok := setIndex[attrs.Equivalent()]
	if !ok {
		s.problem("unknown_attribute_set", "metric %q reports attribute set %s that was never used", name, attrs.Encoded(attribute.DefaultEncoder()))
		return
	}
	if _, dup := se.Pts[idx]; dup {
		s.problem("duplicate_stream", "metric %q reports attribute set #%d twice in one collection", name, idx)
		return
	}
	se.Pts[idx] = p
}

func numPoints[N int64 | float64](s *snap, name string, se *series, dps []metricdata.DataPoint[N]) {
	for _, dp := range dps {
		s.put(name, se, dp.Attributes, &point{Start: dp.StartTime, Time: dp.Time, Val: float64(dp.Value), Exemplars: len(dp.Exemplars)})
	}
}

func histPoints[N int64 | float64](s *snap, name string, se *series, dps []metricdata.HistogramDataPoint[N]) {
	for _, dp := range dps {
		p := &point{Start: dp.StartTime, Time: dp.Time, Count: dp.Count, Sum: float64(dp.Sum),
			Bounds: append([]float64{}, dp.Bounds...), Buckets: append([]uint64{}, dp.BucketCounts...), Exemplars: len(dp.Exemplars)}
		if v, ok := dp.Min.Value(); ok {
			p.HasMin, p.Min = true, float64(v)
		}
		if v, ok := dp.Max.Value(); ok {
			p.HasMax, p.Max = true, float64(v)
		}
		if len(dp.BucketCounts) != len(dp.Bounds)+1 {
			// "per-bucket counts" presupposes one count per bucket of the point's own bounds.
			s.problem("histogram_buckets_vs_bounds", "metric %q: %d bucket counts %v for %d bounds %v", name, len(dp.BucketCounts), dp.BucketCounts, len(dp.Bounds), dp.Bounds)
		}
		s.put(name, se, dp.Attributes, p)
	}
}

func expoPoints[N int64 | float64](s *snap, name string, se *series, dps []metricdata.ExponentialHistogramDataPoint[N]) {
	for _, dp := range dps {
		p := &point{Start: dp.StartTime, Time: dp.Time, Count: dp.Count, Sum: float64(dp.Sum),
			Scale: dp.Scale, Zero: dp.ZeroCount, ZeroThr: dp.ZeroThreshold,
			PosOff: dp.PositiveBucket.Offset, Pos: append([]uint64{}, dp.PositiveBucket.Counts...),
			NegOff: dp.NegativeBucket.Offset, Neg: append([]uint64{}, dp.NegativeBucket.Counts...), Exemplars: len(dp.Exemplars)}
		if v, ok := dp.Min.Value(); ok {
			p.HasMin, p.Min = true, float64(v)
		}
		if v, ok := dp.Max.Value(); ok {
			p.HasMax, p.Max = true, float64(v)
		}
		s.put(name, se, dp.Attributes, p)
	}
}

func takeSnap(rm *metricdata.ResourceMetrics) *snap {
	s := &snap{Series: map[string]*series{}, Slot: map[string][2]int{}}
	for si, sm := range rm.ScopeMetrics {
		for mi, m := range sm.Metrics {
			s.Slot[m.Name] = [2]int{si, mi}
			switch d := m.Data.(type) {
			case metricdata.Sum[int64]:
				numPoints(s, m.Name, s.add(m.Name, "sum", d.Temporality), d.DataPoints)
			case metricdata.Sum[float64]:
				numPoints(s, m.Name, s.add(m.Name, "sum", d.Temporality), d.DataPoints)
			case metricdata.Gauge[int64]:
				numPoints(s, m.Name, s.add(m.Name, "gauge", 0), d.DataPoints)
			case metricdata.Gauge[float64]:
				numPoints(s, m.Name, s.add(m.Name, "gauge", 0), d.DataPoints)
			case metricdata.Histogram[int64]:
				histPoints(s, m.Name, s.add(m.Name, "hist", d.Temporality, false), d.DataPoints)
			case metricdata.Histogram[float64]:
				histPoints(s, m.Name, s.add(m.Name, "hist", d.Temporality, true), d.DataPoints)
			case metricdata.ExponentialHistogram[int64]:
				expoPoints(s, m.Name, s.add(m.Name, "expo", d.Temporality), d.DataPoints)
			case metricdata.ExponentialHistogram[float64]:
				expoPoints(s, m.Name, s.add(m.Name, "expo", d.Temporality), d.DataPoints)
			default:
				s.problem("unexpected_data_type", "metric %q has data of type %T", m.Name, m.Data)
			}
		}
	}
	return s
}

// ---------------------------------------------------------------------
// executing a history

type bracket struct{ Before, After time.Time }

// cycle is everything known about one collectBoth step.
type cycle struct {
	// model
	Observed  []map[int]float64   // per observable instrument: set -> value its callbacks observe
	Recorded  []map[int][]float64 // per sync instrument: set -> values recorded since the previous collectBoth
	RanMulti  []bool              // multi callback slot registered (hence run) in this cycle
	StrayObs  bool                // some callback observed an instrument it is not registered for
	DeltaBr   bracket
	CumBr     bracket
	Delta     *snap
	Cum       *snap
	DeltaErr  error
	CumErr    error
	deltaRM   *metricdata.ResourceMetrics // retained outputs (only when a fresh ResourceMetrics was used)
	cumRM     *metricdata.ResourceMetrics
	DeltaRMIs string // fresh | own | pool<k>
	CumRMIs   string
	Handover  bool  // a reader was given a ResourceMetrics last filled by the other reader
	DeltaLate *snap // the retained outputs read again at the end of the history
	CumLate   *snap
}

type world struct {
	c          Case
	plan       [][]Obs // current observation plan per observable instrument
	registered []bool
	regs       []metric.Registration
	regErrs    []string

	iSync []func(context.Context, int64, attribute.Set)
	fSync []func(context.Context, float64, attribute.Set)
	iObs  []metric.Int64Observable
	fObs  []metric.Float64Observable

	mp        *sdkmetric.MeterProvider
	meters    [2]metric.Meter // obtained at first use
	meter     metric.Meter    // scope 0; observables and callbacks live here
	syncBr    []bracket       // creation bracket of each sync instrument
	createdAt []int           // number of collections that preceded its creation (-1: not created)
	obsBr     bracket         // creation bracket of the observable instruments
	scopeAt   [2]int          // number of collections that preceded the first instrument of the scope (-1: none yet)
	cycles    []*cycle
	pending   []map[int][]float64 // records of the running cycle
}

func (w *world) validSet(s int) bool { return s >= 0 && s < w.c.NSets && s < maxSets }

// modelValue is the value the instrument actually receives for v.
func modelValue(v float64, float bool) float64 {
	if float {
		return v
	}
	return float64(int64(v))
}

// sanitizePlan keeps the first entry per attribute set and drops entries
// that name no valid set (the generator never produces either).
func (w *world) sanitizePlan(in []Obs) []Obs {
	seen := map[int]bool{}
	var out []Obs
	for _, e := range in {
		if !w.validSet(e.Set) || seen[e.Set] || e.Via < 0 {
			continue
		}
		seen[e.Set] = true
		out = append(out, e)
	}
	return out
}

func (w *world) instCallbackI(i int) metric.Int64Callback {
	return func(_ context.Context, o metric.Int64Observer) error {
		for _, e := range w.plan[i] {
			if e.Via == 0 {
				o.Observe(int64(float64(e.V)), metric.WithAttributes(setPool[e.Set]...))
			}
		}
		return nil
	}
}

func (w *world) instCallbackF(i int) metric.Float64Callback {
	return func(_ context.Context, o metric.Float64Observer) error {
		for _, e := range w.plan[i] {
			if e.Via == 0 {
				o.Observe(float64(e.V), metric.WithAttributes(setPool[e.Set]...))
			}
		}
		return nil
	}
}

// multiCallback observes every planned entry addressed to slot j, whether or
// not the instrument is in the slot's registration list.
func (w *world) multiCallback(j int) metric.Callback {
	return func(_ context.Context, o metric.Observer) error {
		for i, d := range obsDefs {
			for _, e := range w.plan[i] {
				if e.Via != j+1 {
					continue
				}
				if d.float {
					o.ObserveFloat64(w.fObs[i], float64(e.V), metric.WithAttributes(setPool[e.Set]...))
				} else {
					o.ObserveInt64(w.iObs[i], int64(float64(e.V)), metric.WithAttributes(setPool[e.Set]...))
				}
			}
		}
		return nil
	}
}

// observedNow evaluates the model of what this cycle's callbacks observe.
func (w *world) observedNow() (obs []map[int]float64, stray bool) {
	obs = make([]map[int]float64, len(obsDefs))
	for i, d := range obsDefs {
		obs[i] = map[int]float64{}
		for _, e := range w.plan[i] {
			switch {
			case e.Via == 0:
				obs[i][e.Set] = modelValue(float64(e.V), d.float)
			case e.Via-1 < len(w.registered) && w.registered[e.Via-1]:
				if contains(w.c.Multi[e.Via-1], i) {
					obs[i][e.Set] = modelValue(float64(e.V), d.float)
				} else {
					stray = true
				}
			}
		}
	}
	return obs, stray
}

func deltaSelector(sdkmetric.InstrumentKind) metricdata.Temporality {
	return metricdata.DeltaTemporality
}

func cumulativeSelector(sdkmetric.InstrumentKind) metricdata.Temporality {
	return metricdata.CumulativeTemporality
}

func (w *world) fail(format string, a ...any) {
	w.regErrs = append(w.regErrs, fmt.Sprintf(format, a...))
}

// execute runs the history and returns the recorded cycles.
func execute(c Case) *world {
	ctx := context.Background()
	w := &world{c: c}
	if w.c.NSets > maxSets {
		w.c.NSets = maxSets
	}
	if len(w.c.Multi) > maxMulti {
		w.c.Multi = w.c.Multi[:maxMulti]
	}
	w.plan = make([][]Obs, len(obsDefs))
	w.registered = make([]bool, len(w.c.Multi))
	w.regs = make([]metric.Registration, len(w.c.Multi))
	newPending := func() []map[int][]float64 {
		p := make([]map[int][]float64, len(syncDefs))
		for i := range p {
			p[i] = map[int][]float64{}
		}
		return p
	}
	w.pending = newPending()

	maxSize := int32(w.c.ExpoMaxSize)
	if maxSize < 3 {
		maxSize = 160
	}
	deltaR := sdkmetric.NewManualReader(sdkmetric.WithTemporalitySelector(deltaSelector))
	cumR := sdkmetric.NewManualReader(sdkmetric.WithTemporalitySelector(cumulativeSelector))
	opts := []sdkmetric.Option{
		sdkmetric.WithResource(resource.Empty()),
		sdkmetric.WithView(sdkmetric.NewView(
			sdkmetric.Instrument{Name: "xhist_*"},
			sdkmetric.Stream{Aggregation: sdkmetric.AggregationBase2ExponentialHistogram{MaxSize: maxSize, MaxScale: 20}},
		)),
	}
	viewed := map[int]bool{}
	for _, d := range syncDefs {
		if d.bsrc == bView && !viewed[d.bidx] {
			viewed[d.bidx] = true
			opts = append(opts, sdkmetric.WithView(sdkmetric.NewView(
				sdkmetric.Instrument{Name: d.name[:len(d.name)-1] + "*"}, // vhist_*
				sdkmetric.Stream{Aggregation: sdkmetric.AggregationExplicitBucketHistogram{Boundaries: w.c.bounds(d.bidx)}},
			)))
		}
	}
	if w.c.ProvCumFirst {
		opts = append(opts, sdkmetric.WithReader(cumR), sdkmetric.WithReader(deltaR))
	} else {
		opts = append(opts, sdkmetric.WithReader(deltaR), sdkmetric.WithReader(cumR))
	}
	mp := sdkmetric.NewMeterProvider(opts...)
	defer func() { _ = mp.Shutdown(ctx) }()
	w.mp = mp
	w.scopeAt = [2]int{-1, -1}

	// ---- sync instruments: up front unless the case lists them as late ----
	w.iSync = make([]func(context.Context, int64, attribute.Set), len(syncDefs))
	w.fSync = make([]func(context.Context, float64, attribute.Set), len(syncDefs))
	w.syncBr = make([]bracket, len(syncDefs))
	w.createdAt = make([]int, len(syncDefs))
	for i := range syncDefs {
		w.createdAt[i] = -1
		if !contains(w.c.Late, i) {
			w.createSync(i)
		}
	}

	// ---- observable instruments: all up front, inside one bracket ----
	w.iObs = make([]metric.Int64Observable, len(obsDefs))
	w.fObs = make([]metric.Float64Observable, len(obsDefs))
	w.obsBr.Before = time.Now()
	w.meter = w.scopeMeter(0)
	for i, d := range obsDefs {
		var err error
		switch {
		case d.kind == oCounter && !d.float:
			w.iObs[i], err = w.meter.Int64ObservableCounter(d.name, metric.WithInt64Callback(w.instCallbackI(i)))
		case d.kind == oCounter:
			w.fObs[i], err = w.meter.Float64ObservableCounter(d.name, metric.WithFloat64Callback(w.instCallbackF(i)))
		case d.kind == oUpDown && !d.float:
			w.iObs[i], err = w.meter.Int64ObservableUpDownCounter(d.name, metric.WithInt64Callback(w.instCallbackI(i)))
		case d.kind == oUpDown:
			w.fObs[i], err = w.meter.Float64ObservableUpDownCounter(d.name, metric.WithFloat64Callback(w.instCallbackF(i)))
		case !d.float:
			w.iObs[i], err = w.meter.Int64ObservableGauge(d.name, metric.WithInt64Callback(w.instCallbackI(i)))
		default:
			w.fObs[i], err = w.meter.Float64ObservableGauge(d.name, metric.WithFloat64Callback(w.instCallbackF(i)))
		}
		if err != nil {
			w.fail("creating %s: %v", d.name, err)
		}
	}
	w.obsBr.After = time.Now()
	if w.scopeAt[0] < 0 {
		w.scopeAt[0] = 0
	}

	// ---- the history ----
	var deltaRM, cumRM metricdata.ResourceMetrics // the readers' own reused outputs
	var pool [rmPool]metricdata.ResourceMetrics   // shared slots
	var poolLast [rmPool]*sdkmetric.ManualReader  // who filled the slot last
	collect := func(r *sdkmetric.ManualReader, own *metricdata.ResourceMetrics, slot int) (rm *metricdata.ResourceMetrics, sn *snap, br bracket, err error, is string, handover bool) {
		switch {
		case slot >= 1 && slot <= rmPool:
			rm, is = &pool[slot-1], fmt.Sprintf("pool%d", slot)
			handover = poolLast[slot-1] != nil && poolLast[slot-1] != r
			poolLast[slot-1] = r
		case w.c.Reuse:
			rm, is = own, "own"
		default:
			rm, is = &metricdata.ResourceMetrics{}, "fresh"
		}
		br.Before = time.Now()
		err = r.Collect(ctx, rm)
		br.After = time.Now()
		sn = takeSnap(rm)
		if is != "fresh" {
			rm = nil // will be overwritten; nothing to re-read later
		}
		return rm, sn, br, err, is, handover
	}
	steps := w.c.Ops
	if len(steps) > maxSteps {
		steps = steps[:maxSteps]
	}
	for _, op := range steps {
		switch op.K {
		case "rec":
			if op.Inst < 0 || op.Inst >= len(syncDefs) || !w.validSet(op.Set) {
				continue
			}
			d := syncDefs[op.Inst]
			if w.createdAt[op.Inst] < 0 {
				w.createSync(op.Inst)
			}
			set := attribute.NewSet(setPool[op.Set]...)
			if d.float {
				w.fSync[op.Inst](ctx, float64(op.V), set)
			} else {
				w.iSync[op.Inst](ctx, int64(float64(op.V)), set)
			}
			w.pending[op.Inst][op.Set] = append(w.pending[op.Inst][op.Set], modelValue(float64(op.V), d.float))
		case "plan":
			if op.Inst < 0 || op.Inst >= len(obsDefs) {
				continue
			}
			w.plan[op.Inst] = w.sanitizePlan(op.Plan)
		case "reg":
			if op.CB < 0 || op.CB >= len(w.c.Multi) || w.registered[op.CB] {
				continue
			}
			var insts []metric.Observable
			for _, i := range w.c.Multi[op.CB] {
				if i < 0 || i >= len(obsDefs) {
					continue
				}
				if obsDefs[i].float {
					insts = append(insts, w.fObs[i])
				} else {
					insts = append(insts, w.iObs[i])
				}
			}
			if len(insts) == 0 {
				continue
			}
			reg, err := w.meter.RegisterCallback(w.multiCallback(op.CB), insts...)
			if err != nil {
				w.fail("RegisterCallback slot %d: %v", op.CB, err)
				continue
			}
			w.regs[op.CB], w.registered[op.CB] = reg, true
		case "unreg":
			if op.CB < 0 || op.CB >= len(w.c.Multi) || !w.registered[op.CB] {
				continue
			}
			if err := w.regs[op.CB].Unregister(); err != nil {
				w.fail("Unregister slot %d: %v", op.CB, err)
			}
			w.regs[op.CB], w.registered[op.CB] = nil, false
		case "collect":
			cy := &cycle{Recorded: w.pending, RanMulti: append([]bool{}, w.registered...)}
			w.pending = newPending()
			cy.Observed, cy.StrayObs = w.observedNow()
			var h1, h2 bool
			if op.CumFirst {
				cy.cumRM, cy.Cum, cy.CumBr, cy.CumErr, cy.CumRMIs, h1 = collect(cumR, &cumRM, op.CRM)
				cy.deltaRM, cy.Delta, cy.DeltaBr, cy.DeltaErr, cy.DeltaRMIs, h2 = collect(deltaR, &deltaRM, op.DRM)
			} else {
				cy.deltaRM, cy.Delta, cy.DeltaBr, cy.DeltaErr, cy.DeltaRMIs, h1 = collect(deltaR, &deltaRM, op.DRM)
				cy.cumRM, cy.Cum, cy.CumBr, cy.CumErr, cy.CumRMIs, h2 = collect(cumR, &cumRM, op.CRM)
			}
			cy.Handover = h1 || h2
			w.cycles = append(w.cycles, cy)
		}
	}
	// Outputs handed out earlier, read again now that the history is over.
	for _, cy := range w.cycles {
		if cy.deltaRM != nil {
			cy.DeltaLate = takeSnap(cy.deltaRM)
		}
		if cy.cumRM != nil {
			cy.CumLate = takeSnap(cy.cumRM)
		}
	}
	for j, r := range w.regs {
		if r != nil && w.registered[j] {
			_ = r.Unregister()
		}
	}
	return w
}

var scopeNames = [2]string{"c08", "c08b"}

func (w *world) scopeMeter(scope int) metric.Meter {
	if w.meters[scope] == nil {
		w.meters[scope] = w.mp.Meter(scopeNames[scope])
	}
	return w.meters[scope]
}

// createSync creates sync instrument i (its meter too, at first use of the
// scope) and notes the wall-clock bracket and the position in the history.
func (w *world) createSync(i int) {
	d := syncDefs[i]
	var hopts []metric.HistogramOption
	if d.kind == kHist && d.bsrc == bAdvisory {
		hopts = append(hopts, metric.WithExplicitBucketBoundaries(w.c.bounds(d.bidx)...))
	}
	var err error
	w.syncBr[i].Before = time.Now()
	m := w.scopeMeter(d.scope)
	switch {
	case d.kind == kCounter && !d.float:
		var in metric.Int64Counter
		in, err = m.Int64Counter(d.name)
		w.iSync[i] = func(ctx context.Context, v int64, s attribute.Set) { in.Add(ctx, v, metric.WithAttributeSet(s)) }
	case d.kind == kCounter:
		var in metric.Float64Counter
		in, err = m.Float64Counter(d.name)
		w.fSync[i] = func(ctx context.Context, v float64, s attribute.Set) { in.Add(ctx, v, metric.WithAttributeSet(s)) }
	case d.kind == kUpDown && !d.float:
		var in metric.Int64UpDownCounter
		in, err = m.Int64UpDownCounter(d.name)
		w.iSync[i] = func(ctx context.Context, v int64, s attribute.Set) { in.Add(ctx, v, metric.WithAttributeSet(s)) }
	case d.kind == kUpDown:
		var in metric.Float64UpDownCounter
		in, err = m.Float64UpDownCounter(d.name)
		w.fSync[i] = func(ctx context.Context, v float64, s attribute.Set) { in.Add(ctx, v, metric.WithAttributeSet(s)) }
	case (d.kind == kHist || d.kind == kExpo) && !d.float:
		var in metric.Int64Histogram
		io := make([]metric.Int64HistogramOption, len(hopts))
		for k, o := range hopts {
			io[k] = o
		}
		in, err = m.Int64Histogram(d.name, io...)
		w.iSync[i] = func(ctx context.Context, v int64, s attribute.Set) { in.Record(ctx, v, metric.WithAttributeSet(s)) }
	case d.kind == kHist || d.kind == kExpo:
		var in metric.Float64Histogram
		fo := make([]metric.Float64HistogramOption, len(hopts))
		for k, o := range hopts {
			fo[k] = o
		}
		in, err = m.Float64Histogram(d.name, fo...)
		w.fSync[i] = func(ctx context.Context, v float64, s attribute.Set) { in.Record(ctx, v, metric.WithAttributeSet(s)) }
	case d.kind == kGauge && !d.float:
		var in metric.Int64Gauge
		in, err = m.Int64Gauge(d.name)
		w.iSync[i] = func(ctx context.Context, v int64, s attribute.Set) { in.Record(ctx, v, metric.WithAttributeSet(s)) }
	default:
		var in metric.Float64Gauge
		in, err = m.Float64Gauge(d.name)
		w.fSync[i] = func(ctx context.Context, v float64, s attribute.Set) { in.Record(ctx, v, metric.WithAttributeSet(s)) }
	}
	w.syncBr[i].After = time.Now()
	w.createdAt[i] = len(w.cycles)
	if w.scopeAt[d.scope] < 0 {
		w.scopeAt[d.scope] = len(w.cycles)
	}
	if err != nil {
		w.fail("creating %s: %v", d.name, err)
	}
}
