package c08

import (
	"context"
	"fmt"
	"time"

	"go.opentelemetry.io/otel/attribute"
	"go.opentelemetry.io/otel/metric"
	sdkmetric "go.opentelemetry.io/otel/sdk/metric"
	"go.opentelemetry.io/otel/sdk/metric/metricdata"
	"go.opentelemetry.io/otel/sdk/resource"
)

// setPool is the fixed pool of attribute sets; a case uses a prefix of it.
var setPool = [maxSets][]attribute.KeyValue{
	{},
	{attribute.String("k", "a")},
	{attribute.String("k", "b")},
	{attribute.String("k", "a"), attribute.Int("n", 1)},
	{attribute.Int("n", 1)},
}

var setIndex = func() map[attribute.Distinct]int {
	m := map[attribute.Distinct]int{}
	for i, kvs := range setPool {
		s := attribute.NewSet(kvs...)
		m[s.Equivalent()] = i
	}
	return m
}()

// ---------------------------------------------------------------------
// snapshots of collected data (deep copies, number type erased)

type point struct {
	Start, Time time.Time
	Val         float64 // sum / gauge
	// histograms
	Count          uint64
	Sum            float64
	HasMin, HasMax bool
	Min, Max       float64
	Bounds         []float64
	Buckets        []uint64
	// exponential histograms
	Scale     int32
	Zero      uint64
	ZeroThr   float64
	PosOff    int32
	Pos       []uint64
	NegOff    int32
	Neg       []uint64
	Exemplars int
}

type series struct {
	Type        string // sum | gauge | hist | expo
	Temporality metricdata.Temporality
	Pts         map[int]*point // by pool index of the attribute set
}

type snap struct {
	Series   map[string]*series // by instrument (stream) name
	Problems []string           // structural problems: kind\x00message
}

func (s *snap) problem(kind, format string, a ...any) {
	s.Problems = append(s.Problems, kind+"\x00"+fmt.Sprintf(format, a...))
}

func (s *snap) add(name, typ string, temp metricdata.Temporality) *series {
	if _, dup := s.Series[name]; dup {
		s.problem("duplicate_metric", "metric %q appears twice in one collection", name)
	}
	se := &series{Type: typ, Temporality: temp, Pts: map[int]*point{}}
	s.Series[name] = se
	return se
}

func (s *snap) put(name string, se *series, attrs attribute.Set, p *point) {
	idx, ok := setIndex[attrs.Equivalent()]
	if !ok {
		s.problem("unknown_attribute_set", "metric %q reports attribute set %s that was never used", name, attrs.Encoded(attribute.DefaultEncoder()))
		return
	}
	if _, dup := se.Pts[idx]; dup {
		s.problem("duplicate_stream", "metric %q reports attribute set #%d twice in one collection", name, idx)
		return
	}
	se.Pts[idx] = p
}

func numPoints[N int64 | float64](s *snap, name string, se *series, dps []metricdata.DataPoint[N]) {
	for _, dp := range dps {
		s.put(name, se, dp.Attributes, &point{Start: dp.StartTime, Time: dp.Time, Val: float64(dp.Value), Exemplars: len(dp.Exemplars)})
	}
}

func histPoints[N int64 | float64](s *snap, name string, se *series, dps []metricdata.HistogramDataPoint[N]) {
	for _, dp := range dps {
		p := &point{Start: dp.StartTime, Time: dp.Time, Count: dp.Count, Sum: float64(dp.Sum),
			Bounds: append([]float64{}, dp.Bounds...), Buckets: append([]uint64{}, dp.BucketCounts...), Exemplars: len(dp.Exemplars)}
		if v, ok := dp.Min.Value(); ok {
			p.HasMin, p.Min = true, float64(v)
		}
		if v, ok := dp.Max.Value(); ok {
			p.HasMax, p.Max = true, float64(v)
		}
		s.put(name, se, dp.Attributes, p)
	}
}

func expoPoints[N int64 | float64](s *snap, name string, se *series, dps []metricdata.ExponentialHistogramDataPoint[N]) {
	for _, dp := range dps {
		p := &point{Start: dp.StartTime, Time: dp.Time, Count: dp.Count, Sum: float64(dp.Sum),
			Scale: dp.Scale, Zero: dp.ZeroCount, ZeroThr: dp.ZeroThreshold,
			PosOff: dp.PositiveBucket.Offset, Pos: append([]uint64{}, dp.PositiveBucket.Counts...),
			NegOff: dp.NegativeBucket.Offset, Neg: append([]uint64{}, dp.NegativeBucket.Counts...), Exemplars: len(dp.Exemplars)}
		if v, ok := dp.Min.Value(); ok {
			p.HasMin, p.Min = true, float64(v)
		}
		if v, ok := dp.Max.Value(); ok {
			p.HasMax, p.Max = true, float64(v)
		}
		s.put(name, se, dp.Attributes, p)
	}
}

func takeSnap(rm *metricdata.ResourceMetrics) *snap {
	s := &snap{Series: map[string]*series{}}
	for _, sm := range rm.ScopeMetrics {
		for _, m := range sm.Metrics {
			switch d := m.Data.(type) {
			case metricdata.Sum[int64]:
				numPoints(s, m.Name, s.add(m.Name, "sum", d.Temporality), d.DataPoints)
			case metricdata.Sum[float64]:
				numPoints(s, m.Name, s.add(m.Name, "sum", d.Temporality), d.DataPoints)
			case metricdata.Gauge[int64]:
				numPoints(s, m.Name, s.add(m.Name, "gauge", 0), d.DataPoints)
			case metricdata.Gauge[float64]:
				numPoints(s, m.Name, s.add(m.Name, "gauge", 0), d.DataPoints)
			case metricdata.Histogram[int64]:
				histPoints(s, m.Name, s.add(m.Name, "hist", d.Temporality), d.DataPoints)
			case metricdata.Histogram[float64]:
				histPoints(s, m.Name, s.add(m.Name, "hist", d.Temporality), d.DataPoints)
			case metricdata.ExponentialHistogram[int64]:
				expoPoints(s, m.Name, s.add(m.Name, "expo", d.Temporality), d.DataPoints)
			case metricdata.ExponentialHistogram[float64]:
				expoPoints(s, m.Name, s.add(m.Name, "expo", d.Temporality), d.DataPoints)
			default:
				s.problem("unexpected_data_type", "metric %q has data of type %T", m.Name, m.Data)
			}
		}
	}
	return s
}

// ---------------------------------------------------------------------
// executing a history

type bracket struct{ Before, After time.Time }

// cycle is everything known about one collectBoth step.
type cycle struct {
	// model
	Observed  []map[int]float64   // per observable instrument: set -> value its callbacks observe
	Recorded  []map[int][]float64 // per sync instrument: set -> values recorded since the previous collectBoth
	RanMulti  []bool              // multi callback slot registered (hence run) in this cycle
	StrayObs  bool                // some callback observed an instrument it is not registered for
	DeltaBr   bracket
	CumBr     bracket
	Delta     *snap
	Cum       *snap
	DeltaErr  error
	CumErr    error
	deltaRM   *metricdata.ResourceMetrics // retained outputs (fresh-rm mode)
	cumRM     *metricdata.ResourceMetrics
	DeltaLate *snap // the retained outputs read again at the end of the history
	CumLate   *snap
}

type world struct {
	c          Case
	plan       [][]Obs // current observation plan per observable instrument
	registered []bool
	regs       []metric.Registration
	regErrs    []string

	iSync []func(context.Context, int64, attribute.Set)
	fSync []func(context.Context, float64, attribute.Set)
	iObs  []metric.Int64Observable
	fObs  []metric.Float64Observable

	meter    metric.Meter
	createBr bracket
	cycles   []*cycle
	pending  []map[int][]float64 // records of the running cycle
}

func (w *world) validSet(s int) bool { return s >= 0 && s < w.c.NSets && s < maxSets }

// modelValue is the value the instrument actually receives for v.
func modelValue(v float64, float bool) float64 {
	if float {
		return v
	}
	return float64(int64(v))
}

// sanitizePlan keeps the first entry per attribute set and drops entries
// that name no valid set (the generator never produces either).
func (w *world) sanitizePlan(in []Obs) []Obs {
	seen := map[int]bool{}
	var out []Obs
	for _, e := range in {
		if !w.validSet(e.Set) || seen[e.Set] || e.Via < 0 {
			continue
		}
		seen[e.Set] = true
		out = append(out, e)
	}
	return out
}

func (w *world) instCallbackI(i int) metric.Int64Callback {
	return func(_ context.Context, o metric.Int64Observer) error {
		for _, e := range w.plan[i] {
			if e.Via == 0 {
				o.Observe(int64(float64(e.V)), metric.WithAttributes(setPool[e.Set]...))
			}
		}
		return nil
	}
}

func (w *world) instCallbackF(i int) metric.Float64Callback {
	return func(_ context.Context, o metric.Float64Observer) error {
		for _, e := range w.plan[i] {
			if e.Via == 0 {
				o.Observe(float64(e.V), metric.WithAttributes(setPool[e.Set]...))
			}
		}
		return nil
	}
}

// multiCallback observes every planned entry addressed to slot j, whether or
// not the instrument is in the slot's registration list.
func (w *world) multiCallback(j int) metric.Callback {
	return func(_ context.Context, o metric.Observer) error {
		for i, d := range obsDefs {
			for _, e := range w.plan[i] {
				if e.Via != j+1 {
					continue
				}
				if d.float {
					o.ObserveFloat64(w.fObs[i], float64(e.V), metric.WithAttributes(setPool[e.Set]...))
				} else {
					o.ObserveInt64(w.iObs[i], int64(float64(e.V)), metric.WithAttributes(setPool[e.Set]...))
				}
			}
		}
		return nil
	}
}

// observedNow evaluates the model of what this cycle's callbacks observe.
func (w *world) observedNow() (obs []map[int]float64, stray bool) {
	obs = make([]map[int]float64, len(obsDefs))
	for i, d := range obsDefs {
		obs[i] = map[int]float64{}
		for _, e := range w.plan[i] {
			switch {
			case e.Via == 0:
				obs[i][e.Set] = modelValue(float64(e.V), d.float)
			case e.Via-1 < len(w.registered) && w.registered[e.Via-1]:
				if contains(w.c.Multi[e.Via-1], i) {
					obs[i][e.Set] = modelValue(float64(e.V), d.float)
				} else {
					stray = true
				}
			}
		}
	}
	return obs, stray
}

func deltaSelector(sdkmetric.InstrumentKind) metricdata.Temporality {
	return metricdata.DeltaTemporality
}

func cumulativeSelector(sdkmetric.InstrumentKind) metricdata.Temporality {
	return metricdata.CumulativeTemporality
}

func (w *world) fail(format string, a ...any) {
	w.regErrs = append(w.regErrs, fmt.Sprintf(format, a...))
}

// execute runs the history and returns the recorded cycles.
func execute(c Case) *world {
	ctx := context.Background()
	w := &world{c: c}
	if w.c.NSets > maxSets {
		w.c.NSets = maxSets
	}
	if len(w.c.Multi) > maxMulti {
		w.c.Multi = w.c.Multi[:maxMulti]
	}
	w.plan = make([][]Obs, len(obsDefs))
	w.registered = make([]bool, len(w.c.Multi))
	w.regs = make([]metric.Registration, len(w.c.Multi))
	newPending := func() []map[int][]float64 {
		p := make([]map[int][]float64, len(syncDefs))
		for i := range p {
			p[i] = map[int][]float64{}
		}
		return p
	}
	w.pending = newPending()

	maxSize := int32(w.c.ExpoMaxSize)
	if maxSize < 3 {
		maxSize = 160
	}
	deltaR := sdkmetric.NewManualReader(sdkmetric.WithTemporalitySelector(deltaSelector))
	cumR := sdkmetric.NewManualReader(sdkmetric.WithTemporalitySelector(cumulativeSelector))
	opts := []sdkmetric.Option{
		sdkmetric.WithResource(resource.Empty()),
		sdkmetric.WithView(sdkmetric.NewView(
			sdkmetric.Instrument{Name: "xhist_*"},
			sdkmetric.Stream{Aggregation: sdkmetric.AggregationBase2ExponentialHistogram{MaxSize: maxSize, MaxScale: 20}},
		)),
	}
	if w.c.ProvCumFirst {
		opts = append(opts, sdkmetric.WithReader(cumR), sdkmetric.WithReader(deltaR))
	} else {
		opts = append(opts, sdkmetric.WithReader(deltaR), sdkmetric.WithReader(cumR))
	}
	mp := sdkmetric.NewMeterProvider(opts...)
	defer func() { _ = mp.Shutdown(ctx) }()
	w.meter = mp.Meter("c08")

	// ---- all instruments are created up front, inside one bracket ----
	w.iSync = make([]func(context.Context, int64, attribute.Set), len(syncDefs))
	w.fSync = make([]func(context.Context, float64, attribute.Set), len(syncDefs))
	w.iObs = make([]metric.Int64Observable, len(obsDefs))
	w.fObs = make([]metric.Float64Observable, len(obsDefs))
	w.createBr.Before = time.Now()
	for i, d := range syncDefs {
		var err error
		switch {
		case d.kind == kCounter && !d.float:
			var in metric.Int64Counter
			in, err = w.meter.Int64Counter(d.name)
			w.iSync[i] = func(ctx context.Context, v int64, s attribute.Set) { in.Add(ctx, v, metric.WithAttributeSet(s)) }
		case d.kind == kCounter:
			var in metric.Float64Counter
			in, err = w.meter.Float64Counter(d.name)
			w.fSync[i] = func(ctx context.Context, v float64, s attribute.Set) { in.Add(ctx, v, metric.WithAttributeSet(s)) }
		case d.kind == kUpDown && !d.float:
			var in metric.Int64UpDownCounter
			in, err = w.meter.Int64UpDownCounter(d.name)
			w.iSync[i] = func(ctx context.Context, v int64, s attribute.Set) { in.Add(ctx, v, metric.WithAttributeSet(s)) }
		case d.kind == kUpDown:
			var in metric.Float64UpDownCounter
			in, err = w.meter.Float64UpDownCounter(d.name)
			w.fSync[i] = func(ctx context.Context, v float64, s attribute.Set) { in.Add(ctx, v, metric.WithAttributeSet(s)) }
		case (d.kind == kHist || d.kind == kExpo) && !d.float:
			var in metric.Int64Histogram
			in, err = w.meter.Int64Histogram(d.name)
			w.iSync[i] = func(ctx context.Context, v int64, s attribute.Set) { in.Record(ctx, v, metric.WithAttributeSet(s)) }
		case d.kind == kHist || d.kind == kExpo:
			var in metric.Float64Histogram
			in, err = w.meter.Float64Histogram(d.name)
			w.fSync[i] = func(ctx context.Context, v float64, s attribute.Set) { in.Record(ctx, v, metric.WithAttributeSet(s)) }
		case d.kind == kGauge && !d.float:
			var in metric.Int64Gauge
			in, err = w.meter.Int64Gauge(d.name)
			w.iSync[i] = func(ctx context.Context, v int64, s attribute.Set) { in.Record(ctx, v, metric.WithAttributeSet(s)) }
		default:
			var in metric.Float64Gauge
			in, err = w.meter.Float64Gauge(d.name)
			w.fSync[i] = func(ctx context.Context, v float64, s attribute.Set) { in.Record(ctx, v, metric.WithAttributeSet(s)) }
		}
		if err != nil {
			w.fail("creating %s: %v", d.name, err)
		}
	}
	for i, d := range obsDefs {
		var err error
		switch {
		case d.kind == oCounter && !d.float:
			w.iObs[i], err = w.meter.Int64ObservableCounter(d.name, metric.WithInt64Callback(w.instCallbackI(i)))
		case d.kind == oCounter:
			w.fObs[i], err = w.meter.Float64ObservableCounter(d.name, metric.WithFloat64Callback(w.instCallbackF(i)))
		case d.kind == oUpDown && !d.float:
			w.iObs[i], err = w.meter.Int64ObservableUpDownCounter(d.name, metric.WithInt64Callback(w.instCallbackI(i)))
		case d.kind == oUpDown:
			w.fObs[i], err = w.meter.Float64ObservableUpDownCounter(d.name, metric.WithFloat64Callback(w.instCallbackF(i)))
		case !d.float:
			w.iObs[i], err = w.meter.Int64ObservableGauge(d.name, metric.WithInt64Callback(w.instCallbackI(i)))
		default:
			w.fObs[i], err = w.meter.Float64ObservableGauge(d.name, metric.WithFloat64Callback(w.instCallbackF(i)))
		}
		if err != nil {
			w.fail("creating %s: %v", d.name, err)
		}
	}
	w.createBr.After = time.Now()

	// ---- the history ----
	var deltaRM, cumRM metricdata.ResourceMetrics // reused outputs (Reuse mode)
	collect := func(r *sdkmetric.ManualReader, reused *metricdata.ResourceMetrics) (*metricdata.ResourceMetrics, *snap, bracket, error) {
		rm := reused
		if !w.c.Reuse {
			rm = &metricdata.ResourceMetrics{}
		}
		var br bracket
		br.Before = time.Now()
		err := r.Collect(ctx, rm)
		br.After = time.Now()
		return rm, takeSnap(rm), br, err
	}
	steps := w.c.Ops
	if len(steps) > maxSteps {
		steps = steps[:maxSteps]
	}
	for _, op := range steps {
		switch op.K {
		case "rec":
			if op.Inst < 0 || op.Inst >= len(syncDefs) || !w.validSet(op.Set) {
				continue
			}
			d := syncDefs[op.Inst]
			set := attribute.NewSet(setPool[op.Set]...)
			if d.float {
				w.fSync[op.Inst](ctx, float64(op.V), set)
			} else {
				w.iSync[op.Inst](ctx, int64(float64(op.V)), set)
			}
			w.pending[op.Inst][op.Set] = append(w.pending[op.Inst][op.Set], modelValue(float64(op.V), d.float))
		case "plan":
			if op.Inst < 0 || op.Inst >= len(obsDefs) {
				continue
			}
			w.plan[op.Inst] = w.sanitizePlan(op.Plan)
		case "reg":
			if op.CB < 0 || op.CB >= len(w.c.Multi) || w.registered[op.CB] {
				continue
			}
			var insts []metric.Observable
			for _, i := range w.c.Multi[op.CB] {
				if i < 0 || i >= len(obsDefs) {
					continue
				}
				if obsDefs[i].float {
					insts = append(insts, w.fObs[i])
				} else {
					insts = append(insts, w.iObs[i])
				}
			}
			if len(insts) == 0 {
				continue
			}
			reg, err := w.meter.RegisterCallback(w.multiCallback(op.CB), insts...)
			if err != nil {
				w.fail("RegisterCallback slot %d: %v", op.CB, err)
				continue
			}
			w.regs[op.CB], w.registered[op.CB] = reg, true
		case "unreg":
			if op.CB < 0 || op.CB >= len(w.c.Multi) || !w.registered[op.CB] {
				continue
			}
			if err := w.regs[op.CB].Unregister(); err != nil {
				w.fail("Unregister slot %d: %v", op.CB, err)
			}
			w.regs[op.CB], w.registered[op.CB] = nil, false
		case "collect":
			cy := &cycle{Recorded: w.pending, RanMulti: append([]bool{}, w.registered...)}
			w.pending = newPending()
			cy.Observed, cy.StrayObs = w.observedNow()
			if op.CumFirst {
				cy.cumRM, cy.Cum, cy.CumBr, cy.CumErr = collect(cumR, &cumRM)
				cy.deltaRM, cy.Delta, cy.DeltaBr, cy.DeltaErr = collect(deltaR, &deltaRM)
			} else {
				cy.deltaRM, cy.Delta, cy.DeltaBr, cy.DeltaErr = collect(deltaR, &deltaRM)
				cy.cumRM, cy.Cum, cy.CumBr, cy.CumErr = collect(cumR, &cumRM)
			}
			w.cycles = append(w.cycles, cy)
		}
	}
	// Outputs handed out earlier, read again now that the history is over.
	if !w.c.Reuse {
		for _, cy := range w.cycles {
			cy.DeltaLate, cy.CumLate = takeSnap(cy.deltaRM), takeSnap(cy.cumRM)
		}
	}
	for j, r := range w.regs {
		if r != nil && w.registered[j] {
			_ = r.Unregister()
		}
	}
	return w
}
