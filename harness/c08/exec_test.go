package c08

import (
	"context"
	"errors"
	"fmt"
	"sort"
	"sync"
	"time"

	"go.opentelemetry.io/otel/attribute"
	"go.opentelemetry.io/otel/metric"
	sdkmetric "go.opentelemetry.io/otel/sdk/metric"
	"go.opentelemetry.io/otel/sdk/metric/metricdata"
	"go.opentelemetry.io/otel/sdk/resource"
	"go.opentelemetry.io/otel/verif/internal/vk"
)

// setPool is the fixed pool of attribute sets; a case uses a prefix of it.
var setPool = [maxSets][]attribute.KeyValue{
	{},
	{attribute.String("k", "a")},
	{attribute.String("k", "b")},
	{attribute.String("k", "a"), attribute.Int("n", 1)},
	{attribute.Int("n", 1)},
}

var setIndex = func() map[attribute.Distinct]int {
	m := map[attribute.Distinct]int{}
	for i, kvs := range setPool {
		s := attribute.NewSet(kvs...)
		m[s.Equivalent()] = i
	}
	return m
}()

// ---------------------------------------------------------------------
// snapshots of collected data (deep copies, number type erased)

type point struct {
	Start, Time time.Time
	Val         num // sum / gauge
	// histograms
	Count          uint64
	Sum            num
	HasMin, HasMax bool
	Min, Max       num
	Bounds         []float64
	Buckets        []uint64
	// exponential histograms
	Scale     int32
	Zero      uint64
	ZeroThr   float64
	PosOff    int32
	Pos       []uint64
	NegOff    int32
	Neg       []uint64
	Exemplars int
}

type series struct {
	Type        string // sum | gauge | hist | expo
	Float       bool   // number type of the data
	Temporality metricdata.Temporality
	Pts         map[int]*point // by pool index of the attribute set
}

type snap struct {
	Series   map[string]*series // by stream name (streamName: bare instrument name, or the qualified identity of a twin)
	Problems []string           // structural problems: kind\x00message
	Slot     map[string][2]int  // where the metric sat in the output: scope index, metric index
}

func (s *snap) problem(kind, format string, a ...any) {
	s.Problems = append(s.Problems, kind+"\x00"+fmt.Sprintf(format, a...))
}

func (s *snap) add(name, typ string, temp metricdata.Temporality, float ...bool) *series {
	if _, dup := s.Series[name]; dup {
		s.problem("duplicate_metric", "metric %q appears twice in one collection", name)
	}
	se := &series{Type: typ, Temporality: temp, Pts: map[int]*point{}, Float: len(float) > 0 && float[0]}
	s.Series[name] = se
	return se
}

func (s *snap) put(name string, se *series, attrs attribute.Set, p *point) {
	idx, ok := setIndex[attrs.Equivalent()]
	if !ok {
		s.problem("unknown_attribute_set", "metric %q reports attribute set %s that was never used", name, attrs.Encoded(attribute.DefaultEncoder()))
		return
	}
	if _, dup := se.Pts[idx]; dup {
		s.problem("duplicate_stream", "metric %q reports attribute set #%d twice in one collection", name, idx)
		return
	}
	se.Pts[idx] = p
}

func numPoints[N int64 | float64](s *snap, name string, se *series, dps []metricdata.DataPoint[N]) {
	for _, dp := range dps {
		s.put(name, se, dp.Attributes, &point{Start: dp.StartTime, Time: dp.Time, Val: toNum(dp.Value), Exemplars: len(dp.Exemplars)})
	}
}

func histPoints[N int64 | float64](s *snap, name string, se *series, dps []metricdata.HistogramDataPoint[N]) {
	for _, dp := range dps {
		p := &point{Start: dp.StartTime, Time: dp.Time, Count: dp.Count, Sum: toNum(dp.Sum),
			Bounds: append([]float64{}, dp.Bounds...), Buckets: append([]uint64{}, dp.BucketCounts...), Exemplars: len(dp.Exemplars)}
		if v, ok := dp.Min.Value(); ok {
			p.HasMin, p.Min = true, toNum(v)
		}
		if v, ok := dp.Max.Value(); ok {
			p.HasMax, p.Max = true, toNum(v)
		}
		if len(dp.BucketCounts) != len(dp.Bounds)+1 {
			// "per-bucket counts" presupposes one count per bucket of the point's own bounds.
			s.problem("histogram_buckets_vs_bounds", "metric %q: %d bucket counts %v for %d bounds %v", name, len(dp.BucketCounts), dp.BucketCounts, len(dp.Bounds), dp.Bounds)
		}
		s.put(name, se, dp.Attributes, p)
	}
}

func expoPoints[N int64 | float64](s *snap, name string, se *series, dps []metricdata.ExponentialHistogramDataPoint[N]) {
	for _, dp := range dps {
		p := &point{Start: dp.StartTime, Time: dp.Time, Count: dp.Count, Sum: toNum(dp.Sum),
			Scale: dp.Scale, Zero: dp.ZeroCount, ZeroThr: dp.ZeroThreshold,
			PosOff: dp.PositiveBucket.Offset, Pos: append([]uint64{}, dp.PositiveBucket.Counts...),
			NegOff: dp.NegativeBucket.Offset, Neg: append([]uint64{}, dp.NegativeBucket.Counts...), Exemplars: len(dp.Exemplars)}
		if v, ok := dp.Min.Value(); ok {
			p.HasMin, p.Min = true, toNum(v)
		}
		if v, ok := dp.Max.Value(); ok {
			p.HasMax, p.Max = true, toNum(v)
		}
		s.put(name, se, dp.Attributes, p)
	}
}

func (w *world) takeSnap(rm *metricdata.ResourceMetrics) *snap {
	s := &snap{Series: map[string]*series{}, Slot: map[string][2]int{}}
	for si, sm := range rm.ScopeMetrics {
		scope, ok := w.scopeIdx[scopeID(ScopeSpec{Name: sm.Scope.Name, Version: sm.Scope.Version, Schema: sm.Scope.SchemaURL, Attrs: fromSet(sm.Scope.Attributes)})]
		if !ok {
			s.problem("unknown_scope", "output names scope %+v, which no meter was obtained for", sm.Scope)
			continue
		}
		for mi, m := range sm.Metrics {
			// the stream's full identity; the fixed instruments go by their bare name
			m.Name = streamName(m.Name, scope, m.Unit, m.Description)
			s.Slot[m.Name] = [2]int{si, mi}
			switch d := m.Data.(type) {
			case metricdata.Sum[int64]:
				numPoints(s, m.Name, s.add(m.Name, "sum", d.Temporality), d.DataPoints)
			case metricdata.Sum[float64]:
				numPoints(s, m.Name, s.add(m.Name, "sum", d.Temporality), d.DataPoints)
			case metricdata.Gauge[int64]:
				numPoints(s, m.Name, s.add(m.Name, "gauge", 0), d.DataPoints)
			case metricdata.Gauge[float64]:
				numPoints(s, m.Name, s.add(m.Name, "gauge", 0), d.DataPoints)
			case metricdata.Histogram[int64]:
				histPoints(s, m.Name, s.add(m.Name, "hist", d.Temporality, false), d.DataPoints)
			case metricdata.Histogram[float64]:
				histPoints(s, m.Name, s.add(m.Name, "hist", d.Temporality, true), d.DataPoints)
			case metricdata.ExponentialHistogram[int64]:
				expoPoints(s, m.Name, s.add(m.Name, "expo", d.Temporality), d.DataPoints)
			case metricdata.ExponentialHistogram[float64]:
				expoPoints(s, m.Name, s.add(m.Name, "expo", d.Temporality), d.DataPoints)
			default:
				s.problem("unexpected_data_type", "metric %q has data of type %T", m.Name, m.Data)
			}
		}
	}
	return s
}

// measOpts spells "attribute set #set" as measurement options. Spelling 0 is
// WithAttributeSet for a synchronous measurement and WithAttributes for an
// observation, 1 the other of the two, 2 the attributes split over two
// options, 3 a first option that gives the first key another value and a
// second option that overrides it (metric.WithAttributeSet: "merged together
// in the order they are passed. Attributes with duplicate keys will use the
// last value passed").
func measOpts(set, sp int, sync bool) []metric.MeasurementOption {
	kvs := setPool[set]
	asSet := func(kvs []attribute.KeyValue) metric.MeasurementOption {
		return metric.WithAttributeSet(attribute.NewSet(append([]attribute.KeyValue{}, kvs...)...))
	}
	asList := func(kvs []attribute.KeyValue) metric.MeasurementOption {
		return metric.WithAttributes(append(make([]attribute.KeyValue, 0, len(kvs)+2), kvs...)...)
	}
	switch sp {
	case 1:
		sync = !sync
	case 2:
		h := (len(kvs) + 1) / 2
		return []metric.MeasurementOption{asList(kvs[:h]), asSet(kvs[h:])}
	case 3:
		if len(kvs) == 0 {
			return []metric.MeasurementOption{asList(nil), asSet(nil)}
		}
		return []metric.MeasurementOption{asList([]attribute.KeyValue{attribute.String(string(kvs[0].Key), "overridden")}), asSet(kvs)}
	}
	if sync {
		return []metric.MeasurementOption{asSet(kvs)}
	}
	return []metric.MeasurementOption{asList(kvs)}
}

func addOpts(set, sp int, sync bool) []metric.AddOption {
	var out []metric.AddOption
	for _, o := range measOpts(set, sp, sync) {
		out = append(out, o)
	}
	return out
}

func recOpts(set, sp int, sync bool) []metric.RecordOption {
	var out []metric.RecordOption
	for _, o := range measOpts(set, sp, sync) {
		out = append(out, o)
	}
	return out
}

func obsOpts(set, sp int, sync bool) []metric.ObserveOption {
	var out []metric.ObserveOption
	for _, o := range measOpts(set, sp, sync) {
		out = append(out, o)
	}
	return out
}

func fromSet(set attribute.Set) []vk.KV {
	var out []vk.KV
	for _, kv := range set.ToSlice() {
		out = append(out, vk.FromAttr(kv))
	}
	return out
}

// ---------------------------------------------------------------------
// executing a history

type bracket struct{ Before, After time.Time }

// cycle is everything known about one collection point of the history: a
// collectBoth step, or one of the N serialised collections of a "burst" step
// (N concurrent Collect calls on one reader; the other reader's single
// collection of that step is attached to the first of the N cycles, all of
// them being taken at the same point of the measurement history). A reader
// that did not collect in the cycle has a nil snapshot.
type cycle struct {
	// model
	ObservedD []map[int]num   // per observable instrument: set -> value the delta reader's callback round observes
	ObservedC []map[int]num   // the same for the cumulative reader's round
	Plan      [][]Obs         // observation plan in force
	Recorded  []map[int][]num // per sync instrument: set -> values recorded since the previous collection point
	// GaugeLast: per sync instrument: set -> the values one of which is "the
	// last value recorded" when the stream's most recent records were made by
	// several goroutines at once (the last record of each of them); absent:
	// the last element of Recorded.
	GaugeLast []map[int][]num
	// Volley: per sync instrument: set -> largest number of goroutines that
	// recorded to the stream in one concurrent-record step of the cycle;
	// VolleyFirst: the stream had not been recorded in the cycle before that step.
	Volley      []map[int]int
	VolleyFirst []map[int]bool
	// Racing: per sync instrument: sets measured by goroutines that ran at the
	// same time as this cycle's two Collect calls ("rcol" step): each of those
	// measurements belongs to this cycle or to the next one, per reader.
	Racing    []map[int]bool
	DeltaScr  int // kinds of slices the consumer wrote over in the reader's output (scr* bits actually reached)
	CumScr    int
	RanMulti  []bool      // multi callback slot registered (hence run) in this cycle
	StrayObs  bool        // some callback observed an instrument it is not registered for
	Failed    bool        // some callback that ran in this cycle returned an error
	FailMode  map[int]int // callback id -> mode in force
	Burst     string      // "": collectBoth; "d" / "c": part of a concurrent step on that reader
	BurstPos  int         // position within the burst (0-based, serial order)
	DeltaBr   bracket
	CumBr     bracket
	Delta     *snap
	Cum       *snap
	DeltaErr  error
	CumErr    error
	deltaRM   *metricdata.ResourceMetrics // retained outputs (only when a fresh ResourceMetrics was used)
	cumRM     *metricdata.ResourceMetrics
	DeltaRMIs string // fresh | own | pool<k>
	CumRMIs   string
	Handover  bool  // a reader was given a ResourceMetrics last filled by the other reader
	DeltaLate *snap // the retained outputs read again at the end of the history
	CumLate   *snap
}

type world struct {
	c          Case
	plan       [][]Obs // current observation plan per observable instrument
	registered []bool
	regs       []metric.Registration
	regErrs    []string

	iSync []func(context.Context, int64, int, int) // value, attribute set, spelling of the options
	fSync []func(context.Context, float64, int, int)
	// iPrep / fPrep build the options now and return the bare measurement call
	// (concurrent-record steps: nothing but the call runs behind the barrier).
	iPrep []func(context.Context, int64, int, int) func()
	fPrep []func(context.Context, float64, int, int) func()
	iObs  []metric.Int64Observable
	fObs  []metric.Float64Observable

	sdefs    []sdef // every sync instrument of the case: the fixed ones, then the twins
	odefs    []odef
	scopes   []ScopeSpec    // scope table: "c08", "c08b", Case.Scopes...
	alias    []int          // scope index -> first scope of the same identity
	scopeIdx map[string]int // scopeID -> index

	mp        *sdkmetric.MeterProvider
	meters    []metric.Meter // per scope, obtained at first use
	syncBr    []bracket      // creation bracket of each sync instrument
	createdAt []int          // number of collections that preceded its creation (-1: not created)
	obsBr     bracket        // creation bracket of the observable instruments
	scopeAt   []int          // number of collections that preceded the first instrument of the scope (-1: none yet)
	cycles    []*cycle
	ambiguous bool // the serial order of some burst's outputs could not be told from their timestamps

	// callback behaviour
	failMode    map[int]int // callback id -> 0 ok, 1 return an error before observing, 2 observe then return an error
	failLeft    map[int]int // callback id -> collection steps the mode still lasts (0: no limit)
	mu          sync.Mutex
	inBurst     bool
	delay       int             // vk.Perturb kind executed inside observing callbacks during a burst
	inv         map[int]int     // callback id -> invocations during the running burst
	pending     []map[int][]num // records of the running cycle
	gaugeLast   []map[int][]num
	volley      []map[int]int
	volleyFirst []map[int]bool
	racing      []map[int]bool
	everRec     map[[2]int]bool // streams recorded at least once so far
	firstEver   bool            // some concurrent-record step made the first measurements ever of a stream from >= 2 goroutines
}

// resetPending starts the records of a new cycle.
func (w *world) resetPending() {
	n := len(w.sdefs)
	w.pending, w.gaugeLast = make([]map[int][]num, n), make([]map[int][]num, n)
	w.volley, w.volleyFirst, w.racing = make([]map[int]int, n), make([]map[int]bool, n), make([]map[int]bool, n)
	for i := 0; i < n; i++ {
		w.pending[i], w.gaugeLast[i] = map[int][]num{}, map[int][]num{}
		w.volley[i], w.volleyFirst[i], w.racing[i] = map[int]int{}, map[int]bool{}, map[int]bool{}
	}
}

func (w *world) validSet(s int) bool { return s >= 0 && s < w.c.NSets && s < maxSets }

// intValue is the int64 an int64 instrument receives for a case value: the
// (integral) float part plus the exact int64 part.
func intValue(v vk.F64, i int64) int64 { return int64(float64(v)) + i }

// modelValue is the value the instrument actually receives.
func modelValue(v vk.F64, i int64, float bool) num {
	if float {
		return floatNum(float64(v))
	}
	return intNum(intValue(v, i))
}

// sanitizePlan keeps the first entry per attribute set and drops entries
// that name no valid set (the generator never produces either).
func (w *world) sanitizePlan(in []Obs) []Obs {
	seen := map[int]bool{}
	var out []Obs
	for _, e := range in {
		if !w.validSet(e.Set) || seen[e.Set] || e.Via < 0 {
			continue
		}
		seen[e.Set] = true
		out = append(out, e)
	}
	return out
}

var errPlanned = errors.New("c08: planned callback failure")

// callback ids: observable instrument i -> i, multi slot j -> 100+j.
func multiID(j int) int { return 100 + j }

// tri is what a callback adds to every planned value in its k-th invocation
// of a burst: 0, 1, 3, 6 (distinct values and distinct successive differences,
// so that both cumulative and delta outputs tell the rounds apart).
func tri(k int) int { return (k - 1) * k / 2 }

// enter is called at the start of a callback invocation: it returns the
// offset of this invocation's observations, the failure mode and the delay.
func (w *world) enter(id int) (off, mode, delay int) {
	w.mu.Lock()
	defer w.mu.Unlock()
	mode = w.failMode[id]
	if w.inBurst {
		w.inv[id]++
		off, delay = tri(w.inv[id]), w.delay
	}
	return off, mode, delay
}

func (w *world) instCallbackI(i int) metric.Int64Callback {
	return func(_ context.Context, o metric.Int64Observer) error {
		off, mode, delay := w.enter(i)
		if mode == 1 {
			return errPlanned
		}
		first := true
		for _, e := range w.plan[i] {
			if e.Via == 0 {
				o.Observe(intValue(e.V, e.I)+int64(off), obsOpts(e.Set, e.Sp, false)...)
				if first {
					vk.Perturb(delay)
					first = false
				}
			}
		}
		if mode == 2 {
			return errPlanned
		}
		return nil
	}
}

func (w *world) instCallbackF(i int) metric.Float64Callback {
	return func(_ context.Context, o metric.Float64Observer) error {
		off, mode, delay := w.enter(i)
		if mode == 1 {
			return errPlanned
		}
		first := true
		for _, e := range w.plan[i] {
			if e.Via == 0 {
				o.Observe(float64(e.V)+float64(off), obsOpts(e.Set, e.Sp, false)...)
				if first {
					vk.Perturb(delay)
					first = false
				}
			}
		}
		if mode == 2 {
			return errPlanned
		}
		return nil
	}
}

// multiCallback observes every planned entry addressed to slot j, whether or
// not the instrument is in the slot's registration list.
func (w *world) multiCallback(j int) metric.Callback {
	return func(_ context.Context, o metric.Observer) error {
		off, mode, delay := w.enter(multiID(j))
		if mode == 1 {
			return errPlanned
		}
		first := true
		for i, d := range w.odefs {
			for _, e := range w.plan[i] {
				if e.Via != j+1 {
					continue
				}
				if d.float {
					o.ObserveFloat64(w.fObs[i], float64(e.V)+float64(off), obsOpts(e.Set, e.Sp, false)...)
				} else {
					o.ObserveInt64(w.iObs[i], intValue(e.V, e.I)+int64(off), obsOpts(e.Set, e.Sp, false)...)
				}
				if first {
					vk.Perturb(delay)
					first = false
				}
			}
		}
		if mode == 2 {
			return errPlanned
		}
		return nil
	}
}

// observedNow evaluates the model of what the callbacks observe in their
// round-th invocation (round 1 outside bursts): a callback in mode 1 observes
// nothing, one in mode 2 observes everything before it fails.
func (w *world) observedNow(round int) (obs []map[int]num, stray, failed bool) {
	obs = make([]map[int]num, len(w.odefs))
	off := num{i: int64(tri(round)), f: float64(tri(round))} // added on both sides; the instrument's type decides
	for i, d := range w.odefs {
		obs[i] = map[int]num{}
		if w.failMode[i] != 0 {
			failed = true
		}
		for _, e := range w.plan[i] {
			switch {
			case e.Via == 0:
				if w.failMode[i] != 1 {
					obs[i][e.Set] = modelValue(e.V, e.I, d.float).add(off)
				}
			case e.Via-1 < len(w.registered) && w.registered[e.Via-1]:
				if w.failMode[multiID(e.Via-1)] == 1 {
					continue
				}
				if w.listed(e.Via-1, i) {
					obs[i][e.Set] = modelValue(e.V, e.I, d.float).add(off)
				} else {
					stray = true
				}
			}
		}
	}
	for j, r := range w.registered {
		if r && w.failMode[multiID(j)] != 0 {
			failed = true
		}
	}
	return obs, stray, failed
}

func deltaSelector(sdkmetric.InstrumentKind) metricdata.Temporality {
	return metricdata.DeltaTemporality
}

func cumulativeSelector(sdkmetric.InstrumentKind) metricdata.Temporality {
	return metricdata.CumulativeTemporality
}

func (w *world) fail(format string, a ...any) {
	w.regErrs = append(w.regErrs, fmt.Sprintf(format, a...))
}

// execute runs the history and returns the recorded cycles.
func execute(c Case) *world {
	ctx := context.Background()
	w := &world{c: c}
	w.sdefs, w.odefs = instruments(c)
	w.scopes, w.alias = scopeTable(c)
	w.scopeIdx = map[string]int{}
	for i, sc := range w.scopes {
		if w.alias[i] == i {
			w.scopeIdx[scopeID(sc)] = i
		}
	}
	w.meters = make([]metric.Meter, len(w.scopes))
	if w.c.NSets > maxSets {
		w.c.NSets = maxSets
	}
	if len(w.c.Multi) > maxMulti {
		w.c.Multi = w.c.Multi[:maxMulti]
	}
	w.failMode, w.failLeft, w.inv = map[int]int{}, map[int]int{}, map[int]int{}
	w.plan = make([][]Obs, len(w.odefs))
	w.registered = make([]bool, len(w.c.Multi))
	w.regs = make([]metric.Registration, len(w.c.Multi))
	newPending := func() []map[int][]num {
		p := make([]map[int][]num, len(w.sdefs))
		for i := range p {
			p[i] = map[int][]num{}
		}
		return p
	}
	w.resetPending()
	w.everRec = map[[2]int]bool{}

	maxSize := int32(w.c.ExpoMaxSize)
	if maxSize < 3 {
		maxSize = 160
	}
	deltaR := sdkmetric.NewManualReader(sdkmetric.WithTemporalitySelector(deltaSelector))
	cumR := sdkmetric.NewManualReader(sdkmetric.WithTemporalitySelector(cumulativeSelector))
	opts := []sdkmetric.Option{
		sdkmetric.WithResource(resource.Empty()),
		sdkmetric.WithView(sdkmetric.NewView(
			sdkmetric.Instrument{Name: "xhist_*"},
			sdkmetric.Stream{Aggregation: sdkmetric.AggregationBase2ExponentialHistogram{MaxSize: maxSize, MaxScale: 20}},
		)),
	}
	viewed := map[int]bool{}
	for _, d := range syncDefs {
		if d.bsrc == bView && !viewed[d.bidx] {
			viewed[d.bidx] = true
			opts = append(opts, sdkmetric.WithView(sdkmetric.NewView(
				sdkmetric.Instrument{Name: d.name[:len(d.name)-1] + "*"}, // vhist_*
				sdkmetric.Stream{Aggregation: sdkmetric.AggregationExplicitBucketHistogram{Boundaries: w.c.bounds(d.bidx)}},
			)))
		}
	}
	if w.c.ProvCumFirst {
		opts = append(opts, sdkmetric.WithReader(cumR), sdkmetric.WithReader(deltaR))
	} else {
		opts = append(opts, sdkmetric.WithReader(deltaR), sdkmetric.WithReader(cumR))
	}
	mp := sdkmetric.NewMeterProvider(opts...)
	defer func() { _ = mp.Shutdown(ctx) }()
	w.mp = mp
	w.scopeAt = make([]int, len(w.scopes))
	for i := range w.scopeAt {
		w.scopeAt[i] = -1
	}

	// ---- sync instruments: up front unless the case lists them as late ----
	w.iSync = make([]func(context.Context, int64, int, int), len(w.sdefs))
	w.fSync = make([]func(context.Context, float64, int, int), len(w.sdefs))
	w.iPrep = make([]func(context.Context, int64, int, int) func(), len(w.sdefs))
	w.fPrep = make([]func(context.Context, float64, int, int) func(), len(w.sdefs))
	w.syncBr = make([]bracket, len(w.sdefs))
	w.createdAt = make([]int, len(w.sdefs))
	for i := range w.sdefs {
		w.createdAt[i] = -1
		if !contains(w.c.Late, i) {
			w.createSync(i)
		}
	}

	// ---- observable instruments: all up front, inside one bracket ----
	w.iObs = make([]metric.Int64Observable, len(w.odefs))
	w.fObs = make([]metric.Float64Observable, len(w.odefs))
	w.obsBr.Before = time.Now()
	order := seq(len(w.odefs))
	if w.c.TwinsFirst {
		order = append(order[len(obsDefs):], order[:len(obsDefs)]...)
	}
	for _, i := range order {
		w.makeObs(i, w.scopeMeter(w.odefs[i].scope), true)
		if sc := w.odefs[i].scope; w.scopeAt[sc] < 0 {
			w.scopeAt[sc] = 0
		}
	}
	w.obsBr.After = time.Now()

	// ---- the history ----
	var deltaRM, cumRM metricdata.ResourceMetrics // the readers' own reused outputs
	var pool [rmPool]metricdata.ResourceMetrics   // shared slots
	var poolLast [rmPool]*sdkmetric.ManualReader  // who filled the slot last
	collect := func(r *sdkmetric.ManualReader, own *metricdata.ResourceMetrics, slot, scr, style int) (rm *metricdata.ResourceMetrics, sn *snap, br bracket, err error, is string, handover bool, reached int) {
		switch {
		case slot >= 1 && slot <= rmPool:
			rm, is = &pool[slot-1], fmt.Sprintf("pool%d", slot)
			handover = poolLast[slot-1] != nil && poolLast[slot-1] != r
			poolLast[slot-1] = r
		case w.c.Reuse:
			rm, is = own, "own"
		default:
			rm, is = &metricdata.ResourceMetrics{}, "fresh"
		}
		br.Before = time.Now()
		err = r.Collect(ctx, rm)
		br.After = time.Now()
		sn = w.takeSnap(rm)
		// the consumer has read the data (sn); now it may write over it
		reached = scribble(rm, scr, style)
		if is != "fresh" || reached != 0 {
			rm = nil // will be overwritten / was overwritten by its owner; nothing to re-read later
		}
		return rm, sn, br, err, is, handover, reached
	}
	steps := w.c.Ops
	if len(steps) > maxSteps {
		steps = steps[:maxSteps]
	}
	for _, op := range steps {
		switch op.K {
		case "rec":
			if op.Inst < 0 || op.Inst >= len(w.sdefs) || !w.validSet(op.Set) {
				continue
			}
			d := w.sdefs[op.Inst]
			if w.createdAt[op.Inst] < 0 {
				w.createSync(op.Inst)
			}
			if op.Again {
				// the same instrument obtained once more (from the meter obtained
				// once more): measurements through either handle are the instrument's
				w.makeSync(op.Inst, w.freshMeter(d.scope))
			}
			if d.float {
				w.fSync[op.Inst](ctx, float64(op.V), op.Set, op.Sp)
			} else {
				w.iSync[op.Inst](ctx, intValue(op.V, op.I), op.Set, op.Sp)
			}
			w.pending[op.Inst][op.Set] = append(w.pending[op.Inst][op.Set], modelValue(op.V, op.I, d.float))
			delete(w.gaugeLast[op.Inst], op.Set)
			w.everRec[[2]int{op.Inst, op.Set}] = true
		case "crec":
			w.concurrentRecords(ctx, op)
		case "rcol":
			// records during collection: the recording goroutines and the two
			// Collect calls (each into a fresh ResourceMetrics) start together.
			var d, c struct {
				rm  *metricdata.ResourceMetrics
				br  bracket
				err error
			}
			w.concurrentRecords(ctx, op, func() {
				d.rm = &metricdata.ResourceMetrics{}
				d.br.Before = time.Now()
				d.err = deltaR.Collect(ctx, d.rm)
				d.br.After = time.Now()
			}, func() {
				c.rm = &metricdata.ResourceMetrics{}
				c.br.Before = time.Now()
				c.err = cumR.Collect(ctx, c.rm)
				c.br.After = time.Now()
			})
			cy := w.newCycle(1, 1)
			cy.Racing = w.racing
			cy.deltaRM, cy.Delta, cy.DeltaBr, cy.DeltaErr, cy.DeltaRMIs = d.rm, w.takeSnap(d.rm), d.br, d.err, "fresh"
			cy.cumRM, cy.Cum, cy.CumBr, cy.CumErr, cy.CumRMIs = c.rm, w.takeSnap(c.rm), c.br, c.err, "fresh"
			w.cycles = append(w.cycles, cy)
			w.resetPending()
			w.stepDone()
		case "plan":
			if op.Inst < 0 || op.Inst >= len(w.odefs) {
				continue
			}
			w.plan[op.Inst] = w.sanitizePlan(op.Plan)
		case "reg":
			if op.CB < 0 || op.CB >= len(w.c.Multi) || w.registered[op.CB] {
				continue
			}
			var insts []metric.Observable
			regMeter := w.scopeMeter(w.c.slotScope(op.CB, w.alias))
			if op.Again {
				regMeter = w.freshMeter(w.c.slotScope(op.CB, w.alias))
			}
			for _, i := range w.c.Multi[op.CB] {
				if !w.listed(op.CB, i) { // no such instrument, or one of another meter
					continue
				}
				if op.Again {
					w.makeObs(i, regMeter, false)
				}
				if w.odefs[i].float {
					insts = append(insts, w.fObs[i])
				} else {
					insts = append(insts, w.iObs[i])
				}
			}
			if len(insts) == 0 {
				continue
			}
			reg, err := regMeter.RegisterCallback(w.multiCallback(op.CB), insts...)
			if err != nil {
				w.fail("RegisterCallback slot %d: %v", op.CB, err)
				continue
			}
			w.regs[op.CB], w.registered[op.CB] = reg, true
		case "unreg":
			if op.CB < 0 || op.CB >= len(w.c.Multi) || !w.registered[op.CB] {
				continue
			}
			if err := w.regs[op.CB].Unregister(); err != nil {
				w.fail("Unregister slot %d: %v", op.CB, err)
			}
			w.regs[op.CB], w.registered[op.CB] = nil, false
		case "fail":
			id := -1
			switch {
			case op.Via == 0 && op.Inst >= 0 && op.Inst < len(w.odefs):
				id = op.Inst
			case op.Via >= 1 && op.Via <= len(w.c.Multi):
				id = multiID(op.Via - 1)
			}
			if id >= 0 && op.Mode >= 0 {
				w.failMode[id] = op.Mode % 3
				w.failLeft[id] = op.N // 0: until changed by another "fail" step
			}
		case "collect":
			cy := w.newCycle(1, 1)
			var h1, h2 bool
			if op.CumFirst {
				cy.cumRM, cy.Cum, cy.CumBr, cy.CumErr, cy.CumRMIs, h1, cy.CumScr = collect(cumR, &cumRM, op.CRM, op.CScr, op.Style)
				cy.deltaRM, cy.Delta, cy.DeltaBr, cy.DeltaErr, cy.DeltaRMIs, h2, cy.DeltaScr = collect(deltaR, &deltaRM, op.DRM, op.DScr, op.Style)
			} else {
				cy.deltaRM, cy.Delta, cy.DeltaBr, cy.DeltaErr, cy.DeltaRMIs, h1, cy.DeltaScr = collect(deltaR, &deltaRM, op.DRM, op.DScr, op.Style)
				cy.cumRM, cy.Cum, cy.CumBr, cy.CumErr, cy.CumRMIs, h2, cy.CumScr = collect(cumR, &cumRM, op.CRM, op.CScr, op.Style)
			}
			cy.Handover = h1 || h2
			w.cycles = append(w.cycles, cy)
			w.resetPending()
			w.stepDone()
		case "burst":
			// N concurrent Collect calls on one reader (each into its own fresh
			// ResourceMetrics), one ordinary Collect on the other reader before
			// or after them; no measurement in between.
			n := op.N
			if n < 2 {
				n = 2
			}
			if n > 3 {
				n = 3
			}
			burstR, otherR := deltaR, cumR
			if op.R == "c" {
				burstR, otherR = cumR, deltaR
			}
			type out struct {
				rm  *metricdata.ResourceMetrics
				sn  *snap
				br  bracket
				err error
				scr int
			}
			one := func(r *sdkmetric.ManualReader) out {
				o := out{rm: &metricdata.ResourceMetrics{}}
				o.br.Before = time.Now()
				o.err = r.Collect(ctx, o.rm)
				o.br.After = time.Now()
				o.sn = w.takeSnap(o.rm)
				return o
			}
			first := w.newCycle(1, 1) // carries the records and the other reader's collection
			var other out
			if op.CumFirst {
				other = one(otherR)
			}
			outs := make([]out, n)
			w.mu.Lock()
			w.inBurst, w.delay, w.inv = true, op.Delay, map[int]int{}
			w.mu.Unlock()
			vk.Parallel(n, func(g int) { outs[g] = one(burstR) })
			w.mu.Lock()
			w.inBurst, w.delay = false, 0
			w.mu.Unlock()
			if !op.CumFirst {
				other = one(otherR)
			}
			// every output has been read (snapshots); the consumer may now write
			// over what it was handed
			burstScr, otherScr := op.DScr, op.CScr
			if burstR == cumR {
				burstScr, otherScr = op.CScr, op.DScr
			}
			for g := range outs {
				if outs[g].scr = scribble(outs[g].rm, burstScr, op.Style); outs[g].scr != 0 {
					outs[g].rm = nil
				}
			}
			if other.scr = scribble(other.rm, otherScr, op.Style); other.scr != 0 {
				other.rm = nil
			}
			// serial order of the burst's outputs: by the earliest point Time;
			// outputs without points last.
			when := func(o out) (time.Time, bool) {
				var t time.Time
				ok := false
				for _, se := range o.sn.Series {
					for _, p := range se.Pts {
						if !ok || p.Time.Before(t) {
							t, ok = p.Time, true
						}
					}
				}
				return t, ok
			}
			sort.SliceStable(outs, func(a, b int) bool {
				ta, oka := when(outs[a])
				tb, okb := when(outs[b])
				if oka != okb {
					return oka
				}
				return oka && ta.Before(tb)
			})
			for g := 1; g < n; g++ {
				ta, oka := when(outs[g-1])
				tb, okb := when(outs[g])
				if oka && okb && ta.Equal(tb) {
					w.ambiguous = true
				}
			}
			// The serial position of an output without points cannot be told,
			// so every collection of the burst is bracketed by the whole burst.
			hull := outs[0].br
			for _, o := range outs[1:] {
				if o.br.Before.Before(hull.Before) {
					hull.Before = o.br.Before
				}
				if o.br.After.After(hull.After) {
					hull.After = o.br.After
				}
			}
			for g := range outs {
				outs[g].br = hull
			}
			for g := 0; g < n; g++ {
				cy := first
				if g > 0 {
					cy = w.newCycle(g+1, g+1)
					cy.Recorded = newPending()
					cy.GaugeLast, cy.Volley, cy.VolleyFirst = nil, nil, nil
				}
				cy.Burst, cy.BurstPos = op.R, g
				if cy.Burst != "c" {
					cy.Burst = "d"
				}
				if burstR == deltaR {
					cy.deltaRM, cy.Delta, cy.DeltaBr, cy.DeltaErr, cy.DeltaRMIs, cy.DeltaScr = outs[g].rm, outs[g].sn, outs[g].br, outs[g].err, "fresh", outs[g].scr
					cy.ObservedC = nil
				} else {
					cy.cumRM, cy.Cum, cy.CumBr, cy.CumErr, cy.CumRMIs, cy.CumScr = outs[g].rm, outs[g].sn, outs[g].br, outs[g].err, "fresh", outs[g].scr
					cy.ObservedD = nil
				}
				if g == 0 {
					if otherR == deltaR {
						cy.deltaRM, cy.Delta, cy.DeltaBr, cy.DeltaErr, cy.DeltaRMIs, cy.DeltaScr = other.rm, other.sn, other.br, other.err, "fresh", other.scr
						cy.ObservedD, _, _ = w.observedNow(1)
					} else {
						cy.cumRM, cy.Cum, cy.CumBr, cy.CumErr, cy.CumRMIs, cy.CumScr = other.rm, other.sn, other.br, other.err, "fresh", other.scr
						cy.ObservedC, _, _ = w.observedNow(1)
					}
				}
				w.cycles = append(w.cycles, cy)
			}
			w.resetPending()
			w.stepDone()
		}
	}
	// Outputs handed out earlier, read again now that the history is over.
	for _, cy := range w.cycles {
		if cy.deltaRM != nil {
			cy.DeltaLate = w.takeSnap(cy.deltaRM)
		}
		if cy.cumRM != nil {
			cy.CumLate = w.takeSnap(cy.cumRM)
		}
	}
	for j, r := range w.regs {
		if r != nil && w.registered[j] {
			_ = r.Unregister()
		}
	}
	return w
}

// listed: instrument i is one multi callback slot j is registered for (it is
// in the slot's list and belongs to the slot's meter).
func (w *world) listed(j, i int) bool {
	return j >= 0 && j < len(w.c.Multi) && i >= 0 && i < len(w.odefs) && contains(w.c.Multi[j], i) &&
		w.odefs[i].scope == w.c.slotScope(j, w.alias)
}

func (w *world) scopeMeter(scope int) metric.Meter {
	scope = w.alias[scope]
	if w.meters[scope] == nil {
		w.meters[scope] = w.freshMeter(scope)
	}
	return w.meters[scope]
}

// freshMeter asks the provider for the scope's meter (once more).
func (w *world) freshMeter(scope int) metric.Meter {
	sc := w.scopes[w.alias[scope]]
	var opts []metric.MeterOption
	if sc.Version != "" {
		opts = append(opts, metric.WithInstrumentationVersion(sc.Version))
	}
	if sc.Schema != "" {
		opts = append(opts, metric.WithSchemaURL(sc.Schema))
	}
	if len(sc.Attrs) > 0 {
		opts = append(opts, metric.WithInstrumentationAttributes(vk.ToAttrs(sc.Attrs)...))
	}
	return w.mp.Meter(sc.Name, opts...)
}

// createSync creates sync instrument i (its meter too, at first use of the
// scope) and notes the wall-clock bracket and the position in the history.
func (w *world) createSync(i int) {
	d := w.sdefs[i]
	w.syncBr[i].Before = time.Now()
	w.makeSync(i, w.scopeMeter(d.scope))
	w.syncBr[i].After = time.Now()
	w.createdAt[i] = len(w.cycles)
	if w.scopeAt[d.scope] < 0 {
		w.scopeAt[d.scope] = len(w.cycles)
	}
}

// makeObs obtains observable instrument i from meter m - with its own
// callback when it is created, without one when it is obtained once more
// ("only the first set of callbacks provided are used") - and makes it the
// handle that callbacks observe and are registered with.
func (w *world) makeObs(i int, m metric.Meter, own bool) {
	d := w.odefs[i]
	var err error
	io := []metric.Int64ObservableOption{metric.WithUnit(d.unit), metric.WithDescription(d.desc)}
	fo := []metric.Float64ObservableOption{metric.WithUnit(d.unit), metric.WithDescription(d.desc)}
	if own {
		io = append(io, metric.WithInt64Callback(w.instCallbackI(i)))
		fo = append(fo, metric.WithFloat64Callback(w.instCallbackF(i)))
	}
	switch {
	case d.kind == oCounter && !d.float:
		opts := make([]metric.Int64ObservableCounterOption, len(io))
		for k, o := range io {
			opts[k] = o
		}
		w.iObs[i], err = m.Int64ObservableCounter(d.name, opts...)
	case d.kind == oCounter:
		opts := make([]metric.Float64ObservableCounterOption, len(fo))
		for k, o := range fo {
			opts[k] = o
		}
		w.fObs[i], err = m.Float64ObservableCounter(d.name, opts...)
	case d.kind == oUpDown && !d.float:
		opts := make([]metric.Int64ObservableUpDownCounterOption, len(io))
		for k, o := range io {
			opts[k] = o
		}
		w.iObs[i], err = m.Int64ObservableUpDownCounter(d.name, opts...)
	case d.kind == oUpDown:
		opts := make([]metric.Float64ObservableUpDownCounterOption, len(fo))
		for k, o := range fo {
			opts[k] = o
		}
		w.fObs[i], err = m.Float64ObservableUpDownCounter(d.name, opts...)
	case !d.float:
		opts := make([]metric.Int64ObservableGaugeOption, len(io))
		for k, o := range io {
			opts[k] = o
		}
		w.iObs[i], err = m.Int64ObservableGauge(d.name, opts...)
	default:
		opts := make([]metric.Float64ObservableGaugeOption, len(fo))
		for k, o := range fo {
			opts[k] = o
		}
		w.fObs[i], err = m.Float64ObservableGauge(d.name, opts...)
	}
	if err != nil {
		w.fail("creating %s: %v", d.key, err)
	}
}

// makeSync obtains sync instrument i from meter m and makes it the handle the
// history records through.
func (w *world) makeSync(i int, m metric.Meter) {
	d := w.sdefs[i]
	var hopts []metric.HistogramOption
	if d.kind == kHist && d.bsrc == bAdvisory {
		hopts = append(hopts, metric.WithExplicitBucketBoundaries(w.c.bounds(d.bidx)...))
	}
	var err error
	switch {
	case d.kind == kCounter && !d.float:
		var in metric.Int64Counter
		in, err = m.Int64Counter(d.name, metric.WithUnit(d.unit), metric.WithDescription(d.desc))
		w.iSync[i] = func(ctx context.Context, v int64, s, sp int) { in.Add(ctx, v, addOpts(s, sp, true)...) }
		w.iPrep[i] = func(ctx context.Context, v int64, s, sp int) func() {
			o := addOpts(s, sp, true)
			return func() { in.Add(ctx, v, o...) }
		}
	case d.kind == kCounter:
		var in metric.Float64Counter
		in, err = m.Float64Counter(d.name, metric.WithUnit(d.unit), metric.WithDescription(d.desc))
		w.fSync[i] = func(ctx context.Context, v float64, s, sp int) { in.Add(ctx, v, addOpts(s, sp, true)...) }
		w.fPrep[i] = func(ctx context.Context, v float64, s, sp int) func() {
			o := addOpts(s, sp, true)
			return func() { in.Add(ctx, v, o...) }
		}
	case d.kind == kUpDown && !d.float:
		var in metric.Int64UpDownCounter
		in, err = m.Int64UpDownCounter(d.name, metric.WithUnit(d.unit), metric.WithDescription(d.desc))
		w.iSync[i] = func(ctx context.Context, v int64, s, sp int) { in.Add(ctx, v, addOpts(s, sp, true)...) }
		w.iPrep[i] = func(ctx context.Context, v int64, s, sp int) func() {
			o := addOpts(s, sp, true)
			return func() { in.Add(ctx, v, o...) }
		}
	case d.kind == kUpDown:
		var in metric.Float64UpDownCounter
		in, err = m.Float64UpDownCounter(d.name, metric.WithUnit(d.unit), metric.WithDescription(d.desc))
		w.fSync[i] = func(ctx context.Context, v float64, s, sp int) { in.Add(ctx, v, addOpts(s, sp, true)...) }
		w.fPrep[i] = func(ctx context.Context, v float64, s, sp int) func() {
			o := addOpts(s, sp, true)
			return func() { in.Add(ctx, v, o...) }
		}
	case (d.kind == kHist || d.kind == kExpo) && !d.float:
		var in metric.Int64Histogram
		io := []metric.Int64HistogramOption{metric.WithUnit(d.unit), metric.WithDescription(d.desc)}
		for _, o := range hopts {
			io = append(io, o)
		}
		in, err = m.Int64Histogram(d.name, io...)
		w.iSync[i] = func(ctx context.Context, v int64, s, sp int) { in.Record(ctx, v, recOpts(s, sp, true)...) }
		w.iPrep[i] = func(ctx context.Context, v int64, s, sp int) func() {
			o := recOpts(s, sp, true)
			return func() { in.Record(ctx, v, o...) }
		}
	case d.kind == kHist || d.kind == kExpo:
		var in metric.Float64Histogram
		fo := []metric.Float64HistogramOption{metric.WithUnit(d.unit), metric.WithDescription(d.desc)}
		for _, o := range hopts {
			fo = append(fo, o)
		}
		in, err = m.Float64Histogram(d.name, fo...)
		w.fSync[i] = func(ctx context.Context, v float64, s, sp int) { in.Record(ctx, v, recOpts(s, sp, true)...) }
		w.fPrep[i] = func(ctx context.Context, v float64, s, sp int) func() {
			o := recOpts(s, sp, true)
			return func() { in.Record(ctx, v, o...) }
		}
	case d.kind == kGauge && !d.float:
		var in metric.Int64Gauge
		in, err = m.Int64Gauge(d.name, metric.WithUnit(d.unit), metric.WithDescription(d.desc))
		w.iSync[i] = func(ctx context.Context, v int64, s, sp int) { in.Record(ctx, v, recOpts(s, sp, true)...) }
		w.iPrep[i] = func(ctx context.Context, v int64, s, sp int) func() {
			o := recOpts(s, sp, true)
			return func() { in.Record(ctx, v, o...) }
		}
	default:
		var in metric.Float64Gauge
		in, err = m.Float64Gauge(d.name, metric.WithUnit(d.unit), metric.WithDescription(d.desc))
		w.fSync[i] = func(ctx context.Context, v float64, s, sp int) { in.Record(ctx, v, recOpts(s, sp, true)...) }
		w.fPrep[i] = func(ctx context.Context, v float64, s, sp int) func() {
			o := recOpts(s, sp, true)
			return func() { in.Record(ctx, v, o...) }
		}
	}
	if err != nil {
		w.fail("creating %s: %v", d.key, err)
	}
}

// newCycle starts the model part of a cycle whose delta / cumulative callback
// rounds are the given invocation numbers.
func (w *world) newCycle(roundD, roundC int) *cycle {
	cy := &cycle{Recorded: w.pending, GaugeLast: w.gaugeLast, Volley: w.volley, VolleyFirst: w.volleyFirst, RanMulti: append([]bool{}, w.registered...), Plan: append([][]Obs{}, w.plan...)}
	cy.FailMode = map[int]int{}
	for id, m := range w.failMode {
		cy.FailMode[id] = m
	}
	cy.ObservedD, cy.StrayObs, cy.Failed = w.observedNow(roundD)
	cy.ObservedC, _, _ = w.observedNow(roundC)
	return cy
}

// failedAt: the strongest failure mode among the callbacks that observed
// instrument i in the cycle (classification only).
func (w *world) failedAt(cy *cycle, i int) int {
	m := 0
	for _, e := range cy.Plan[i] {
		id := i
		if e.Via >= 1 {
			id = multiID(e.Via - 1)
		}
		m = max(m, cy.FailMode[id])
	}
	return m
}

// stepDone ends a collection step: time-limited failure modes run out.
func (w *world) stepDone() {
	for id, left := range w.failLeft {
		if left > 0 {
			if left == 1 {
				w.failMode[id] = 0
			}
			w.failLeft[id] = left - 1
		}
	}
}
