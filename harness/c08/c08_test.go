// Package c08 decides property C08 (delta and cumulative views of the same
// measurements agree across collections).
//
// One sdkmetric.MeterProvider is read by two ManualReaders, one whose
// temporality selector answers Delta for every instrument kind and one that
// answers Cumulative. A generated history (<= 60 steps) records on
// synchronous instruments of every kind and both number types, changes what
// the callbacks of the observable instruments will observe, registers and
// unregisters multi-instrument callbacks and collects both readers back to
// back. The oracle relates the two readers to each other (running totals)
// and to a model of the history (what the callbacks observed in each cycle,
// the last gauge value of each cycle) and checks the interval structure of
// the reported points against wall-clock brackets taken by the harness.
//
// Readings of the statement (conservative where it is silent):
//
//   - Running totals are asserted for synchronous sums / histograms only. A
//     cumulative point is compared whenever it is reported; the cumulative
//     reader is required to report a stream in the cycle in which the delta
//     reader reports it (the measurement precedes both collections) but is
//     NOT required to keep reporting a stream that was not recorded in the
//     cycle (staleness policy, statement silent).
//   - Nothing is asserted about which synchronous streams the delta reader
//     omits, nor about what either reader reports for a synchronous gauge set
//     that was not recorded in the cycle.
//   - "each starts where the previous collection ended": the StartTime of
//     every delta point of collection k must lie inside the harness bracket
//     [before, after] of the delta reader's collection k-1, or, when the
//     instrument was created after that collection (or k = 1), inside the
//     bracket of the instrument's creation; it must equal the Time of the same
//     stream's point in collection k-1 when there is one. Gauge points handed out by the delta reader are held
//     to the same rule (their aggregator's start is part of the anchored
//     state); gauge points of the cumulative reader to "one fixed start".
//   - An observation made by a multi-instrument callback for an instrument
//     that is not in that callback's registration list is not an observation
//     (metric.Meter.RegisterCallback: "All other observations will be dropped").
//   - Observable counters may observe a smaller value than in the cycle before:
//     the statement defines the delta as the plain difference.
//   - The cardinality limit (experimental, environment driven) is left to C12.
//   - Exponential histograms: bucket counts are compared after re-binning both
//     sides to the coarsest scale involved (index >> scale difference), which
//     is exact for values that are not within 1e-6 index units (at scale 20)
//     of a bucket boundary; the generator only draws such values (exact
//     powers of two are boundaries and are left to C07), and a stream that
//     received any other value (hand-edited replay) skips the bucket clause.
//   - Numbers: int64 instruments (every kind, sync and observable) are
//     modelled, accumulated and compared in exact int64 arithmetic (type num),
//     with values around and beyond 2^53 (2^53, 2^53+1, 3*2^52, 2^60,
//     MaxInt64/4 ...) mixed with 1, 3, ... across cycles; at most three huge
//     values per synchronous stream keep the exact totals inside int64.
//     float64 instruments only receive exactly summable values (k/8, small
//     multiples of 2^-10) and are compared exactly as float64.
//   - A callback may return an error. What the unchanged tree does is pinned:
//     the observations it made before returning count (a callback that fails
//     before observing has observed nothing), Collect returns the error
//     together with the complete data, and the cycle counts for that reader
//     (its delta aggregates were drained). The error itself is not asserted;
//     a Collect error in a cycle without a failing callback is a violation.
//   - Concurrent Collect calls on one reader ("burst" step, Reader.Collect is
//     documented as concurrent safe): each of the N calls is one collection
//     cycle of that reader with its own callback round; the k-th invocation of
//     a callback during the step observes its planned values plus 0, 1, 3 for
//     k = 1, 2, 3, so that rounds are told apart in cumulative and in delta
//     outputs. The outputs are ordered by their earliest point Time (the
//     cycles are serialised by the pipeline lock, outputs without points
//     last) and then held to exactly the per-cycle rules of the statement:
//     output k reports the sets and values of round k, deltas against round
//     k-1, running totals over all of them. The other reader collects once at
//     the same point of the measurement history. Because the position of an
//     output without points cannot be told, each of the N collections is
//     bracketed by the whole step; if two outputs carry the same earliest
//     Time the interval and async clauses are skipped for the history
//     (counted as a class; never seen).
//   - Any ResourceMetrics is legal input to Collect: a fresh one, the one the
//     same reader filled last time, or one the other reader filled (the case
//     says which, per Collect); what Collect leaves in it is what the reader
//     "reports". One bucket count per bucket of the point's own bounds is
//     taken to be part of "per-bucket counts".
//   - "The same instruments ... for that attribute set": every clause is a
//     statement per instrument, and an instrument is its whole identity -
//     scope (name, version, schema URL, scope attributes), name, kind, number
//     type, unit, description. Half of the histories add "twins": instruments
//     that share all of that but one part with one of the fixed instruments
//     (a meter whose scope has the same NAME but another version / schema URL
//     / attributes; another scope name; the same meter under another unit or
//     description). Each twin is held to every clause on its own - what one
//     twin's callbacks observe or what is recorded on one twin is not data of
//     the other. Each RegisterCallback callback belongs to one meter and is
//     registered for instruments of that meter only (the SDK refuses others);
//     an observation it makes for the twin of an instrument it is registered
//     for is an observation "for an instrument that is not in that callback's
//     registration list" (dropped). Metrics of the output are matched by scope
//     identity + name + unit + description; an output scope no meter was
//     obtained for is a violation (unknown_scope). Names that differ in case
//     only are not generated (identity rules for those are not C08's).
//   - An instrument obtained once more (MeterProvider.Meter with the same
//     scope, then the same constructor with the same name, unit, description
//     and options; observables without a callback option) is the same
//     instrument: values recorded / callbacks registered through the second
//     handle belong to the one stream. No clause is added for this; the
//     existing clauses (one metric per instrument in a collection, running
//     totals, per-cycle sets) apply.
//   - How a measurement spells its attribute set (WithAttributeSet,
//     WithAttributes, the attributes split over two options, a key given twice
//     with the later option overriding - metric.WithAttributeSet: "merged
//     together in the order they are passed. Attributes with duplicate keys
//     will use the last value passed") does not change which attribute set
//     the measurement is for.
//   - Data handed out by Collect in an earlier cycle must not change when
//     later measurements are made (otherwise the reported cumulative value
//     stops being the running total after the fact); checked for every Collect
//     that was given a fresh ResourceMetrics.
//   - What Collect leaves in the ResourceMetrics - everything reachable from
//     it: histogram bounds, bucket counts, data point slices, the Metrics and
//     ScopeMetrics slices - belongs to the caller ("do not allow modification
//     of our copy" is the library's own rule when it fills it). In half of the
//     histories the consumer of the collected data, AFTER having read it (the
//     oracle's snapshot is taken first), writes over some kinds of those
//     slices in place (unit conversion, zeroing, reversing, NaN; never adding
//     or removing an element); Collect may be handed the written-over memory
//     again. That is not an event of the measurement history: every clause
//     keeps applying unchanged to the later collections of both readers, and
//     an output that was NOT written over must still read the same at the end
//     (the outputs are the caller's, separately). No clause is added.
//   - Measurements made by several goroutines at once ("crec" step: 2..8
//     goroutines released together by a spin barrier, each with its own list
//     of measurements, joined before the history goes on) are measurements of
//     the cycle like any others: sums, counts and buckets do not depend on
//     the order in which they land (exact arithmetic, see above), so the
//     oracle stays schedule independent. For a synchronous gauge "the last
//     value recorded in the cycle" is then the last record of ONE of the
//     goroutines that recorded to the stream (any linearisation ends with one
//     of them). Most of a step's measurements go to one stream, so that right
//     after a collection several goroutines make the first measurement of an
//     attribute set at once (for the delta reader every cycle starts afresh).
//   - Measurements made while the two readers collect ("rcol" step: 1..4
//     recording goroutines and one Collect per reader released together):
//     each such measurement belongs, per reader, to that collection or to the
//     next. For the streams touched, the cumulative-vs-running-total
//     comparison, the "cumulative reports what delta reports" rule and the
//     gauge rule are suspended for THAT cycle only; the deltas keep being
//     accumulated and the comparison resumes, exactly, with the next
//     collection (all goroutines were joined before it).
package c08

import (
	"fmt"
	"math"
	"testing"

	"github.com/go-logr/logr"
	"go.opentelemetry.io/otel"
	"go.opentelemetry.io/otel/attribute"
	"go.opentelemetry.io/otel/verif/internal/vk"
	"pgregory.net/rapid"
)

func init() {
	// Dropped (unregistered-instrument) observations are logged through the
	// global logger; keep stderr quiet. Not an input of any case.
	otel.SetLogger(logr.Discard())
}

// ---------------------------------------------------------------------
// instruments

type syncKind int

const (
	kCounter syncKind = iota
	kUpDown
	kHist // explicit bucket histogram, default boundaries
	kExpo // base-2 exponential histogram through a View
	kGauge
)

type syncDef struct {
	name  string
	kind  syncKind
	float bool
	scope int // 0: meter "c08", 1: meter "c08b"
	// explicit histograms only: where the boundaries come from.
	// bAdvisory: metric.WithExplicitBucketBoundaries(Case.Bounds[bidx]...),
	// bView: a provider View on the name with Case.Bounds[bidx], bDefault: the
	// SDK default boundaries.
	bsrc int
	bidx int
}

const (
	bDefault = iota
	bAdvisory
	bView
)

// The first ten entries keep their indices (committed replays refer to them).
var syncDefs = []syncDef{
	{name: "ctr_i", kind: kCounter}, {name: "ctr_f", kind: kCounter, float: true},
	{name: "udc_i", kind: kUpDown}, {name: "udc_f", kind: kUpDown, float: true},
	{name: "hist_i", kind: kHist}, {name: "hist_f", kind: kHist, float: true},
	{name: "xhist_i", kind: kExpo}, {name: "xhist_f", kind: kExpo, float: true},
	{name: "gauge_i", kind: kGauge}, {name: "gauge_f", kind: kGauge, float: true},
	// explicit histograms whose boundary lists (hence bucket counts) are part
	// of the case: advisory boundaries, boundaries from a View, and a second
	// scope.
	{name: "ahist_i", kind: kHist, bsrc: bAdvisory, bidx: 0}, {name: "ahist_f", kind: kHist, float: true, bsrc: bAdvisory, bidx: 0},
	{name: "vhist_i", kind: kHist, bsrc: bView, bidx: 1}, {name: "vhist_f", kind: kHist, float: true, bsrc: bView, bidx: 1},
	{name: "s2hist_i", kind: kHist, scope: 1, bsrc: bAdvisory, bidx: 2}, {name: "s2hist_f", kind: kHist, float: true, scope: 1, bsrc: bAdvisory, bidx: 2},
	{name: "s2dhist_i", kind: kHist, scope: 1}, {name: "s2ctr_f", kind: kCounter, float: true, scope: 1},
}

const nBounds = 3 // boundary lists carried by a case

// boundsMenu: valid (strictly increasing) boundary lists of different widths.
// An empty advisory list means "SDK default" (16 buckets); an empty View list
// is a single-bucket histogram.
var boundsMenu = [][]float64{
	{}, {5}, {10, 100}, {0, 5, 10, 25}, {0, 1, 2, 3, 5, 8, 13, 21, 34},
	{0, 5, 10, 25, 50, 75, 100, 250, 500, 750, 1000, 2500, 5000, 7500, 10000, 20000, 50000, 100000, 200000, 500000, 1000000, 2000000, 5000000, 10000000},
}

// defaultBounds is what a case without a "bounds" field (older replays) runs with.
var defaultBounds = [nBounds][]float64{{10, 100}, {0, 1, 2, 3, 5, 8, 13, 21, 34}, {5}}

type obsKind int

const (
	oCounter obsKind = iota
	oUpDown
	oGauge
)

type obsDef struct {
	name  string
	kind  obsKind
	float bool
}

var obsDefs = []obsDef{
	{"octr_i", oCounter, false}, {"octr_f", oCounter, true},
	{"oudc_i", oUpDown, false}, {"oudc_f", oUpDown, true},
	{"ogauge_i", oGauge, false}, {"ogauge_f", oGauge, true},
}

const (
	maxSets   = 5 // size of the attribute-set pool
	maxMulti  = 3 // multi-instrument callback slots
	maxSteps  = 60
	maxScopes = 3 // extra scopes (beyond "c08" and "c08b") a case may add
	maxTwins  = 6 // twin instruments a case may add
)

// ---------------------------------------------------------------------
// scopes and twin instruments
//
// The identity of an instrument is (scope, name, kind, number type, unit,
// description) and the identity of a scope is (name, version, schema URL,
// attributes). "The same instruments ... for that attribute set" is a
// statement per instrument, so two instruments that share every part of
// their identity but one are two instruments, each held to every clause on
// its own: a twin is a second instrument of the same name, kind and number
// type as one of the fixed ones, living in another scope (one that may have
// the very same scope name and differ in version, schema URL or scope
// attributes only) or in the same scope under another unit / description.

// ScopeSpec is an instrumentation scope: MeterProvider.Meter(Name,
// WithInstrumentationVersion(Version), WithSchemaURL(Schema),
// WithInstrumentationAttributes(Attrs...)), each option only when non-empty.
type ScopeSpec struct {
	Name    string  `json:"name"`
	Version string  `json:"version,omitempty"`
	Schema  string  `json:"schema,omitempty"`
	Attrs   []vk.KV `json:"attrs,omitempty"`
}

// Twin is an additional instrument with the name, kind, number type (and
// histogram options) of fixed instrument Of (index into syncDefs when Sync,
// else into obsDefs), created by the meter of scope Scope (0: "c08", 1:
// "c08b", 2+k: Case.Scopes[k]) with the given unit and description. The k-th
// synchronous twin is instrument len(syncDefs)+k in "rec" / Late, the k-th
// observable twin is instrument len(obsDefs)+k in "plan" / "fail" / Multi.
type Twin struct {
	Sync  bool   `json:"sync,omitempty"`
	Of    int    `json:"of"`
	Scope int    `json:"scope"`
	Unit  string `json:"unit,omitempty"`
	Desc  string `json:"desc,omitempty"`
}

// sdef / odef: an instrument of a case (fixed or twin) with its full identity.
type sdef struct {
	syncDef
	unit, desc string
	twinOf     int    // -1: one of the fixed instruments
	key        string // stream name in snapshots and messages
}

type odef struct {
	obsDef
	scope      int
	unit, desc string
	twinOf     int
	key        string
}

var homeScope = func() map[string]int {
	m := map[string]int{}
	for _, d := range syncDefs {
		m[d.name] = d.scope
	}
	for _, d := range obsDefs {
		m[d.name] = 0
	}
	return m
}()

// streamKey is how a stream is named in snapshots and messages: the bare
// instrument name for the fixed instruments, the qualified identity for twins.
func streamName(name string, scope int, unit, desc string) string {
	if h, ok := homeScope[name]; ok && h == scope && unit == "" && desc == "" {
		return name
	}
	return fmt.Sprintf("%s{scope#%d unit=%q desc=%q}", name, scope, unit, desc)
}

var legacyScopes = []ScopeSpec{{Name: "c08"}, {Name: "c08b"}}

// scopeID is the canonical identity of a scope.
func scopeID(s ScopeSpec) string {
	set := attribute.NewSet(vk.ToAttrs(s.Attrs)...)
	return fmt.Sprintf("%q %q %q %s", s.Name, s.Version, s.Schema, set.Encoded(attribute.DefaultEncoder()))
}

// scopeTable: the scopes of a case; entry i >= 2 that repeats the identity of
// an earlier one (never generated) is an alias of it.
func scopeTable(c Case) (specs []ScopeSpec, alias []int) {
	specs = append(specs, legacyScopes...)
	extra := c.Scopes
	if len(extra) > maxScopes {
		extra = extra[:maxScopes]
	}
	specs = append(specs, extra...)
	seen := map[string]int{}
	alias = make([]int, len(specs))
	for i, s := range specs {
		id := scopeID(s)
		if j, ok := seen[id]; ok {
			alias[i] = j
		} else {
			seen[id], alias[i] = i, i
		}
	}
	return specs, alias
}

// instruments returns every instrument of the case: the fixed ones followed by
// the valid twins (a twin that names no instrument / scope, or whose identity
// is already taken, is dropped; never generated).
func instruments(c Case) (ss []sdef, os []odef) {
	_, alias := scopeTable(c)
	taken := map[string]bool{}
	for _, d := range syncDefs {
		ss = append(ss, sdef{syncDef: d, twinOf: -1, key: d.name})
		taken["s/"+streamName(d.name, d.scope, "", "")] = true
	}
	for _, d := range obsDefs {
		os = append(os, odef{obsDef: d, twinOf: -1, key: d.name})
		taken["o/"+streamName(d.name, 0, "", "")] = true
	}
	tw := c.Twins
	if len(tw) > maxTwins {
		tw = tw[:maxTwins]
	}
	for _, t := range tw {
		if t.Scope < 0 || t.Scope >= len(alias) || t.Of < 0 {
			continue
		}
		scope := alias[t.Scope]
		if t.Sync {
			if t.Of >= len(syncDefs) {
				continue
			}
			d := syncDefs[t.Of]
			key := streamName(d.name, scope, t.Unit, t.Desc)
			if taken["s/"+key] {
				continue
			}
			taken["s/"+key] = true
			d.scope = scope
			ss = append(ss, sdef{syncDef: d, unit: t.Unit, desc: t.Desc, twinOf: t.Of, key: key})
		} else {
			if t.Of >= len(obsDefs) {
				continue
			}
			d := obsDefs[t.Of]
			key := streamName(d.name, scope, t.Unit, t.Desc)
			if taken["o/"+key] {
				continue
			}
			taken["o/"+key] = true
			os = append(os, odef{obsDef: d, scope: scope, unit: t.Unit, desc: t.Desc, twinOf: t.Of, key: key})
		}
	}
	return ss, os
}

// ---------------------------------------------------------------------
// case

// Obs is one planned observation: the callback Via observes value V for
// attribute set Set. Via 0 is the instrument's own callback
// (WithInt64Callback / WithFloat64Callback), Via j >= 1 is multi-instrument
// callback slot j-1.
type Obs struct {
	Set int    `json:"set"`
	Sp  int    `json:"sp,omitempty"` // spelling of the attribute options (measOpts)
	V   vk.F64 `json:"v"`
	I   int64  `json:"i,omitempty"` // int64 instruments: added (exactly) to the integral V
	Via int    `json:"via"`
}

// Op is one step of the history.
type Op struct {
	// K: "rec" (Inst = sync instrument, Set, V), "plan" (Inst = observable
	// instrument, Plan replaces what callbacks observe for it from now on),
	// "reg" / "unreg" (CB = multi callback slot), "collect",
	// "fail" (from now on the callback named by Via / Inst - Via 0: the own
	// callback of observable Inst, Via j >= 1: multi slot j-1 - behaves per
	// Mode: 0 succeeds, 1 returns an error before observing, 2 observes, then
	// returns an error; for the next N collection steps, N = 0: until changed),
	// "crec" (concurrent records: len(G) goroutines, released together, each
	// making its own measurements on sync instruments; joined before the next step),
	// "rcol" (records during collection: the goroutines of G and one Collect of
	// each reader, each into a fresh ResourceMetrics, are released together),
	// "burst" (N = 2..3 goroutines call Collect on reader R ("d" / "c") at
	// once, each with its own ResourceMetrics, every observing callback
	// executing vk.Perturb(Delay) after its first observation; the other
	// reader collects once, before (CumFirst) or after the burst).
	K        string `json:"k"`
	Inst     int    `json:"inst,omitempty"`
	Set      int    `json:"set,omitempty"`
	V        vk.F64 `json:"v"`
	I        int64  `json:"i,omitempty"` // rec on an int64 instrument: the value is int64(V) + I, exactly
	Plan     []Obs  `json:"plan,omitempty"`
	CB       int    `json:"cb,omitempty"`
	CumFirst bool   `json:"cum_first,omitempty"` // collect: cumulative reader first
	// collect: which ResourceMetrics each reader's Collect is given. 0: the
	// case default (Case.Reuse: the reader's own previous output, else a fresh
	// one); k >= 1: slot k-1 of a pool shared by both readers, i.e. whatever a
	// Collect of either reader last left there ("any previously filled
	// ResourceMetrics is legal input").
	DRM int `json:"drm,omitempty"`
	CRM int `json:"crm,omitempty"`
	// fail / burst
	Via   int    `json:"via,omitempty"`
	Mode  int    `json:"mode,omitempty"`
	N     int    `json:"n,omitempty"`
	R     string `json:"r,omitempty"`
	Delay int    `json:"delay,omitempty"`
	// rec: Sp is the spelling of the attribute options (measOpts); Again: the
	// meter and the instrument are obtained once more (same scope, same name,
	// kind, unit, description, options) and the value is recorded through the
	// new handle. reg + Again: the same for the slot's meter and instruments
	// (obtained without callback options), which are then registered.
	Sp    int  `json:"sp,omitempty"`
	Again bool `json:"again,omitempty"`
	// collect / burst: DScr / CScr: the kinds of slices (scr* bits) the consumer
	// of the delta / cumulative reader's output writes over in place after
	// having read it, Style: what it writes (see scribble).
	DScr  int `json:"dscr,omitempty"`
	CScr  int `json:"cscr,omitempty"`
	Style int `json:"style,omitempty"`
	// crec: goroutine g makes the measurements G[g] in order; all goroutines
	// are released together and joined before the next step.
	G [][]Rec `json:"g,omitempty"`
}

const rmPool = 3

// Case is one generated history plus the fixed configuration it runs under.
type Case struct {
	NSets        int     `json:"nsets"`          // attribute sets 0..NSets-1 of the pool are used
	ExpoMaxSize  int     `json:"expo_max_size"`  // MaxSize of the exponential histogram view
	ProvCumFirst bool    `json:"prov_cum_first"` // order of WithReader options
	Reuse        bool    `json:"reuse"`          // default: pass the same ResourceMetrics to every Collect of a reader
	Multi        [][]int `json:"multi"`          // instrument list (observable indices) of each multi callback slot
	// Bounds: boundary lists of the ahist_* (advisory), vhist_* (View) and
	// s2hist_* (advisory, second scope) histograms.
	Bounds [][]vk.F64 `json:"bounds,omitempty"`
	// Late: sync instruments that are not created up front but at their first
	// "rec" (a scope none of whose instruments exists yet is first used then).
	Late []int `json:"late,omitempty"`
	// Scopes: scopes 2.. of the case; Twins: the additional instruments;
	// MultiScope[j]: the scope whose meter registers multi callback slot j
	// (absent: 0; only instruments of that meter can be registered with it);
	// TwinsFirst: observable twins are created before the fixed observables.
	Scopes     []ScopeSpec `json:"scopes,omitempty"`
	Twins      []Twin      `json:"twins,omitempty"`
	MultiScope []int       `json:"multi_scope,omitempty"`
	TwinsFirst bool        `json:"twins_first,omitempty"`
	Ops        []Op        `json:"ops"`
}

// slotScope is the scope of multi callback slot j.
func (c Case) slotScope(j int, alias []int) int {
	if j < len(c.MultiScope) && c.MultiScope[j] >= 0 && c.MultiScope[j] < len(alias) {
		return alias[c.MultiScope[j]]
	}
	return 0
}

func (c Case) bounds(i int) []float64 {
	if i < len(c.Bounds) {
		out := make([]float64, len(c.Bounds[i]))
		for j, b := range c.Bounds[i] {
			out[j] = float64(b)
		}
		return out
	}
	return append([]float64{}, defaultBounds[i]...)
}

// ---------------------------------------------------------------------
// values

// safeExpo reports whether v is far enough from every exponential bucket
// boundary (at every scale <= 20) for re-binning by index shift to be exact:
// its position log2|v|*2^20 is at least 1e-6 away from an integer. The float
// evaluation of the position is good to ~1e-8 for |log2 v| < 64.
func safeExpo(v float64) bool {
	if v == 0 {
		return true
	}
	a := math.Abs(v)
	if math.IsInf(a, 0) || math.IsNaN(a) {
		return false
	}
	l := math.Log2(a)
	if math.Abs(l) >= 64 {
		return false
	}
	x := l * (1 << 20)
	return math.Abs(x-math.Round(x)) >= 1e-6
}

// histFloatPool / histIntPool: exactly summable (small multiples of 2^-10),
// spread over ~22 octaves, on and off the default explicit boundaries, none
// an exact power of two. Filtered by safeExpo at start-up.
var histFloatPool = filterSafe([]float64{
	0, 0, 0.0029296875, 0.01171875, 0.09375, 0.375, 0.625, 0.75, 1.5, 2.5, 3, 5, 6, 7, 9, 10, 11.5, 13,
	25, 50, 75, 100, 250, 250.5, 500, 750, 1000, 2500, 3000, 5000, 7500, 10000, 12000,
	-0.375, -3, -7, -100, -1000,
})

var histIntPool = filterSafe([]float64{
	0, 0, 3, 5, 6, 7, 9, 10, 11, 12, 13, 25, 50, 75, 100, 250, 500, 750, 1000, 2500, 3000, 5000, 7500, 10000, 12000,
	-3, -7, -100, -1000,
})

func filterSafe(in []float64) []vk.F64 {
	var out []vk.F64
	for _, v := range in {
		if safeExpo(v) {
			out = append(out, vk.F64(v))
		}
	}
	if len(out) < len(in)/2 {
		panic("c08: value pool mostly unsafe; harness bug")
	}
	return out
}

func genEighths(lo, hi int) *rapid.Generator[vk.F64] {
	return rapid.Map(rapid.IntRange(lo, hi), func(k int) vk.F64 { return vk.F64(float64(k) / 8) })
}

func genInts(lo, hi int) *rapid.Generator[vk.F64] {
	return rapid.Map(rapid.IntRange(lo, hi), func(k int) vk.F64 { return vk.F64(float64(k)) })
}

// hugeInts: int64 magnitudes around and beyond 2^53, where a float64 stops
// being able to hold every integer. None exceeds MaxInt64/4, and a synchronous
// stream gets at most three of them, so exact running totals stay within
// int64. (Some convert to a float64 that is a power of two or sits next to
// one; an exponential-histogram stream that receives such a value skips the
// bucket clause, not the count / sum / min / max clauses.)
var hugeInts = []int64{
	1 << 53, 1<<53 + 1, 1<<53 - 1, 3 << 52, 3<<52 + 1, 1 << 60, 5 << 58, 7 << 57, 5<<58 + 3, math.MaxInt64 / 4, math.MaxInt64/4 - 1,
}

const maxHugePerStream = 3

func isHuge(n num) bool { return n.isInt && (n.i >= 1<<52 || n.i <= -(1<<52)) }

// genHuge draws a huge int64 for an int64 instrument; negative only where the
// kind takes negative values.
func genHuge(t *rapid.T, signed bool) int64 {
	h := rapid.SampledFrom(hugeInts).Draw(t, "huge")
	if signed && rapid.Bool().Draw(t, "huge_negative") {
		h = -h
	}
	return h
}

func genSyncValue(d syncDef) *rapid.Generator[vk.F64] {
	switch d.kind {
	case kCounter:
		if d.float {
			return genEighths(0, 80)
		}
		return genInts(0, 9)
	case kHist, kExpo:
		if d.float {
			return rapid.SampledFrom(histFloatPool)
		}
		return rapid.SampledFrom(histIntPool)
	default: // up-down, gauge
		if d.float {
			return genEighths(-80, 80)
		}
		return genInts(-9, 9)
	}
}

func genObsValue(d obsDef) *rapid.Generator[vk.F64] {
	if d.kind == oCounter {
		if d.float {
			return genEighths(0, 320)
		}
		return genInts(0, 40)
	}
	if d.float {
		return genEighths(-160, 160)
	}
	return genInts(-20, 20)
}

// ---------------------------------------------------------------------
// generator

func pickSubset(t *rapid.T, n, lo, hi int, label string) []int {
	if hi > n {
		hi = n
	}
	k := rapid.IntRange(lo, hi).Draw(t, label+"_n")
	perm := rapid.Permutation(seq(n)).Draw(t, label)
	out := append([]int{}, perm[:k]...)
	return out
}

func seq(n int) []int {
	s := make([]int, n)
	for i := range s {
		s[i] = i
	}
	return s
}

func contains(s []int, x int) bool {
	for _, y := range s {
		if y == x {
			return true
		}
	}
	return false
}

var (
	scopeNameMenu = []string{"c08", "c08", "c08", "c08b", "c08c"}
	versionMenu   = []string{"1.4.0", "2.0.0"}
	schemaMenu    = []string{"https://opentelemetry.io/schemas/1.21.0", "https://opentelemetry.io/schemas/1.26.0"}
	scopeAttrMenu = [][]vk.KV{
		{{K: "lib", T: "str", S: "a"}},
		{{K: "lib", T: "str", S: "b"}},
		{{K: "lib", T: "str", S: "a"}, {K: "shard", T: "int", I: 1}},
	}
	unitMenu = []string{"ms", "By", "1"}
)

// genSpelling: how a measurement names its attribute set (see measOpts).
var genSpelling = rapid.SampledFrom([]int{0, 0, 0, 1, 1, 2, 3})

// genScope draws a scope that differs from every scope taken so far: a name
// (mostly one that is in use already) plus any combination of version, schema
// URL and scope attributes.
func genScope(t *rapid.T, taken map[string]bool) ScopeSpec {
	s := ScopeSpec{Name: rapid.SampledFrom(scopeNameMenu).Draw(t, "scope_name")}
	parts := rapid.IntRange(1, 7).Draw(t, "scope_parts") // bit 0: version, 1: schema URL, 2: attributes
	if s.Name == "c08c" && rapid.IntRange(0, 2).Draw(t, "plain_scope") == 0 {
		parts = 0
	}
	if parts&1 != 0 {
		s.Version = rapid.SampledFrom(versionMenu).Draw(t, "scope_version")
	}
	if parts&2 != 0 {
		s.Schema = rapid.SampledFrom(schemaMenu).Draw(t, "scope_schema")
	}
	if parts&4 != 0 {
		s.Attrs = append([]vk.KV{}, rapid.SampledFrom(scopeAttrMenu).Draw(t, "scope_attrs")...)
	}
	for n := 3; taken[scopeID(s)]; n++ { // same draw as an earlier scope: another version of it
		s.Version = fmt.Sprintf("%d.0.0", n)
	}
	taken[scopeID(s)] = true
	return s
}

// genTwins adds 1..maxScopes scopes and 1..4 twins of active instruments.
func genTwins(t *rapid.T, c *Case, syncAct, obsAct []int) {
	taken := map[string]bool{}
	for _, s := range legacyScopes {
		taken[scopeID(s)] = true
	}
	for k := rapid.IntRange(1, maxScopes).Draw(t, "extra_scopes"); k > 0; k-- {
		c.Scopes = append(c.Scopes, genScope(t, taken))
	}
	nScopes := len(legacyScopes) + len(c.Scopes)
	for k := rapid.IntRange(1, 4).Draw(t, "twins"); k > 0; k-- {
		tw := Twin{Sync: len(obsAct) == 0 || (len(syncAct) > 0 && rapid.IntRange(0, 9).Draw(t, "twin_sync") >= 7)}
		home := 0
		if tw.Sync {
			tw.Of = rapid.SampledFrom(syncAct).Draw(t, "twin_of")
			home = syncDefs[tw.Of].scope
		} else {
			tw.Of = rapid.SampledFrom(obsAct).Draw(t, "twin_of")
		}
		if rapid.IntRange(0, 3).Draw(t, "twin_same_scope") == 0 {
			tw.Scope = home
			how := rapid.IntRange(1, 3).Draw(t, "twin_differs") // bit 0: unit, bit 1: description
			if how&1 != 0 {
				tw.Unit = rapid.SampledFrom(unitMenu).Draw(t, "twin_unit")
			}
			if how&2 != 0 {
				tw.Desc = "twin"
			}
		} else {
			var others []int
			for sc := 0; sc < nScopes; sc++ {
				if sc != home {
					others = append(others, sc)
					if sc >= len(legacyScopes) {
						others = append(others, sc) // the generated scopes twice as often
					}
				}
			}
			tw.Scope = rapid.SampledFrom(others).Draw(t, "twin_scope")
		}
		ns, no := instruments(*c)
		c.Twins = append(c.Twins, tw)
		if ns2, no2 := instruments(*c); len(ns2)+len(no2) == len(ns)+len(no) {
			c.Twins = c.Twins[:len(c.Twins)-1] // the same twin drawn twice
		}
	}
}

func gen(t *rapid.T) Case {
	c := Case{}
	c.NSets = rapid.SampledFrom([]int{1, 2, 2, 3, 3, 4, 5}).Draw(t, "nsets")
	c.ExpoMaxSize = rapid.SampledFrom([]int{160, 160, 20, 4}).Draw(t, "expo_max_size")
	c.ProvCumFirst = rapid.Bool().Draw(t, "prov_cum_first")
	// Which ResourceMetrics the Collect calls are given: always a fresh one,
	// the reader's own previous output, or (hostile) per Collect a slot of a
	// pool shared by both readers.
	rmMode := rapid.SampledFrom([]string{"fresh", "own", "own", "pool", "pool"}).Draw(t, "rm_mode")
	c.Reuse = rmMode == "own" || (rmMode == "pool" && rapid.Bool().Draw(t, "reuse"))
	// What the consumer of the collected data does with it once it has read
	// it: nothing (half of the histories), or it writes over some kinds of the
	// slices it was handed, in place.
	scribbler := rapid.Bool().Draw(t, "consumer_scribbles")
	genScr := func(t *rapid.T, op *Op) {
		if !scribbler {
			return
		}
		masks := []int{0, scrAll, scrAll, scrBounds, scrCounts, scrBounds | scrCounts, scrPoints, scrMetrics, scrScopes, -1}
		draw := func(label string) int {
			m := rapid.SampledFrom(masks).Draw(t, label)
			if m < 0 {
				m = rapid.IntRange(1, scrAll).Draw(t, label+"_bits")
			}
			return m
		}
		op.DScr, op.CScr = draw("dscr"), draw("cscr")
		op.Style = rapid.IntRange(0, 3).Draw(t, "scr_style")
	}
	genCollect := func(t *rapid.T) Op {
		op := Op{K: "collect", CumFirst: rapid.Bool().Draw(t, "cum_first")}
		if rmMode == "pool" {
			slots := []int{0, 1, 1, 2, 2, 3}
			op.DRM = rapid.SampledFrom(slots).Draw(t, "drm")
			op.CRM = rapid.SampledFrom(slots).Draw(t, "crm")
		}
		genScr(t, &op)
		return op
	}
	c.Bounds = make([][]vk.F64, nBounds)
	for i := range c.Bounds {
		c.Bounds[i] = []vk.F64{}
		for _, b := range rapid.SampledFrom(boundsMenu).Draw(t, "bounds") {
			c.Bounds[i] = append(c.Bounds[i], vk.F64(b))
		}
	}

	// A few active instruments per history so that streams are hit repeatedly;
	// in a third of the histories they are kindred (same kind and number type:
	// e.g. all the int64 explicit histograms with their different widths).
	var syncAct, obsAct []int
	switch r := rapid.IntRange(0, 9).Draw(t, "instrument_mix"); {
	case r == 0:
		syncAct, obsAct = seq(len(syncDefs)), seq(len(obsDefs))
	case r <= 3:
		a := syncDefs[rapid.IntRange(0, len(syncDefs)-1).Draw(t, "kin_of")]
		var kin []int
		for i, d := range syncDefs {
			if d.kind == a.kind && d.float == a.float {
				kin = append(kin, i)
			}
		}
		perm := rapid.Permutation(kin).Draw(t, "kin")
		syncAct = append(syncAct, perm[:rapid.IntRange(min(2, len(kin)), len(kin)).Draw(t, "kin_n")]...)
		for _, i := range pickSubset(t, len(syncDefs), 0, 2, "sync_extra") {
			if !contains(syncAct, i) {
				syncAct = append(syncAct, i)
			}
		}
		obsAct = pickSubset(t, len(obsDefs), 0, 2, "obs_active")
	default:
		syncAct = pickSubset(t, len(syncDefs), 0, 4, "sync_active")
		obsAct = pickSubset(t, len(obsDefs), 0, 3, "obs_active")
		if len(syncAct)+len(obsAct) == 0 {
			syncAct = []int{rapid.IntRange(0, len(syncDefs)-1).Draw(t, "one_sync")}
		}
	}
	// Twins: in half of the histories some of the active instruments get twins
	// (same name, kind, number type) in other scopes - mostly scopes that share
	// their NAME with the original's scope and differ in version, schema URL or
	// scope attributes - or in the same scope under another unit / description.
	// Every twin is active.
	if rapid.IntRange(0, 9).Draw(t, "twin_mode") >= 5 {
		genTwins(t, &c, syncAct, obsAct)
	}
	ss, os := instruments(c)
	_, alias := scopeTable(c)
	for i := len(syncDefs); i < len(ss); i++ {
		syncAct = append(syncAct, i)
	}
	for i := len(obsDefs); i < len(os); i++ {
		obsAct = append(obsAct, i)
	}
	c.TwinsFirst = len(os) > len(obsDefs) && rapid.Bool().Draw(t, "twins_first")

	// Some of them are only created when they are first recorded to; the
	// instruments the history never touches are (mostly) not created at all, so
	// that a scope only exists once one of its instruments is used.
	allUpFront := rapid.IntRange(0, 3).Draw(t, "unused_up_front") == 0
	for i := range ss {
		switch {
		case !contains(syncAct, i):
			if !allUpFront {
				c.Late = append(c.Late, i)
			}
		case rapid.IntRange(0, 2).Draw(t, "late") == 0:
			c.Late = append(c.Late, i)
		}
	}

	nMulti := 0
	if len(obsAct) > 0 {
		lo := 0
		if len(os) > len(obsDefs) {
			lo = 1 // observable twins: RegisterCallback is where instruments are told apart by their identity
		}
		nMulti = rapid.IntRange(lo, maxMulti).Draw(t, "nmulti")
	}
	// Each slot belongs to the meter of one scope (that of a random active
	// observable) and lists instruments of that meter only. When slot j-1 lists
	// an instrument that has kin (its twin / original / fellow twin) in another
	// scope, slot j is, half of the time, its mirror image there.
	c.Multi = make([][]int, nMulti)
	multiScope := make([]int, nMulti)
	inScope := func(sc int) []int {
		var out []int
		for _, o := range obsAct {
			if os[o].scope == sc {
				out = append(out, o)
			}
		}
		return out
	}
	root := func(o int) int {
		if os[o].twinOf >= 0 {
			return os[o].twinOf
		}
		return o
	}
	for j := range c.Multi {
		if j > 0 && len(os) > len(obsDefs) && rapid.Bool().Draw(t, "mirror") {
			var mirror []int
			sc := -1
			for _, o := range c.Multi[j-1] {
				for _, o2 := range obsAct {
					if o2 != o && root(o2) == root(o) && os[o2].scope != os[o].scope && (sc < 0 || os[o2].scope == sc) {
						sc = os[o2].scope
						mirror = append(mirror, o2)
						break
					}
				}
			}
			if len(mirror) > 0 {
				c.Multi[j], multiScope[j] = mirror, sc
				continue
			}
		}
		sc := os[rapid.SampledFrom(obsAct).Draw(t, "multi_scope_of")].scope
		cands := inScope(sc)
		k := rapid.IntRange(1, min(3, len(cands))).Draw(t, "multi_len")
		perm := rapid.Permutation(cands).Draw(t, "multi_insts")
		c.Multi[j], multiScope[j] = append([]int{}, perm[:k]...), sc
	}
	for _, sc := range multiScope {
		if sc != 0 {
			c.MultiScope = multiScope
		}
	}
	listed := func(j, o int) bool { return contains(c.Multi[j], o) && os[o].scope == c.slotScope(j, alias) }

	genPlan := func(t *rapid.T, o int) []Obs {
		// each attribute set at most once per instrument and cycle.
		sets := pickSubset(t, c.NSets, 0, c.NSets, "plan_sets")
		var owners []int // callbacks that may legitimately observe o
		for j := range c.Multi {
			if listed(j, o) {
				owners = append(owners, j+1)
			}
		}
		plan := make([]Obs, 0, len(sets))
		for _, s := range sets {
			e := Obs{Set: s, V: genObsValue(os[o].obsDef).Draw(t, "obs_v"), Sp: genSpelling.Draw(t, "obs_sp")}
			if !os[o].float && rapid.IntRange(0, 5).Draw(t, "obs_huge") == 0 {
				// deltas are differences of two of these: no overflow
				e.I = genHuge(t, os[o].kind != oCounter)
			}
			switch r := rapid.IntRange(0, 9).Draw(t, "via_kind"); {
			case nMulti > 0 && r == 9: // any slot: possibly one that does not list o
				e.Via = rapid.IntRange(1, nMulti).Draw(t, "via_any")
			case len(owners) > 0 && r >= 4:
				e.Via = rapid.SampledFrom(owners).Draw(t, "via_owner")
			default:
				e.Via = 0
			}
			plan = append(plan, e)
		}
		return plan
	}

	// Prelude: most histories start with something to observe and with some
	// callbacks registered.
	for _, o := range obsAct {
		if len(c.Ops) < 8 && rapid.IntRange(0, 3).Draw(t, "pre_plan") > 0 {
			c.Ops = append(c.Ops, Op{K: "plan", Inst: o, Plan: genPlan(t, o)})
		}
	}
	for j := range c.Multi {
		if rapid.IntRange(0, 2).Draw(t, "pre_reg") > 0 {
			c.Ops = append(c.Ops, Op{K: "reg", CB: j})
		}
	}

	// The body: stateless steps (a "reg" of a registered slot / an "unreg" of
	// an unregistered one is a no-op when the history runs), so that rapid can
	// drop steps while shrinking. "collect" is the simplest step.
	planW, regW, failW, burstW := 0, 0, 0, 2
	if len(obsAct) > 0 {
		planW, failW, burstW = 24, 4, 4
	}
	if nMulti > 0 {
		regW = 8
	}
	// Some histories have no failing callback / no concurrent step at all.
	if rapid.IntRange(0, 2).Draw(t, "no_failures") == 0 {
		failW = 0
	}
	if rapid.IntRange(0, 2).Draw(t, "no_bursts") == 0 {
		burstW = 0
	}
	hugeUsed := map[[2]int]int{} // per sync stream; rebuilt on every (re)generation of the case
	genRecValue := func(t *rapid.T, inst, set int) (vk.F64, int64) {
		d := ss[inst]
		v := genSyncValue(d.syncDef).Draw(t, "v")
		if !d.float && hugeUsed[[2]int{inst, set}] < maxHugePerStream && rapid.IntRange(0, 5).Draw(t, "rec_huge") == 0 {
			hugeUsed[[2]int{inst, set}]++
			return 0, genHuge(t, d.kind != kCounter)
		}
		return v, 0
	}
	// Concurrent records: 2..8 goroutines with 1..6 measurements each. Most of
	// them (and mostly the first of each goroutine) go to one focus stream, so
	// that several goroutines make the first measurement of an attribute set
	// in the cycle at the same moment; the rest goes to any active stream.
	genVolley := func(t *rapid.T, kind string) Op {
		op := Op{K: kind}
		fInst := rapid.SampledFrom(syncAct).Draw(t, "focus_inst")
		fSet := rapid.IntRange(0, c.NSets-1).Draw(t, "focus_set")
		n := rapid.SampledFrom([]int{2, 2, 3, 4, 4, 6, 8}).Draw(t, "goroutines")
		if kind == "rcol" {
			n = rapid.IntRange(1, 4).Draw(t, "recorders")
		}
		for g := 0; g < n; g++ {
			m := rapid.IntRange(1, 6).Draw(t, "recs")
			recs := make([]Rec, 0, m)
			for k := 0; k < m; k++ {
				r := Rec{Inst: fInst, Set: fSet}
				if rapid.IntRange(0, 9).Draw(t, "off_focus") >= 7 {
					r.Inst = rapid.SampledFrom(syncAct).Draw(t, "inst")
					r.Set = rapid.IntRange(0, c.NSets-1).Draw(t, "set")
				}
				if kind == "rcol" {
					// no huge values: which cycle the measurement lands in is open
					r.V = genSyncValue(ss[r.Inst].syncDef).Draw(t, "v")
				} else {
					r.V, r.I = genRecValue(t, r.Inst, r.Set)
				}
				r.Sp = genSpelling.Draw(t, "sp")
				recs = append(recs, r)
			}
			op.G = append(op.G, recs)
		}
		return op
	}
	// How the history records: one measurement at a time only, mixed, or
	// mostly by concurrent-record steps (every one of which, right after a
	// collection, is a concurrent first measurement for the delta reader).
	crecW := 0
	if len(syncAct) > 0 {
		crecW = rapid.SampledFrom([]int{0, 6, 6, 20}).Draw(t, "crec_weight")
	}
	// Records made while both readers collect (1..4 recording goroutines and
	// the two Collect calls start together), in half of the histories.
	rcolW := 0
	if len(syncAct) > 0 {
		rcolW = rapid.SampledFrom([]int{0, 0, 3, 8}).Draw(t, "rcol_weight")
	}
	step := rapid.Custom(func(t *rapid.T) Op {
		w := rapid.IntRange(0, 99).Draw(t, "op")
		if crecW > 0 && w >= 100-crecW {
			return genVolley(t, "crec")
		}
		if rcolW > 0 && w >= 100-crecW-rcolW {
			return genVolley(t, "rcol")
		}
		switch {
		case w < 24 || (len(syncAct) == 0 && w >= 24+planW+regW+failW+burstW):
			return genCollect(t)
		case w < 24+planW:
			o := rapid.SampledFrom(obsAct).Draw(t, "obs")
			return Op{K: "plan", Inst: o, Plan: genPlan(t, o)}
		case w < 24+planW+regW:
			k := "reg"
			if rapid.Bool().Draw(t, "unreg") {
				k = "unreg"
			}
			return Op{K: k, CB: rapid.IntRange(0, nMulti-1).Draw(t, "cb"), Again: k == "reg" && rapid.IntRange(0, 3).Draw(t, "reg_again") == 0}
		case w < 24+planW+regW+failW:
			op := Op{K: "fail", Mode: rapid.SampledFrom([]int{0, 1, 2, 2}).Draw(t, "mode"),
				N: rapid.SampledFrom([]int{1, 1, 2, 3, 0}).Draw(t, "fail_for")}
			if nMulti > 0 && rapid.Bool().Draw(t, "fail_multi") {
				op.Via = rapid.IntRange(1, nMulti).Draw(t, "fail_slot")
			} else {
				op.Inst = rapid.SampledFrom(obsAct).Draw(t, "fail_inst")
			}
			return op
		case w < 24+planW+regW+failW+burstW:
			op := Op{K: "burst",
				R:        rapid.SampledFrom([]string{"d", "c"}).Draw(t, "burst_reader"),
				N:        rapid.IntRange(2, 3).Draw(t, "burst_n"),
				Delay:    rapid.SampledFrom([]int{1, 2, 3, 3, 4}).Draw(t, "burst_delay"),
				CumFirst: rapid.Bool().Draw(t, "other_first")}
			genScr(t, &op)
			return op
		default:
			inst := rapid.SampledFrom(syncAct).Draw(t, "inst")
			op := Op{K: "rec", Inst: inst,
				Set: rapid.IntRange(0, c.NSets-1).Draw(t, "set")}
			op.V, op.I = genRecValue(t, inst, op.Set)
			op.Sp, op.Again = genSpelling.Draw(t, "sp"), rapid.IntRange(0, 7).Draw(t, "again") == 0
			return op
		}
	})
	room := maxSteps - 1 - len(c.Ops)
	atLeast := rapid.IntRange(1, room).Draw(t, "min_steps") // rapid's own slice lengths are strongly biased to short
	c.Ops = append(c.Ops, rapid.SliceOfN(step, atLeast, room).Draw(t, "steps")...)
	c.Ops = append(c.Ops, genCollect(t))
	return c
}

func TestDeltaCumulative(t *testing.T) {
	vk.Run(t, vk.Spec[Case]{
		Property: "C08", Check: "delta_vs_cumulative",
		Rule: "one MeterProvider, a delta and a cumulative ManualReader; history of <= 60 steps over record (sync counter / up-down / explicit + exponential histogram / gauge, int64 and float64; " +
			"explicit histograms with default, advisory and View boundary lists of 1..25 buckets in two scopes; instruments created up front or at first use), " +
			"in half of the histories 1..3 further scopes (mostly of the SAME scope name, differing in version / schema URL / scope attributes) and 1..4 twin instruments (same name, kind, number type as an active instrument; in another scope, or in the same scope under another unit / description), RegisterCallback callbacks per meter (incl. mirror-image callbacks on the twins and observations for the unregistered twin); " +
			"attribute options spelled as WithAttributeSet / WithAttributes / split over two options / duplicate key overridden; record through / register with a meter and instruments obtained once more; " +
			"int64 values up to MaxInt64/4 around / beyond 2^53 mixed with small ones, float64 values exactly summable; setObservationPlan (observable counter / up-down / gauge fed by instrument callbacks and by RegisterCallback callbacks, incl. observations for instruments a callback is not registered for), " +
			"concurrent-record steps (2..8 goroutines released together, 1..6 measurements each, mostly on one stream: concurrent FIRST measurements of a set in the cycle / ever; every sync kind), records-during-collection steps (1..4 recording goroutines + one Collect per reader released together); " +
			"in half of the histories the consumer of each collected ResourceMetrics writes over generated kinds of the slices it was handed (histogram bounds, bucket counts incl. exponential, data point / Metrics / ScopeMetrics elements; 4 styles) after reading it, incl. outputs that are handed back to Collect; " +
			"register / unregister callback, callbacks that return an error for 1..3 collection steps (before or after observing), concurrent-collect steps (2..3 goroutines Collect on one reader at once, callbacks perturbed by Gosched / 20us..1ms sleeps), collectBoth (each Collect given a fresh ResourceMetrics, the reader's own previous output or a pool slot either reader filled before); 1..5 attribute sets from a fixed pool; " +
			"non-trivial = >= 3 collections and (a stream that is reported, then absent for a cycle, then reported again, or a multi-instrument callback that observed in a cycle and is unregistered before a later one); distinct = distinct case encodings",
		Quick: 8000, Thorough: 120000,
		Gen: gen, Run: run,
		Repeat: 5, // histories with a concurrent step: re-run a replay a few times
	})
}
