package c08

import (
	"fmt"
	"reflect"
	"sort"
	"strings"
	"time"

	"go.opentelemetry.io/otel/sdk/metric/metricdata"
	"go.opentelemetry.io/otel/verif/internal/vk"
)

// expoAcc is a running total of exponential buckets kept at the coarsest
// scale seen so far.
type expoAcc struct {
	scale    int32
	pos, neg map[int32]uint64
}

func rebin(m map[int32]uint64, from, to int32) map[int32]uint64 {
	if from == to {
		return m
	}
	out := make(map[int32]uint64, len(m))
	sh := uint(from - to)
	for i, n := range m {
		out[i>>sh] += n // arithmetic shift == floor division: exact for bucket indexes
	}
	return out
}

func bucketMap(off int32, counts []uint64) map[int32]uint64 {
	m := map[int32]uint64{}
	for i, n := range counts {
		if n != 0 {
			m[off+int32(i)] += n
		}
	}
	return m
}

func sameBuckets(a, b map[int32]uint64) bool {
	if len(a) != len(b) {
		return false
	}
	for k, v := range a {
		if b[k] != v {
			return false
		}
	}
	return true
}

// running is the running total of one synchronous stream's delta points.
type running struct {
	any        bool // a delta point has been reported
	val        num
	count      uint64
	sum        num
	min, max   num
	hasMinMax  bool
	bounds     []float64
	buckets    []uint64
	zero       uint64
	expo       expoAcc
	unsafeExpo bool // a value too close to a bucket boundary went in
}

func sameF64s(a, b []float64) bool {
	if len(a) != len(b) {
		return false
	}
	for i := range a {
		if a[i] != b[i] {
			return false
		}
	}
	return true
}

func within(t time.Time, b bracket) bool { return !t.Before(b.Before) && !t.After(b.After) }

type readerSeries struct {
	who string
	se  *series
}

func keys[V any](m map[int]V) []int {
	out := make([]int, 0, len(m))
	for k := range m {
		out = append(out, k)
	}
	sort.Ints(out)
	return out
}

func names(m map[string]*series) []string {
	out := make([]string, 0, len(m))
	for k := range m {
		out = append(out, k)
	}
	sort.Strings(out)
	return out
}

type streamKey struct {
	name string
	set  int
}

func run(c Case) ([]vk.Violation, vk.Info) {
	var vs []vk.Violation
	var info vk.Info
	seenKinds := map[string]int{}
	bad := func(kind, format string, a ...any) {
		// one history can break the same clause at every later collection;
		// keep the first few of each kind.
		if seenKinds[kind]++; seenKinds[kind] <= 3 {
			vs = append(vs, vk.V(kind, format, a...))
		}
	}

	// badAt: detail holds wall-clock readings and goes to Observed, so that the
	// message (which rapid compares while shrinking) is a function of the case.
	badAt := func(detail, kind, format string, a ...any) {
		if seenKinds[kind]++; seenKinds[kind] <= 3 {
			v := vk.V(kind, format, a...)
			v.Observed = detail
			vs = append(vs, v)
		}
	}

	w := execute(c)
	for _, e := range w.regErrs {
		bad("setup_error", "%s", e)
	}

	var (
		scaleDiffers, reappearSync, reappearAsync, unregMid, stray, negDelta, multiObserved bool
		gaugeRepeat, expoCompared                                                           bool
	)

	// ---- structure of every collection ----
	for k, cy := range w.cycles {
		// A Collect that returns the error of a failing callback is still a
		// collection: what it left in rm enters the oracle like any other.
		if cy.DeltaErr != nil && !cy.Failed {
			bad("collect_error", "collection %d: delta reader Collect: %v", k+1, cy.DeltaErr)
		}
		if cy.CumErr != nil && !cy.Failed {
			bad("collect_error", "collection %d: cumulative reader Collect: %v", k+1, cy.CumErr)
		}
		for _, rs := range []struct {
			who  string
			s    *snap
			want metricdata.Temporality
		}{{"delta", cy.Delta, metricdata.DeltaTemporality}, {"cumulative", cy.Cum, metricdata.CumulativeTemporality}} {
			if rs.s == nil {
				continue
			}
			for _, p := range rs.s.Problems {
				kind, msg, _ := strings.Cut(p, "\x00")
				bad(kind, "collection %d, %s reader: %s", k+1, rs.who, msg)
			}
			for _, name := range names(rs.s.Series) {
				se := rs.s.Series[name]
				if se.Type != "gauge" && se.Temporality != rs.want {
					bad("wrong_temporality", "collection %d: %s reader reports %q with temporality %v", k+1, rs.who, name, se.Temporality)
				}
				for _, set := range keys(se.Pts) {
					p := se.Pts[set]
					if p.Start.After(p.Time) {
						badAt(fmt.Sprintf("StartTime %v, Time %v", p.Start, p.Time), "start_after_time", "collection %d, %s reader, %s set #%d: StartTime > Time", k+1, rs.who, name, set)
					}
				}
			}
		}
		if cy.DeltaLate != nil && !reflect.DeepEqual(cy.Delta.Series, cy.DeltaLate.Series) {
			badAt(diffSnap(cy.Delta, cy.DeltaLate), "retained_output_changed", "data returned by the delta reader's collection %d (not written to by its owner) changed after later measurements / after the owner of a later output wrote over that output", k+1)
		}
		if cy.CumLate != nil && !reflect.DeepEqual(cy.Cum.Series, cy.CumLate.Series) {
			badAt(diffSnap(cy.Cum, cy.CumLate), "retained_output_changed", "data returned by the cumulative reader's collection %d (not written to by its owner) changed after later measurements / after the owner of a later output wrote over that output", k+1)
		}
	}

	// ---- (2) interval structure ----
	cumStart := map[streamKey]time.Time{}
	// where and when each instrument was created: the first delta interval of
	// an instrument starts at its creation, every later one at the previous
	// delta collection (whether or not the instrument reported anything then).
	type born struct {
		br bracket
		at int // collections that preceded the creation
	}
	birth := map[string]born{}
	for i, d := range w.sdefs {
		if w.createdAt[i] >= 0 {
			birth[d.key] = born{w.syncBr[i], w.createdAt[i]}
		}
	}
	for _, d := range w.odefs {
		birth[d.key] = born{w.obsBr, 0}
	}
	prevD := -1 // the most recent earlier cycle in which the delta reader collected
	for k, cy := range w.cycles {
		if w.ambiguous {
			break
		}
		if cy.Delta != nil {
			var prev *snap
			if prevD >= 0 {
				prev = w.cycles[prevD].Delta
			}
			for _, name := range names(cy.Delta.Series) {
				se := cy.Delta.Series[name]
				b, known := birth[name]
				if !known {
					bad("unknown_metric", "collection %d: delta reader reports metric %q that was never created", k+1, name)
					continue
				}
				prevBr, what := b.br, "the instrument's creation"
				if prevD >= b.at {
					prevBr, what = w.cycles[prevD].DeltaBr, fmt.Sprintf("the previous delta collection (%d)", prevD+1)
				}
				for _, set := range keys(se.Pts) {
					p := se.Pts[set]
					if !within(p.Start, prevBr) {
						badAt(fmt.Sprintf("StartTime %v, bracket [%v, %v]", p.Start, prevBr.Before, prevBr.After),
							"delta_start_outside_previous_collection", "collection %d, %s set #%d: delta StartTime is not within the harness bracket of %s", k+1, name, set, what)
					}
					if prev != nil {
						if ps := prev.Series[name]; ps != nil {
							if pp := ps.Pts[set]; pp != nil && !p.Start.Equal(pp.Time) {
								badAt(fmt.Sprintf("StartTime %v, previous Time %v", p.Start, pp.Time),
									"delta_start_ne_previous_time", "collection %d, %s set #%d: delta StartTime != Time of the same stream's point in delta collection %d", k+1, name, set, prevD+1)
							}
						}
					}
				}
			}
			prevD = k
		}
		if cy.Cum == nil {
			continue
		}
		for _, name := range names(cy.Cum.Series) {
			se := cy.Cum.Series[name]
			for _, set := range keys(se.Pts) {
				p := se.Pts[set]
				key := streamKey{name, set}
				if first, ok := cumStart[key]; !ok {
					cumStart[key] = p.Start
				} else if !first.Equal(p.Start) {
					badAt(fmt.Sprintf("StartTime %v, earlier %v", p.Start, first), "cumulative_start_moved", "collection %d, %s set #%d: cumulative StartTime differs from the one reported earlier for this stream", k+1, name, set)
				}
			}
		}
	}

	// ---- (1) synchronous sums and histograms: cumulative == running total of deltas ----
	// ---- (4) synchronous gauges ----
	racingCompared := map[streamKey]bool{} // streams recorded during a collection -> compared again in a later cycle
	lastSeen := map[streamKey]int{}
	gapThenBack := func(key streamKey, k int) bool {
		l, ok := lastSeen[key]
		lastSeen[key] = k
		return ok && k-l >= 2
	}
	for i, d := range w.sdefs {
		wantType := map[syncKind]string{kCounter: "sum", kUpDown: "sum", kHist: "hist", kExpo: "expo", kGauge: "gauge"}[d.kind]
		tot := map[int]*running{}
		for k, cy := range w.cycles {
			var ds, cs *series
			if cy.Delta != nil {
				ds = cy.Delta.Series[d.key]
			}
			if cy.Cum != nil {
				cs = cy.Cum.Series[d.key]
			}
			both := []readerSeries{}
			if cy.Delta != nil {
				both = append(both, readerSeries{"delta", ds})
			}
			if cy.Cum != nil {
				both = append(both, readerSeries{"cumulative", cs})
			}
			for _, rs := range both {
				who, se := rs.who, rs.se
				if se != nil && se.Type != wantType {
					bad("unexpected_data_type", "collection %d: %s reader reports %s as %s, want %s", k+1, who, d.key, se.Type, wantType)
				}
			}
			if (ds != nil && ds.Type != wantType) || (cs != nil && cs.Type != wantType) {
				continue
			}
			if d.kind == kGauge {
				for _, set := range keys(cy.Recorded[i]) {
					if cy.racing(i, set) {
						continue // recorded while the readers were collecting: this cycle or the next
					}
					vals := cy.Recorded[i][set]
					// one value; several when the stream's latest records were made by
					// several goroutines at once: the last record of any of them
					last := cy.lastCandidates(i, set)
					gaugeRepeat = gaugeRepeat || len(vals) > 1
					for _, rs := range both {
						who, se := rs.who, rs.se
						var p *point
						if se != nil {
							p = se.Pts[set]
						}
						if p == nil {
							bad("gauge_missing", "collection %d: %s reader does not report %s set #%d although %v was recorded in the cycle", k+1, who, d.key, set, vals)
						} else if !anyEq(last, p.Val) {
							bad("gauge_last_value", "collection %d: %s reader reports %s set #%d = %v, last value recorded in the cycle is %v (cycle: %v)", k+1, who, d.key, set, p.Val, last, vals)
						}
					}
				}
				continue
			}
			// accumulate this cycle's delta points
			if ds != nil {
				for _, set := range keys(ds.Pts) {
					p := ds.Pts[set]
					if gapThenBack(streamKey{d.key, set}, k) {
						reappearSync = true
					}
					r := tot[set]
					if r == nil {
						r = &running{}
						tot[set] = r
					}
					for _, v := range cy.Recorded[i][set] {
						if !safeExpo(v.float()) {
							r.unsafeExpo = true
						}
					}
					first := !r.any
					r.any = true
					switch d.kind {
					case kCounter, kUpDown:
						r.val = r.val.add(p.Val)
					case kHist, kExpo:
						r.count += p.Count
						r.sum = r.sum.add(p.Sum)
						if p.HasMin && p.HasMax {
							if !r.hasMinMax {
								r.min, r.max, r.hasMinMax = p.Min, p.Max, true
							} else {
								r.min, r.max = numMin(r.min, p.Min), numMax(r.max, p.Max)
							}
						}
						if d.kind == kHist {
							if first {
								r.bounds = p.Bounds
								r.buckets = make([]uint64, len(p.Buckets))
							}
							if !sameF64s(r.bounds, p.Bounds) || len(r.buckets) != len(p.Buckets) {
								bad("histogram_bounds_changed", "collection %d: delta %s set #%d has bounds %v (%d buckets), earlier %v (%d)", k+1, d.key, set, p.Bounds, len(p.Buckets), r.bounds, len(r.buckets))
							} else {
								for b, n := range p.Buckets {
									r.buckets[b] += n
								}
							}
						} else {
							r.zero += p.Zero
							pm, nm := bucketMap(p.PosOff, p.Pos), bucketMap(p.NegOff, p.Neg)
							if first {
								r.expo = expoAcc{scale: p.Scale, pos: pm, neg: nm}
							} else {
								to := min(r.expo.scale, p.Scale)
								r.expo.pos, r.expo.neg = rebin(r.expo.pos, r.expo.scale, to), rebin(r.expo.neg, r.expo.scale, to)
								for b, n := range rebin(pm, p.Scale, to) {
									r.expo.pos[b] += n
								}
								for b, n := range rebin(nm, p.Scale, to) {
									r.expo.neg[b] += n
								}
								r.expo.scale = to
							}
						}
					}
					if cy.Cum != nil && (cs == nil || cs.Pts[set] == nil) && !cy.racing(i, set) {
						bad("delta_without_cumulative", "collection %d: delta reader reports %s set #%d but the cumulative reader does not", k+1, d.key, set)
					}
				}
			}
			// compare every cumulative point with the running total
			if cs == nil {
				continue
			}
			for _, set := range keys(cs.Pts) {
				p := cs.Pts[set]
				r := tot[set]
				if cy.racing(i, set) {
					// measurements of this stream were made while the two readers were
					// collecting: each landed before or after either collection. The
					// deltas keep being accumulated; the comparison resumes with the
					// next collection (by then both readers have seen all of them).
					racingCompared[streamKey{d.key, set}] = false
					continue
				}
				if _, was := racingCompared[streamKey{d.key, set}]; was {
					racingCompared[streamKey{d.key, set}] = true
				}
				if r == nil || !r.any {
					bad("cumulative_without_delta", "collection %d: cumulative reader reports %s set #%d, the delta reader never did", k+1, d.key, set)
					continue
				}
				switch d.kind {
				case kCounter, kUpDown:
					if !p.Val.eq(r.val) {
						bad("sum_running_total", "collection %d: cumulative %s set #%d = %v, running total of the deltas = %v", k+1, d.key, set, p.Val, r.val)
					}
				case kHist, kExpo:
					if p.Count != r.count {
						bad("histogram_count_running_total", "collection %d: cumulative %s set #%d Count = %d, running total of the deltas = %d", k+1, d.key, set, p.Count, r.count)
					}
					if !p.Sum.eq(r.sum) {
						bad("histogram_sum_running_total", "collection %d: cumulative %s set #%d Sum = %v, running total of the deltas = %v", k+1, d.key, set, p.Sum, r.sum)
					}
					if p.HasMin != r.hasMinMax || p.HasMax != r.hasMinMax || (r.hasMinMax && (!p.Min.eq(r.min) || !p.Max.eq(r.max))) {
						bad("histogram_minmax", "collection %d: cumulative %s set #%d Min/Max = %v(%v)/%v(%v), over the deltas %v/%v (%v)", k+1, d.key, set, p.Min, p.HasMin, p.Max, p.HasMax, r.min, r.max, r.hasMinMax)
					}
					if d.kind == kHist {
						if !sameF64s(p.Bounds, r.bounds) {
							bad("histogram_bounds_differ", "collection %d: cumulative %s set #%d bounds %v, delta bounds %v", k+1, d.key, set, p.Bounds, r.bounds)
						}
						// every bucket, and the same number of buckets
						if len(p.Buckets) != len(r.buckets) || !reflect.DeepEqual(p.Buckets, r.buckets) {
							bad("histogram_buckets_running_total", "collection %d: cumulative %s set #%d BucketCounts = %v (%d buckets), running total of the deltas = %v (%d buckets)", k+1, d.key, set, p.Buckets, len(p.Buckets), r.buckets, len(r.buckets))
						}
					} else {
						if p.Zero != r.zero {
							bad("expo_zero_running_total", "collection %d: cumulative %s set #%d ZeroCount = %d, running total of the deltas = %d", k+1, d.key, set, p.Zero, r.zero)
						}
						if r.unsafeExpo {
							continue
						}
						expoCompared = true
						scaleDiffers = scaleDiffers || p.Scale != r.expo.scale
						to := min(p.Scale, r.expo.scale)
						cp, cn := rebin(bucketMap(p.PosOff, p.Pos), p.Scale, to), rebin(bucketMap(p.NegOff, p.Neg), p.Scale, to)
						rp, rn := rebin(r.expo.pos, r.expo.scale, to), rebin(r.expo.neg, r.expo.scale, to)
						if !sameBuckets(cp, rp) || !sameBuckets(cn, rn) {
							bad("expo_buckets_running_total", "collection %d: cumulative %s set #%d (scale %d) buckets at scale %d: +%v -%v; running total of the deltas (scale %d): +%v -%v",
								k+1, d.key, set, p.Scale, to, cp, cn, r.expo.scale, rp, rn)
						}
					}
				}
			}
		}
	}

	// ---- (3) asynchronous instruments, (4) observable gauges ----
	for i, d := range w.odefs {
		wantType := "sum"
		if d.kind == oGauge {
			wantType = "gauge"
		}
		// per reader: what its callback round of the previous cycle (in which
		// it collected) observed.
		prevOf := map[string]map[int]num{}
		for k, cy := range w.cycles {
			if w.ambiguous {
				break
			}
			anyObs := cy.ObservedD
			if anyObs == nil {
				anyObs = cy.ObservedC
			}
			for set := range anyObs[i] {
				if gapThenBack(streamKey{d.key, set}, k) {
					reappearAsync = true
				}
			}
			conc := ""
			if cy.Burst != "" {
				conc = fmt.Sprintf(" [collection %d of %d concurrent ones]", cy.BurstPos+1, burstLen(w, k))
			}
			for _, rd := range []struct {
				who string
				sn  *snap
				obs []map[int]num
			}{{"delta", cy.Delta, cy.ObservedD}, {"cumulative", cy.Cum, cy.ObservedC}} {
				if rd.sn == nil || rd.obs == nil {
					continue
				}
				who, se, obs, prevObs := rd.who, rd.sn.Series[d.key], rd.obs[i], prevOf[rd.who]
				prevOf[who] = obs
				if se != nil && se.Type != wantType {
					bad("unexpected_data_type", "collection %d: %s reader reports %s as %s, want %s", k+1, who, d.key, se.Type, wantType)
					continue
				}
				var pts map[int]*point
				if se != nil {
					pts = se.Pts
				}
				for _, set := range keys(pts) {
					if _, ok := obs[set]; !ok {
						bad("async_unobserved_set_reported", "collection %d%s: %s reader reports %s set #%d = %v, which no callback observed in this cycle (observed: %v)", k+1, conc, who, d.key, set, pts[set].Val, obs)
					}
				}
				for _, set := range keys(obs) {
					v := obs[set]
					p := pts[set]
					if p == nil {
						bad("async_observed_set_missing", "collection %d%s: %s reader does not report %s set #%d, observed as %v in this cycle", k+1, conc, who, d.key, set, v)
						continue
					}
					want, kind := v, "async_cumulative_value"
					switch {
					case d.kind == oGauge:
						kind = "async_gauge_value"
					case who == "delta":
						want, kind = v.sub(prevObs[set]), "async_delta_value" // a missing key reads as 0
						negDelta = negDelta || want.neg()
					}
					if !p.Val.eq(want) {
						bad(kind, "collection %d%s: %s reader reports %s set #%d = %v, want %v (observed %v, preceding cycle observed %v)", k+1, conc, who, d.key, set, p.Val, want, obs, prevObs)
					}
				}
			}
		}
	}

	// ---- classification ----
	for k, cy := range w.cycles {
		stray = stray || cy.StrayObs
		for j, ran := range cy.RanMulti {
			if !ran {
				continue
			}
			// did slot j really observe something in cycle k?
			observed := false
			for i := range w.odefs {
				if !w.listed(j, i) {
					continue
				}
				for _, e := range cy.Plan[i] {
					if e.Via == j+1 {
						observed = true
					}
				}
			}
			multiObserved = multiObserved || observed
			if observed {
				for kk := k + 1; kk < len(w.cycles); kk++ {
					if !w.cycles[kk].RanMulti[j] {
						unregMid = true
					}
				}
			}
		}
	}
	n := len(w.cycles)
	info.NonTrivial = n >= 3 && (reappearSync || reappearAsync || unregMid)
	info.ClassIf(n >= 3, "collections>=3")
	info.ClassIf(n >= 10, "collections>=10")
	info.ClassIf(reappearSync, "sync_stream_reported_absent_reported")
	info.ClassIf(reappearAsync, "async_set_observed_absent_observed")
	info.ClassIf(unregMid, "multi_callback_unregistered_mid_history")
	info.ClassIf(multiObserved, "multi_callback_observed")
	info.ClassIf(stray, "observation_for_unregistered_instrument")
	info.ClassIf(negDelta, "async_negative_delta")
	info.ClassIf(scaleDiffers, "expo_delta_and_cumulative_scales_differ")
	info.ClassIf(expoCompared, "expo_buckets_compared")
	info.ClassIf(gaugeRepeat, "gauge_recorded_twice_in_cycle")
	// --- what the Collect calls were given, and what that memory held before ---
	var rmFresh, rmOwn, rmPool, handover, slotShiftCum, slotShiftDelta, twoScopes, otherWidthMem, otherTypeMem bool
	type held struct {
		typ   string
		float bool
		width int
	}
	layout := map[string]map[[2]int]held{} // per reused ResourceMetrics: what each output slot held last
	note := func(id string, sn *snap) {
		if sn == nil {
			return
		}
		switch {
		case id == "fresh":
			rmFresh = true
			return
		case strings.HasPrefix(id, "own"):
			rmOwn = true
		default:
			rmPool = true
		}
		cur := map[[2]int]held{}
		for name, se := range sn.Series {
			h := held{typ: se.Type, float: se.Float}
			for _, p := range se.Pts {
				h.width = max(h.width, len(p.Buckets))
			}
			cur[sn.Slot[name]] = h
			if was, ok := layout[id][sn.Slot[name]]; ok {
				if was.typ == "hist" && h.typ == "hist" && was.float == h.float && was.width != h.width {
					otherWidthMem = true
				}
				otherTypeMem = otherTypeMem || was.typ != h.typ
			}
		}
		layout[id] = cur
	}
	for k, cy := range w.cycles {
		// per reader the order in which the two Collects ran does not matter here
		note(strings.Replace(cy.DeltaRMIs, "own", "own-delta", 1), cy.Delta)
		note(strings.Replace(cy.CumRMIs, "own", "own-cum", 1), cy.Cum)
		handover = handover || cy.Handover
		if cy.Cum != nil {
			for _, sl := range cy.Cum.Slot {
				twoScopes = twoScopes || sl[0] > 0
			}
		}
		if k > 0 {
			pc := w.cycles[k-1]
			if cy.Cum != nil && pc.Cum != nil {
				for name, sl := range cy.Cum.Slot {
					if was, ok := pc.Cum.Slot[name]; ok && was != sl {
						slotShiftCum = true
					}
				}
			}
			if cy.Delta != nil && pc.Delta != nil {
				for name, sl := range cy.Delta.Slot {
					if was, ok := pc.Delta.Slot[name]; ok && was != sl {
						slotShiftDelta = true
					}
				}
			}
		}
	}
	// --- int64 magnitudes beyond what a float64 holds exactly ---
	var hugeSync, hugeThenSmall, hugeAsync, hugeAsyncDelta bool
	hugeKinds := map[string]bool{}
	kindName := map[syncKind]string{kCounter: "counter", kUpDown: "updown", kHist: "explicit_hist", kExpo: "expo_hist", kGauge: "gauge"}
	for i, d := range w.sdefs {
		sawHuge := map[int]int{} // set -> first cycle with a huge value
		for k, cy := range w.cycles {
			for set, vals := range cy.Recorded[i] {
				for _, v := range vals {
					if isHuge(v) {
						hugeSync = true
						hugeKinds[kindName[d.kind]] = true
						if _, ok := sawHuge[set]; !ok {
							sawHuge[set] = k
						}
					} else if at, ok := sawHuge[set]; ok && k > at && d.kind != kGauge {
						hugeThenSmall = true
					}
				}
			}
		}
	}
	for _, cy := range w.cycles {
		for _, obs := range [][]map[int]num{cy.ObservedD, cy.ObservedC} {
			for i := range obs {
				for _, v := range obs[i] {
					if isHuge(v) {
						hugeAsync = true
						hugeAsyncDelta = hugeAsyncDelta || w.odefs[i].kind != oGauge
					}
				}
			}
		}
	}
	info.ClassIf(hugeSync, "int64_beyond_2^53(sync)")
	for _, kn := range []string{"counter", "updown", "explicit_hist", "expo_hist", "gauge"} {
		info.ClassIf(hugeKinds[kn], "int64_beyond_2^53:"+kn)
	}
	info.ClassIf(hugeThenSmall, "int64_huge_then_small_value_in_a_later_cycle(same stream)")
	info.ClassIf(hugeAsync, "int64_beyond_2^53(observable)")
	info.ClassIf(hugeAsyncDelta, "int64_beyond_2^53(observable counter/updown)")
	var failedCycle, failAfterObserving, failThenOK, burstD, burstC, burst3, burstAsync, burstSync bool
	for k, cy := range w.cycles {
		if cy.Failed {
			failedCycle = true
			for kk := k + 1; kk < len(w.cycles); kk++ {
				failThenOK = failThenOK || !w.cycles[kk].Failed
			}
			for i := range w.odefs {
				if cy.ObservedD != nil && len(cy.ObservedD[i]) > 0 && w.failedAt(cy, i) == 2 {
					failAfterObserving = true
				}
			}
		}
		if cy.Burst != "" {
			burstD, burstC = burstD || cy.Burst == "d", burstC || cy.Burst == "c"
			burst3 = burst3 || cy.BurstPos == 2
			obs := cy.ObservedD
			if cy.Burst == "c" {
				obs = cy.ObservedC
			}
			for i := range w.odefs {
				burstAsync = burstAsync || len(obs[i]) > 0
			}
			for i := range w.sdefs {
				burstSync = burstSync || len(cy.Recorded[i]) > 0
			}
		}
	}
	info.ClassIf(failedCycle, "callback_error_in_a_cycle")
	info.ClassIf(failThenOK, "callback_error_then_a_successful_cycle")
	info.ClassIf(failAfterObserving, "callback_observes_then_fails")
	info.ClassIf(burstD, "concurrent_collect(delta reader)")
	info.ClassIf(burstC, "concurrent_collect(cumulative reader)")
	info.ClassIf(burst3, "concurrent_collect(3 goroutines)")
	info.ClassIf(burstAsync, "concurrent_collect_with_async_observations")
	info.ClassIf(burstSync, "concurrent_collect_with_sync_records_in_cycle")
	info.ClassIf(w.ambiguous, "concurrent_collect_order_ambiguous(interval+async clauses skipped)")
	// --- concurrent records, and what the consumers wrote over ---
	var crec, crec4, crecFirst, crecFirstEver, crecGauge bool
	crecKinds := map[string]bool{}
	scrD, scrC := 0, 0
	scrThenReported := false // a stream is reported again by a reader after its consumer wrote over an earlier output of it
	scribbledD, scribbledC := false, false
	for _, cy := range w.cycles {
		if (scribbledD && cy.Delta != nil && len(cy.Delta.Series) > 0) || (scribbledC && cy.Cum != nil && len(cy.Cum.Series) > 0) {
			scrThenReported = true
		}
		scrD, scrC = scrD|cy.DeltaScr, scrC|cy.CumScr
		scribbledD, scribbledC = scribbledD || cy.DeltaScr != 0, scribbledC || cy.CumScr != 0
		for i := range cy.Volley {
			for set, n := range cy.Volley[i] {
				if n < 2 {
					continue
				}
				crec, crec4 = true, crec4 || n >= 4
				crecFirst = crecFirst || cy.VolleyFirst[i][set]
				crecKinds[kindName[w.sdefs[i].kind]] = true
				crecGauge = crecGauge || (w.sdefs[i].kind == kGauge && len(cy.GaugeLast[i][set]) >= 2)
			}
		}
	}
	var rcol, rcolCompared bool
	for _, cy := range w.cycles {
		for i := range cy.Racing {
			rcol = rcol || len(cy.Racing[i]) > 0
		}
	}
	for _, done := range racingCompared {
		rcolCompared = rcolCompared || done
	}
	info.ClassIf(rcol, "records_while_both_readers_collect")
	info.ClassIf(rcolCompared, "records_while_both_readers_collect:running_total_compared_at_a_later_collection")
	crecFirstEver = w.firstEver
	info.ClassIf(crec, "concurrent_records(one stream, >=2 goroutines)")
	info.ClassIf(crec4, "concurrent_records(one stream, >=4 goroutines)")
	info.ClassIf(crecFirst, "concurrent_first_measurements_of_a_set_in_the_cycle")
	info.ClassIf(crecFirstEver, "concurrent_first_measurements_of_a_set_ever")
	info.ClassIf(crecGauge, "gauge_last_value_is_one_of_several_goroutines_last")
	for _, kn := range []string{"counter", "updown", "explicit_hist", "expo_hist", "gauge"} {
		info.ClassIf(crecKinds[kn], "concurrent_records:"+kn)
	}
	for _, b := range []struct {
		bit  int
		name string
	}{{scrBounds, "histogram_bounds"}, {scrCounts, "bucket_counts"}, {scrPoints, "data_points"}, {scrMetrics, "metrics"}, {scrScopes, "scope_metrics"}} {
		info.ClassIf(scrD&b.bit != 0, "consumer_writes_over_delta_output:"+b.name)
		info.ClassIf(scrC&b.bit != 0, "consumer_writes_over_cumulative_output:"+b.name)
	}
	info.ClassIf(scrThenReported, "reader_collects_again_after_its_output_was_written_over")
	info.ClassIf(rmFresh, "rm:fresh(retained outputs re-read)")
	info.ClassIf(rmOwn, "rm:reader_reuses_own_output")
	info.ClassIf(rmPool, "rm:shared_pool_slot")
	info.ClassIf(handover, "rm:output_of_one_reader_given_to_the_other")
	info.ClassIf(otherWidthMem, "rm:explicit_hist_written_over_same_type_hist_of_other_width")
	info.ClassIf(otherTypeMem, "rm:metric_written_over_other_data_type")
	info.ClassIf(slotShiftCum, "output_slot_shift(cumulative)")
	info.ClassIf(slotShiftDelta, "output_slot_shift(delta)")
	info.ClassIf(twoScopes, "two_scopes_in_one_collection")
	// explicit histograms of one number type with different numbers of buckets
	for _, float := range []bool{false, true} {
		widths, widthsByScope := map[int]bool{}, [2]map[int]bool{{}, {}}
		for i, d := range syncDefs {
			if d.kind != kHist || d.float != float {
				continue
			}
			for _, cy := range w.cycles {
				if cy.Cum == nil {
					continue
				}
				if se := cy.Cum.Series[d.name]; se != nil && len(cy.Recorded[i]) > 0 {
					for _, p := range se.Pts {
						widths[len(p.Buckets)] = true
						widthsByScope[d.scope][len(p.Buckets)] = true
					}
				}
			}
		}
		info.ClassIf(len(widths) >= 2, "explicit_hists_of_one_number_type_with_different_widths")
		info.ClassIf(len(widthsByScope[0]) >= 2 || len(widthsByScope[1]) >= 2, "...in_one_scope")
		info.ClassIf(len(widths) >= 2 && len(widthsByScope[0]) >= 1 && len(widthsByScope[1]) >= 1, "...across_two_scopes")
	}
	lateInst, lateScope := false, false
	for sc := 1; sc < len(w.scopeAt); sc++ {
		lateScope = lateScope || w.scopeAt[sc] > 0
	}
	for i := range w.sdefs {
		lateInst = lateInst || w.createdAt[i] > 0
	}
	info.ClassIf(lateInst, "instrument_created_after_a_collection")
	info.ClassIf(lateScope, "scope_first_used_after_a_collection")
	for i, d := range w.sdefs {
		used := false
		for _, cy := range w.cycles {
			used = used || len(cy.Recorded[i]) > 0
		}
		if d.twinOf < 0 {
			info.ClassIf(used, "inst:"+d.name)
		}
	}
	for i, d := range w.odefs {
		used := false
		for _, cy := range w.cycles {
			used = used || (cy.ObservedD != nil && len(cy.ObservedD[i]) > 0) || (cy.ObservedC != nil && len(cy.ObservedC[i]) > 0)
		}
		if d.twinOf < 0 {
			info.ClassIf(used, "inst:"+d.name)
		}
	}
	classifyTwins(w, &info)
	var recAgain, regAgain bool
	var spSync, spObs [4]bool
	for _, op := range w.c.Ops {
		switch op.K {
		case "rec":
			recAgain = recAgain || op.Again
			if op.Sp >= 1 && op.Sp <= 3 {
				spSync[op.Sp] = true
			}
		case "reg":
			regAgain = regAgain || op.Again
		case "plan":
			for _, e := range op.Plan {
				if e.Sp >= 1 && e.Sp <= 3 {
					spObs[e.Sp] = true
				}
			}
		}
	}
	info.ClassIf(recAgain, "record_through_instrument_obtained_once_more")
	info.ClassIf(regAgain, "RegisterCallback_with_meter_and_instruments_obtained_once_more")
	info.ClassIf(spSync[1], "sync_attrs_spelled:WithAttributes")
	info.ClassIf(spObs[1], "observation_attrs_spelled:WithAttributeSet")
	info.ClassIf(spSync[2] || spObs[2], "attrs_spelled:split_over_two_options")
	info.ClassIf(spSync[3] || spObs[3], "attrs_spelled:duplicate_key_overridden_by_later_option")
	return vs, info
}

func anyEq(cands []num, v num) bool {
	for _, c := range cands {
		if c.eq(v) {
			return true
		}
	}
	return false
}

// burstLen is the number of cycles of the concurrent step cycle k belongs to.
func burstLen(w *world, k int) int {
	n := 1
	for j := k + 1; j < len(w.cycles) && w.cycles[j].Burst != "" && w.cycles[j].BurstPos > w.cycles[j-1].BurstPos; j++ {
		n++
	}
	return w.cycles[k].BurstPos + n
}

func diffSnap(a, b *snap) string {
	for name, sa := range a.Series {
		sb := b.Series[name]
		if sb == nil {
			return fmt.Sprintf("%s disappeared", name)
		}
		for set, pa := range sa.Pts {
			pb := sb.Pts[set]
			if pb == nil || !reflect.DeepEqual(pa, pb) {
				return fmt.Sprintf("%s set #%d: then %+v, now %+v", name, set, pa, pb)
			}
		}
		if len(sa.Pts) != len(sb.Pts) {
			return fmt.Sprintf("%s: %d points then, %d now", name, len(sa.Pts), len(sb.Pts))
		}
	}
	if len(a.Series) != len(b.Series) {
		return fmt.Sprintf("%d metrics then, %d now", len(a.Series), len(b.Series))
	}
	return "?"
}

// classifyTwins labels what the twin dimension of the case reached.
func classifyTwins(w *world, info *vk.Info) {
	rootO := func(i int) int {
		if w.odefs[i].twinOf >= 0 {
			return w.odefs[i].twinOf
		}
		return i
	}
	rootS := func(i int) int {
		if w.sdefs[i].twinOf >= 0 {
			return w.sdefs[i].twinOf
		}
		return i
	}
	var sameName, otherName, sameScope, byVersion, bySchema, byAttrs bool
	place := func(scope, home int, unit, desc string) {
		a, b := w.scopes[scope], w.scopes[home]
		switch {
		case scope == home:
			sameScope = true
		case a.Name == b.Name:
			sameName = true
			byVersion = byVersion || a.Version != b.Version
			bySchema = bySchema || a.Schema != b.Schema
			byAttrs = byAttrs || scopeID(ScopeSpec{Attrs: a.Attrs}) != scopeID(ScopeSpec{Attrs: b.Attrs})
		default:
			otherName = true
		}
	}
	nS, nO := 0, 0
	for _, d := range w.sdefs {
		if d.twinOf >= 0 {
			nS++
			place(d.scope, syncDefs[d.twinOf].scope, d.unit, d.desc)
		}
	}
	for _, d := range w.odefs {
		if d.twinOf >= 0 {
			nO++
			place(d.scope, 0, d.unit, d.desc)
		}
	}
	info.ClassIf(nS+nO > 0, "twins")
	info.ClassIf(nS > 0, "twins:synchronous")
	info.ClassIf(nO > 0, "twins:observable")
	info.ClassIf(nO > 0 && w.c.TwinsFirst, "twins:observable_twin_created_before_the_original")
	info.ClassIf(sameName, "twin_in_scope_of_same_name")
	info.ClassIf(byVersion, "twin_in_scope_of_same_name:other_version")
	info.ClassIf(bySchema, "twin_in_scope_of_same_name:other_schema_url")
	info.ClassIf(byAttrs, "twin_in_scope_of_same_name:other_scope_attributes")
	info.ClassIf(otherName, "twin_in_scope_of_other_name")
	info.ClassIf(sameScope, "twin_in_same_scope_under_other_unit_or_description")
	if nS+nO == 0 {
		return
	}
	var pairObs, pairMulti, pairMultiSameSet, pairSameSet, pairOwn, strayKin, pairRec, pairRecSameSet, pairAppearDisappear bool
	for _, cy := range w.cycles {
		// observable kin observed in the same cycle, and how
		type how struct {
			sets  map[int]bool
			multi map[int]bool // sets observed through a RegisterCallback callback
		}
		seen := map[int]how{}
		obs := cy.ObservedD
		if obs == nil {
			obs = cy.ObservedC
		}
		for i := range w.odefs {
			h := how{sets: map[int]bool{}, multi: map[int]bool{}}
			for _, e := range cy.Plan[i] {
				if _, ok := obs[i][e.Set]; !ok {
					if e.Via >= 1 && e.Via-1 < len(cy.RanMulti) && cy.RanMulti[e.Via-1] {
						// dropped observation: is a kin of i registered with that callback?
						for i2 := range w.odefs {
							if i2 != i && rootO(i2) == rootO(i) && w.listed(e.Via-1, i2) {
								strayKin = true
							}
						}
					}
					continue
				}
				h.sets[e.Set] = true
				if e.Via >= 1 {
					h.multi[e.Set] = true
				}
			}
			seen[i] = h
		}
		for i := range w.odefs {
			for i2 := i + 1; i2 < len(w.odefs); i2++ {
				if rootO(i) != rootO(i2) {
					continue
				}
				a, b := seen[i], seen[i2]
				if len(a.sets) > 0 && len(b.sets) > 0 {
					pairObs = true
					pairMulti = pairMulti || (len(a.multi) > 0 && len(b.multi) > 0)
					pairOwn = pairOwn || (len(a.multi) < len(a.sets) && len(b.multi) < len(b.sets))
					for s := range a.sets {
						pairSameSet = pairSameSet || b.sets[s]
						pairMultiSameSet = pairMultiSameSet || (a.multi[s] && b.multi[s])
					}
				}
				pairAppearDisappear = pairAppearDisappear || (len(a.sets) > 0) != (len(b.sets) > 0)
			}
		}
		for i := range w.sdefs {
			for i2 := i + 1; i2 < len(w.sdefs); i2++ {
				if rootS(i) != rootS(i2) || len(cy.Recorded[i]) == 0 || len(cy.Recorded[i2]) == 0 {
					continue
				}
				pairRec = true
				for s := range cy.Recorded[i] {
					pairRecSameSet = pairRecSameSet || len(cy.Recorded[i2][s]) > 0
				}
			}
		}
	}
	info.ClassIf(pairObs, "twins_both_observed_in_one_cycle")
	info.ClassIf(pairOwn, "twins_both_observed_in_one_cycle:by_their_own_callbacks")
	info.ClassIf(pairMulti, "twins_both_observed_in_one_cycle:through_RegisterCallback_callbacks")
	info.ClassIf(pairSameSet, "twins_both_observed_in_one_cycle:same_attribute_set")
	info.ClassIf(pairMultiSameSet, "twins_both_observed_in_one_cycle:same_attribute_set_through_RegisterCallback_callbacks")
	info.ClassIf(pairAppearDisappear, "one_twin_observed_the_other_not_in_a_cycle")
	info.ClassIf(strayKin, "callback_observes_unregistered_twin_of_an_instrument_it_is_registered_for")
	info.ClassIf(pairRec, "sync_twins_both_recorded_in_one_cycle")
	info.ClassIf(pairRecSameSet, "sync_twins_both_recorded_in_one_cycle:same_attribute_set")
}
