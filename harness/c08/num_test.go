package c08

import "strconv"

// num is a measurement value, a sum or an extremum of either number type. It
// carries an int64 and a float64 side; arithmetic is done on both, and
// comparisons use the int64 side as soon as one operand comes from an int64
// instrument. int64 instruments are therefore modelled and compared in exact
// (wrapping, like the SDK's own N arithmetic) integer arithmetic - no float64
// ever touches them - while float64 instruments are compared exactly on
// float64 values the generator keeps exactly summable.
type num struct {
	i     int64
	f     float64
	isInt bool
}

func intNum(i int64) num     { return num{i: i, f: float64(i), isInt: true} }
func floatNum(f float64) num { return num{f: f} }

func toNum[N int64 | float64](v N) num {
	switch x := any(v).(type) {
	case int64:
		return intNum(x)
	case float64:
		return floatNum(x)
	}
	panic("unreachable")
}

func (a num) add(b num) num { return num{i: a.i + b.i, f: a.f + b.f, isInt: a.isInt || b.isInt} }
func (a num) sub(b num) num { return num{i: a.i - b.i, f: a.f - b.f, isInt: a.isInt || b.isInt} }

func (a num) eq(b num) bool {
	if a.isInt || b.isInt {
		return a.i == b.i
	}
	return a.f == b.f
}

func (a num) less(b num) bool {
	if a.isInt || b.isInt {
		return a.i < b.i
	}
	return a.f < b.f
}

func (a num) neg() bool { return a.less(num{}) }

func numMin(a, b num) num {
	if b.less(a) {
		return b
	}
	return a
}

func numMax(a, b num) num {
	if a.less(b) {
		return b
	}
	return a
}

// float is the value as the exponential histogram sees it.
func (a num) float() float64 {
	if a.isInt {
		return float64(a.i)
	}
	return a.f
}

func (a num) String() string {
	if a.isInt {
		return strconv.FormatInt(a.i, 10)
	}
	return strconv.FormatFloat(a.f, 'g', -1, 64)
}
