// Package c05 decides property C05 (attribute sets are canonical) by
// comparing attribute.Set against a map[key]lastValue model over generated
// key-value lists, permutations / duplications of them and filters.
package c05

import (
	"encoding/json"
	"fmt"
	"math"
	"sort"
	"strconv"
	"strings"
	"testing"
	"unicode/utf8"

	"go.opentelemetry.io/otel/attribute"
	"go.opentelemetry.io/otel/verif/internal/vk"
	"pgregory.net/rapid"
)

// Case is one generated input.
type Case struct {
	KVs    []vk.KV  `json:"kvs"`
	Order  []int    `json:"order"`  // interleaving recipe for the derived list
	Dup    []bool   `json:"dup"`    // which items are duplicated in the derived list
	Other  []vk.KV  `json:"other"`  // a second list (equality / merge partner)
	Filter []string `json:"filter"` // key subset
	Deny   bool     `json:"deny"`   // filter is a deny list instead of an allow list
	Probes []string `json:"probes"` // keys looked up with Value/HasValue
}

var keys = []string{"a", "b", "c", "d", "e", "f", "g", "h", "i", "j", "k", "l", "m", "n", "aa", "A", "k.long.key"}

func gen(t *rapid.T) Case {
	// Two alphabets: a short one (many duplicates) and a long one (reaches
	// the >10 reflect path with distinct keys).
	ks := keys[:6]
	if rapid.Bool().Draw(t, "longalpha") {
		ks = keys
	}
	o := vk.KVOpts{Keys: ks, EmptyKey: true, Invalid: true, InvalidUTF8: true, NaN: true, MaxSlice: 3, MaxTextParts: 4}
	c := Case{}
	c.KVs = vk.GenKVs(o, 24, 0, 1, 2, 9, 10, 11, 12, 17).Draw(t, "kvs")
	c.Order = rapid.SliceOfN(rapid.IntRange(0, 63), len(c.KVs), len(c.KVs)).Draw(t, "order")
	c.Dup = rapid.SliceOfN(rapid.Bool(), len(c.KVs), len(c.KVs)).Draw(t, "dup")
	switch rapid.IntRange(0, 3).Draw(t, "otherkind") {
	case 0: // unrelated
		c.Other = vk.GenKVs(o, 14, 0, 1, 10, 11).Draw(t, "other")
	case 1: // same as KVs with one value changed
		c.Other = append([]vk.KV{}, c.KVs...)
		if len(c.Other) > 0 {
			i := rapid.IntRange(0, len(c.Other)-1).Draw(t, "mut")
			nv := vk.GenKV(o).Draw(t, "mutkv")
			nv.K = c.Other[i].K
			c.Other = append(c.Other, nv)
		}
	case 2: // one key removed / added
		c.Other = append([]vk.KV{}, c.KVs...)
		c.Other = append(c.Other, vk.GenKV(o).Draw(t, "extra"))
	default: // identical content
		c.Other = append([]vk.KV{}, c.KVs...)
	}
	c.Filter = rapid.SliceOfN(rapid.SampledFrom(append([]string{""}, ks...)), 0, 6).Draw(t, "filter")
	c.Deny = rapid.Bool().Draw(t, "deny")
	c.Probes = rapid.SliceOfN(rapid.SampledFrom(append([]string{"", "\x00", "0", "zz", "\xff\xff", "ab"}, ks...)), 1, 5).Draw(t, "probes")
	return c
}

// model is the reference: key -> last value, rendered bit-exactly.
type model struct {
	keys []string // sorted
	val  map[string]attribute.Value
}

func newModel(kvs []attribute.KeyValue) model {
	m := model{val: map[string]attribute.Value{}}
	for _, kv := range kvs {
		m.val[string(kv.Key)] = kv.Value
	}
	for k := range m.val {
		m.keys = append(m.keys, k)
	}
	sort.Strings(m.keys)
	return m
}

func (m model) render() []string {
	out := make([]string, len(m.keys))
	for i, k := range m.keys {
		out[i] = fmt.Sprintf("%q=%s", k, vk.ValueKey(m.val[k]))
	}
	return out
}

func renderSlice(kvs []attribute.KeyValue) []string {
	out := make([]string, len(kvs))
	for i, kv := range kvs {
		out[i] = fmt.Sprintf("%q=%s", string(kv.Key), vk.ValueKey(kv.Value))
	}
	return out
}

func sameStrings(a, b []string) bool {
	if len(a) != len(b) {
		return false
	}
	for i := range a {
		if a[i] != b[i] {
			return false
		}
	}
	return true
}

func multiset(kvs []attribute.KeyValue) map[string]int {
	m := map[string]int{}
	for _, s := range renderSlice(kvs) {
		m[s]++
	}
	return m
}

func sameMultiset(a, b map[string]int) bool {
	if len(a) != len(b) {
		return false
	}
	for k, v := range a {
		if b[k] != v {
			return false
		}
	}
	return true
}

// goEqualValue is Go-level (==) equality of typed values: floats compare as
// floats (NaN != NaN, +0 == -0).
func goEqualValue(a, b attribute.Value) bool {
	if a.Type() != b.Type() {
		return false
	}
	switch a.Type() {
	case attribute.FLOAT64:
		return a.AsFloat64() == b.AsFloat64()
	case attribute.FLOAT64SLICE:
		x, y := a.AsFloat64Slice(), b.AsFloat64Slice()
		if len(x) != len(y) {
			return false
		}
		for i := range x {
			if x[i] != y[i] {
				return false
			}
		}
		return true
	}
	return vk.ValueKey(a) == vk.ValueKey(b)
}

func (m model) bitEqual(o model) bool { return sameStrings(m.render(), o.render()) }

func (m model) goEqual(o model) bool {
	if !sameStrings(m.keys, o.keys) {
		return false
	}
	for _, k := range m.keys {
		if !goEqualValue(m.val[k], o.val[k]) {
			return false
		}
	}
	return true
}

func (m model) hasNaNSlice() bool {
	for _, v := range m.val {
		if v.Type() == attribute.FLOAT64SLICE {
			for _, f := range v.AsFloat64Slice() {
				if math.IsNaN(f) {
					return true
				}
			}
		}
	}
	return false
}

// derived builds a permuted + duplicated list with the same last value per key.
func derived(c Case) []vk.KV {
	groups := map[string][]vk.KV{}
	var order []string
	for i, kv := range c.KVs {
		k := string(kv.K)
		if _, ok := groups[k]; !ok {
			order = append(order, k)
		}
		if i < len(c.Dup) && c.Dup[i] {
			groups[k] = append(groups[k], kv)
		}
		groups[k] = append(groups[k], kv)
	}
	var out []vk.KV
	step := 0
	for len(order) > 0 {
		pick := 0
		if step < len(c.Order) {
			pick = c.Order[step] % len(order)
		}
		step++
		k := order[pick]
		out = append(out, groups[k][0])
		groups[k] = groups[k][1:]
		if len(groups[k]) == 0 {
			order = append(order[:pick], order[pick+1:]...)
		}
	}
	return out
}

func mkFilter(c Case) (attribute.Filter, func(string) bool) {
	ks := make([]attribute.Key, len(c.Filter))
	in := map[string]bool{}
	for i, k := range c.Filter {
		ks[i] = attribute.Key(k)
		in[k] = true
	}
	if c.Deny {
		// NewDenyKeysFilter() with no keys allows everything.
		return attribute.NewDenyKeysFilter(ks...), func(k string) bool { return !in[k] }
	}
	// NewAllowKeysFilter() with no keys denies everything.
	return attribute.NewAllowKeysFilter(ks...), func(k string) bool { return in[k] }
}

func refEscape(s string) string {
	return strings.NewReplacer(`\`, `\\`, `=`, `\=`, `,`, `\,`).Replace(s)
}

func run(c Case) ([]vk.Violation, vk.Info) {
	var vs []vk.Violation
	var info vk.Info
	bad := func(kind, format string, a ...any) { vs = append(vs, vk.V(kind, format, a...)) }

	input := vk.ToAttrs(c.KVs)
	m := newModel(input)
	want := m.render()
	inputMS := multiset(input)

	// --- construction ---
	work := append([]attribute.KeyValue{}, input...)
	s := attribute.NewSet(work...)
	got := s.ToSlice()
	if !sameStrings(renderSlice(got), want) {
		bad("toslice_model", "ToSlice() = %v, model %v", renderSlice(got), want)
	}
	for i := 1; i < len(got); i++ {
		if !(got[i-1].Key < got[i].Key) {
			bad("not_strictly_sorted", "keys %q, %q at %d", got[i-1].Key, got[i].Key, i)
		}
	}
	if !sameMultiset(multiset(work), inputMS) {
		bad("caller_slice_lost_values", "caller slice after NewSet %v, passed %v", renderSlice(work), renderSlice(input))
	}
	if s.Len() != len(m.keys) {
		bad("len", "Len() = %d, model %d", s.Len(), len(m.keys))
	}
	for i := -1; i <= len(m.keys); i++ {
		kv, ok := s.Get(i)
		if i < 0 || i >= len(m.keys) {
			if ok {
				bad("get_out_of_range", "Get(%d) ok", i)
			}
			continue
		}
		if !ok || string(kv.Key) != m.keys[i] || vk.ValueKey(kv.Value) != vk.ValueKey(m.val[m.keys[i]]) {
			bad("get", "Get(%d) = %v,%v", i, renderSlice([]attribute.KeyValue{kv}), ok)
		}
	}
	probes := append([]string{}, c.Probes...)
	probes = append(probes, m.keys...)
	for _, p := range probes {
		v, ok := s.Value(attribute.Key(p))
		mv, mok := m.val[p]
		if ok != mok || (ok && vk.ValueKey(v) != vk.ValueKey(mv)) {
			bad("value_lookup", "Value(%q) = %s,%v; model %s,%v", p, vk.ValueKey(v), ok, vk.ValueKey(mv), mok)
		}
		if s.HasValue(attribute.Key(p)) != mok {
			bad("hasvalue", "HasValue(%q) = %v, model %v", p, !mok, mok)
		}
	}
	it := s.Iter()
	n := 0
	for it.Next() {
		i, kv := it.IndexedAttribute()
		if i != n || n >= len(m.keys) || string(kv.Key) != m.keys[n] {
			bad("iter", "iteration step %d yields index %d key %q", n, i, kv.Key)
			break
		}
		n++
	}
	if n != len(m.keys) || it.Len() != len(m.keys) {
		bad("iter_len", "iterated %d (Len %d), model %d", n, it.Len(), len(m.keys))
	}
	// Iterator.ToSlice is documented to start from the beginning whatever the
	// position of the iterator is (fresh, part-way, exhausted).
	for _, adv := range []int{0, 1, len(m.keys) / 2, len(m.keys), len(m.keys) + 1} {
		it2 := s.Iter()
		for k := 0; k < adv; k++ {
			it2.Next()
		}
		if ts := it2.ToSlice(); !sameStrings(renderSlice(ts), want) {
			bad("iterator_toslice", "Iterator.ToSlice() after %d Next() calls = %v, model %v", adv, renderSlice(ts), want)
		}
		if it2.Len() != len(m.keys) {
			bad("iter_len", "Iterator.Len() after %d Next() calls = %d, model %d", adv, it2.Len(), len(m.keys))
		}
	}
	// a custom encoder that peeks before it serialises sees the same contents
	if enc := s.Encoded(peekEncoder{}); enc != strings.Join(want, ";") {
		bad("custom_encoder", "Encoded(custom encoder) = %q, contents %q", enc, strings.Join(want, ";"))
	}

	// --- identity: self, derived list, other ---
	selfEq := s.Equals(&s) && s.Equivalent() == s.Equivalent()
	if !selfEq {
		bad("not_self_equal", "Set %v does not equal itself", want)
	}
	dl := vk.ToAttrs(derived(c))
	dm := newModel(dl)
	if !dm.bitEqual(m) {
		panic("harness bug: derived list changes the model")
	}
	s2 := attribute.NewSet(dl...)
	if !s.Equals(&s2) || !s2.Equals(&s) || s.Equivalent() != s2.Equivalent() {
		bad("order_dup_sensitive", "NewSet(input) != NewSet(permuted+duplicated input): %v vs %v", renderSlice(s.ToSlice()), renderSlice(s2.ToSlice()))
	}
	idx := map[attribute.Distinct]int{s.Equivalent(): 1}
	if _, ok := idx[s2.Equivalent()]; !ok {
		bad("map_key_unstable", "Equivalent() of an equal set misses as map key: %v", want)
	}
	// the same mapping obtained through the other constructors of every value
	// type (attribute.Int / IntSlice / Key.X / XValue / Stringer ...)
	for shift := 0; shift < 3; shift++ {
		alt := make([]attribute.KeyValue, 0, len(m.keys))
		for i, k := range m.keys {
			alt = append(alt, altKeyValue(k, m.val[k], i+shift))
		}
		s3 := attribute.NewSet(alt...)
		if !sameStrings(renderSlice(s3.ToSlice()), want) {
			bad("constructor_sensitive", "the set built through alternative constructors (variant %d) holds %v, model %v", shift, renderSlice(s3.ToSlice()), want)
		} else if !s.Equals(&s3) || !s3.Equals(&s) || s.Equivalent() != s3.Equivalent() {
			bad("constructor_sensitive", "the set built through alternative constructors (variant %d) holds the same key -> typed value mapping %v but is not Equal / has another Equivalent()", shift, want)
		}
	}
	// what Emit renders can be read back into the value (an independent
	// reading of "encoding agrees with the contents")
	for _, k := range m.keys {
		if why := emitDisagrees(m.val[k]); why != "" {
			bad("emit_disagrees", "key %q: %s", k, why)
		}
	}
	other := vk.ToAttrs(c.Other)
	om := newModel(other)
	so := attribute.NewSet(append([]attribute.KeyValue{}, other...)...)
	eq := s.Equals(&so)
	if eq != so.Equals(&s) || eq != (s.Equivalent() == so.Equivalent()) {
		bad("equals_inconsistent", "Equals not symmetric / disagrees with Equivalent()==")
	}
	be, ge := m.bitEqual(om), m.goEqual(om)
	switch {
	case be && !eq:
		bad("same_mapping_not_equal", "sets with identical key->typed value mapping are not Equal: %v", want)
	case !be && !ge && eq:
		bad("different_mapping_equal", "sets with different mappings are Equal: %v vs %v", want, om.render())
	}
	_, hit := idx[so.Equivalent()]
	if (be && !hit) || (!be && !ge && hit) {
		bad("map_key_identity", "map lookup by Equivalent() = %v; bit-equal %v go-equal %v", hit, be, ge)
	}

	// --- the other constructors and renderings agree with the contents ---
	{
		var tmp attribute.Sortable
		viaSortable := attribute.NewSetWithSortable(append([]attribute.KeyValue{}, input...), &tmp) //nolint:staticcheck // deprecated, still exported
		if !sameStrings(renderSlice(viaSortable.ToSlice()), want) {
			bad("newsetwithsortable", "NewSetWithSortable = %v, model %v", renderSlice(viaSortable.ToSlice()), want)
		}
		ml, ok := s.MarshalLog().(map[string]string)
		if !ok || len(ml) != len(m.keys) {
			bad("marshallog", "MarshalLog() = %v, model has %d keys", s.MarshalLog(), len(m.keys))
		} else {
			for _, k := range m.keys {
				if ml[k] != m.val[k].Emit() {
					bad("marshallog", "MarshalLog()[%q] = %q, model %q", k, ml[k], m.val[k].Emit())
				}
			}
		}
	}

	// --- every way of obtaining an empty set is the same set ---
	{
		var zero attribute.Set
		denyAll := attribute.NewAllowKeysFilter()
		viaFilter, _ := s.Filter(denyAll)
		viaCtor, _ := attribute.NewSetWithFiltered(append([]attribute.KeyValue{}, input...), denyAll)
		ctor := attribute.NewSet()
		empties := []*attribute.Set{&zero, new(attribute.Set), &ctor, attribute.EmptySet(), nil, &viaFilter, &viaCtor}
		names := []string{"zero value", "new(Set)", "NewSet()", "EmptySet()", "nil *Set", "Filter(deny all)", "NewSetWithFiltered(deny all)"}
		keyed := map[attribute.Distinct]string{}
		for i, e := range empties {
			if e.Len() != 0 || len(e.ToSlice()) != 0 {
				bad("empty_not_empty", "%s has Len %d", names[i], e.Len())
			}
			for j, o := range empties {
				if !e.Equals(o) || e.Equivalent() != o.Equivalent() {
					bad("empty_sets_differ", "the empty sets obtained as %s and as %s are not Equal / have different Equivalent()", names[i], names[j])
				}
			}
			if prev, ok := keyed[e.Equivalent()]; !ok && len(keyed) > 0 {
				bad("empty_sets_differ", "the empty set obtained as %s has another Equivalent() map key than the others", names[i])
			} else if !ok {
				keyed[e.Equivalent()] = names[i]
				_ = prev
			}
			if eq := e.Equals(&s); eq != (len(m.keys) == 0) || eq != s.Equals(e) {
				bad("empty_vs_set", "%s Equals the set under test = %v, but the set has %d keys", names[i], eq, len(m.keys))
			}
		}
	}

	// --- filtering ---
	f, keep := mkFilter(c)
	var wantKept, wantDropped []string
	for _, k := range m.keys {
		r := fmt.Sprintf("%q=%s", k, vk.ValueKey(m.val[k]))
		if keep(k) {
			wantKept = append(wantKept, r)
		} else {
			wantDropped = append(wantDropped, r)
		}
	}
	before := renderSlice(s.ToSlice())
	ks, dropped := s.Filter(f)
	if !sameStrings(renderSlice(ks.ToSlice()), wantKept) {
		bad("filter_kept", "Filter kept %v, model %v", renderSlice(ks.ToSlice()), wantKept)
	}
	dr := renderSlice(dropped)
	sort.Strings(dr)
	wd := append([]string{}, wantDropped...)
	sort.Strings(wd)
	if !sameStrings(dr, wd) {
		bad("filter_dropped", "Filter dropped %v, model %v", dr, wd)
	}
	// What a call returned belongs to the caller: later Filter calls (on this
	// and on other sets, dropping other things) must not change it.
	_, droppedOther := so.Filter(f)
	inverse := func(kv attribute.KeyValue) bool { return !f(kv) }
	_, droppedInverse := s.Filter(inverse)
	_, _ = so.Filter(inverse)
	dr = renderSlice(dropped)
	sort.Strings(dr)
	if !sameStrings(dr, wd) {
		bad("filter_dropped_changed_later", "the dropped list returned by Filter changed when Filter was called again: now %v, model %v", dr, wd)
	}
	di := renderSlice(droppedInverse)
	sort.Strings(di)
	wk := append([]string{}, wantKept...)
	sort.Strings(wk)
	if !sameStrings(di, wk) {
		bad("filter_dropped", "Filter with the inverse predicate dropped %v (read after a further Filter call), model %v", di, wk)
	}
	_ = droppedOther
	// scribble over what Filter returned: the original must not notice.
	for i := range dropped {
		dropped[i] = attribute.String("scribble", "x")
	}
	if !sameStrings(renderSlice(s.ToSlice()), before) {
		bad("filter_mutates_receiver", "receiver changed by Filter: %v -> %v", before, renderSlice(s.ToSlice()))
	}
	if !sameStrings(renderSlice(ks.ToSlice()), wantKept) {
		bad("filter_result_aliases_dropped", "kept set changed when the dropped slice was written")
	}
	work2 := append([]attribute.KeyValue{}, input...)
	fs, fdropped := attribute.NewSetWithFiltered(work2, f)
	if !sameStrings(renderSlice(fs.ToSlice()), wantKept) {
		bad("newsetfiltered_kept", "NewSetWithFiltered kept %v, model %v", renderSlice(fs.ToSlice()), wantKept)
	}
	fd := renderSlice(fdropped)
	sort.Strings(fd)
	if !sameStrings(fd, wd) {
		bad("newsetfiltered_dropped", "NewSetWithFiltered dropped %v, model %v", fd, wd)
	}
	if !sameMultiset(multiset(work2), inputMS) {
		bad("caller_slice_lost_values", "caller slice after NewSetWithFiltered %v, passed %v", renderSlice(work2), renderSlice(input))
	}
	if !fs.Equals(&ks) && !m.hasNaNSlice() {
		bad("filter_paths_disagree", "Set.Filter and NewSetWithFiltered give unequal sets")
	}

	// --- merge ---
	mi := attribute.NewMergeIterator(&s, &so)
	var merged []attribute.KeyValue
	for mi.Next() {
		merged = append(merged, mi.Attribute())
	}
	union := newModel(append(append([]attribute.KeyValue{}, so.ToSlice()...), s.ToSlice()...)) // s wins
	if !sameStrings(renderSlice(merged), union.render()) {
		bad("merge", "MergeIterator = %v, model %v", renderSlice(merged), union.render())
	}

	// --- encoding ---
	allValid := true
	for _, k := range m.keys {
		if !utf8.ValidString(k) || (m.val[k].Type() == attribute.STRING && !utf8.ValidString(m.val[k].AsString())) {
			allValid = false
		}
	}
	if allValid {
		var parts []string
		for _, k := range m.keys {
			v := m.val[k]
			if v.Type() == attribute.STRING {
				parts = append(parts, refEscape(k)+"="+refEscape(v.AsString()))
			} else {
				parts = append(parts, refEscape(k)+"="+v.Emit())
			}
		}
		if enc := s.Encoded(attribute.DefaultEncoder()); enc != strings.Join(parts, ",") {
			bad("encoded", "Encoded = %q, reference %q", enc, strings.Join(parts, ","))
		}
	}

	dup := len(input) > len(m.keys)
	split := len(wantKept) > 0 && len(wantDropped) > 0
	info.NonTrivial = dup || len(m.keys) >= 11 || split
	info.ClassIf(dup, "duplicate_keys")
	info.ClassIf(len(m.keys) >= 11, "reflect_path(>=11 distinct)")
	info.ClassIf(len(m.keys) == 10, "exactly_10_distinct")
	info.ClassIf(len(m.keys) == 0, "empty_set")
	info.ClassIf(split, "filter_splits")
	info.ClassIf(m.hasNaNSlice(), "nan_in_float64slice")
	info.ClassIf(be, "other_bit_equal")
	info.ClassIf(!be && !ge, "other_differs")
	info.ClassIf(be != ge, "other_equal_under_one_notion_only")
	return vs, info
}

// peekEncoder is a user-defined attribute.Encoder: it looks at the first
// attribute (Next) and then renders iter.ToSlice().
type peekEncoder struct{}

var peekEncoderID = attribute.NewEncoderID()

func (peekEncoder) ID() attribute.EncoderID { return peekEncoderID }
func (peekEncoder) Encode(it attribute.Iterator) string {
	it.Next()
	return strings.Join(renderSlice(it.ToSlice()), ";")
}

func TestSetModel(t *testing.T) {
	vk.Run(t, vk.Spec[Case]{
		Property: "C05", Check: "set_model",
		Rule: "kv lists of 0..24 over all eight value types (NaN, signed zeros, empty/invalid keys, invalid UTF-8), a permuted+duplicated derivative, a partner list and an allow/deny key filter; " +
			"non-trivial = the list has a duplicate key, or >= 11 distinct keys (reflect path), or the filter splits the set into two non-empty parts; distinct = distinct case encodings",
		Quick: 20000, Thorough: 300000,
		Gen: gen, Run: run,
		Known: map[string]func(Case, vk.Violation) bool{
			// an attribute.Set holding a FLOAT64SLICE with NaN is not equal to itself.
			"float64slice_contains_nan": func(c Case, v vk.Violation) bool {
				switch v.Kind {
				case "not_self_equal", "order_dup_sensitive", "constructor_sensitive", "map_key_unstable", "same_mapping_not_equal", "map_key_identity":
					return newModel(vk.ToAttrs(c.KVs)).hasNaNSlice()
				}
				return false
			},
		},
	})
}

type strer string

func (s strer) String() string { return string(s) }

// altKeyValue builds k -> v through the n-th of the public constructors that
// yield this typed value.
func altKeyValue(k string, v attribute.Value, n int) attribute.KeyValue {
	key := attribute.Key(k)
	switch v.Type() {
	case attribute.BOOL:
		b := v.AsBool()
		return [...]attribute.KeyValue{attribute.Bool(k, b), key.Bool(b), {Key: key, Value: attribute.BoolValue(b)}}[n%3]
	case attribute.INT64:
		i := v.AsInt64()
		return [...]attribute.KeyValue{attribute.Int64(k, i), attribute.Int(k, int(i)), key.Int64(i), key.Int(int(i)), {Key: key, Value: attribute.IntValue(int(i))}, {Key: key, Value: attribute.Int64Value(i)}}[n%6]
	case attribute.FLOAT64:
		f := v.AsFloat64()
		return [...]attribute.KeyValue{attribute.Float64(k, f), key.Float64(f), {Key: key, Value: attribute.Float64Value(f)}}[n%3]
	case attribute.STRING:
		str := v.AsString()
		return [...]attribute.KeyValue{attribute.String(k, str), key.String(str), attribute.Stringer(k, strer(str)), {Key: key, Value: attribute.StringValue(str)}}[n%4]
	case attribute.BOOLSLICE:
		bs := v.AsBoolSlice()
		return [...]attribute.KeyValue{attribute.BoolSlice(k, bs), key.BoolSlice(bs), {Key: key, Value: attribute.BoolSliceValue(bs)}}[n%3]
	case attribute.INT64SLICE:
		is := v.AsInt64Slice()
		ints := make([]int, len(is))
		for j, x := range is {
			ints[j] = int(x)
		}
		var nilInts []int
		if len(ints) == 0 && n%2 == 1 {
			ints = nilInts
		}
		return [...]attribute.KeyValue{attribute.Int64Slice(k, is), attribute.IntSlice(k, ints), key.Int64Slice(is), key.IntSlice(ints), {Key: key, Value: attribute.IntSliceValue(ints)}, {Key: key, Value: attribute.Int64SliceValue(is)}}[n%6]
	case attribute.FLOAT64SLICE:
		fs := v.AsFloat64Slice()
		return [...]attribute.KeyValue{attribute.Float64Slice(k, fs), key.Float64Slice(fs), {Key: key, Value: attribute.Float64SliceValue(fs)}}[n%3]
	case attribute.STRINGSLICE:
		ss := v.AsStringSlice()
		return [...]attribute.KeyValue{attribute.StringSlice(k, ss), key.StringSlice(ss), {Key: key, Value: attribute.StringSliceValue(ss)}}[n%3]
	}
	return attribute.KeyValue{Key: key, Value: v}
}

// emitDisagrees reads v.Emit() back and compares it with the contents. It
// returns "" when they agree. Non-finite floats inside a FLOAT64SLICE have no
// JSON form: only a non-empty rendering is asked for there.
func emitDisagrees(v attribute.Value) string {
	e := v.Emit()
	switch v.Type() {
	case attribute.BOOL:
		if b, err := strconv.ParseBool(e); err != nil || b != v.AsBool() {
			return fmt.Sprintf("Emit() = %q for the bool %v", e, v.AsBool())
		}
	case attribute.INT64:
		if i, err := strconv.ParseInt(e, 10, 64); err != nil || i != v.AsInt64() {
			return fmt.Sprintf("Emit() = %q for the int64 %d", e, v.AsInt64())
		}
	case attribute.FLOAT64:
		f, err := strconv.ParseFloat(e, 64)
		w := v.AsFloat64()
		if err != nil || !(f == w || (f != f && w != w)) {
			return fmt.Sprintf("Emit() = %q for the float64 %v", e, w)
		}
	case attribute.STRING:
		if e != v.AsString() {
			return fmt.Sprintf("Emit() = %q for the string %q", e, v.AsString())
		}
	case attribute.BOOLSLICE:
		var got []bool
		for _, f := range strings.Fields(strings.Trim(e, "[]")) {
			b, err := strconv.ParseBool(f)
			if err != nil {
				return fmt.Sprintf("Emit() = %q for the bool slice %v", e, v.AsBoolSlice())
			}
			got = append(got, b)
		}
		if fmt.Sprint(got) != fmt.Sprint(append([]bool(nil), v.AsBoolSlice()...)) {
			return fmt.Sprintf("Emit() = %q for the bool slice %v", e, v.AsBoolSlice())
		}
	case attribute.INT64SLICE:
		var got []int64
		if err := json.Unmarshal([]byte(e), &got); err != nil || fmt.Sprint(got) != fmt.Sprint(append([]int64(nil), v.AsInt64Slice()...)) {
			return fmt.Sprintf("Emit() = %q for the int64 slice %v", e, v.AsInt64Slice())
		}
	case attribute.FLOAT64SLICE:
		w := v.AsFloat64Slice()
		for _, f := range w {
			if math.IsNaN(f) || math.IsInf(f, 0) {
				if e == "" {
					return fmt.Sprintf("Emit() is empty for the float64 slice %v", w)
				}
				return ""
			}
		}
		var got []float64
		if err := json.Unmarshal([]byte(e), &got); err != nil || len(got) != len(w) {
			return fmt.Sprintf("Emit() = %q for the float64 slice %v", e, w)
		}
		for i := range w {
			if got[i] != w[i] {
				return fmt.Sprintf("Emit() = %q for the float64 slice %v", e, w)
			}
		}
	case attribute.STRINGSLICE:
		w := v.AsStringSlice()
		for _, x := range w {
			if !utf8.ValidString(x) {
				return "" // JSON replaces invalid bytes: not asserted
			}
		}
		var got []string
		if err := json.Unmarshal([]byte(e), &got); err != nil || len(got) != len(w) {
			return fmt.Sprintf("Emit() = %q for the string slice %q", e, w)
		}
		for i := range w {
			if got[i] != w[i] {
				return fmt.Sprintf("Emit() = %q for the string slice %q", e, w)
			}
		}
	}
	return ""
}
