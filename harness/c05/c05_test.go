// Package c05 decides property C05 (attribute sets are canonical) by
// comparing attribute.Set against a map[key]lastValue model over generated
// key-value lists, permutations / duplications of them and filters.
//
// The model is built from the generated DATA (vk.KV: the bytes / bits that
// are handed to the constructors), never from the attribute.Value the
// library's constructors return: "no input value is lost" and "the value
// supplied last" are about what the caller supplied (rawKey in model.go).
//
// Sub-checks:
//   - set_model     one list -> one Set, everything observable compared with
//     the model (this file, model.go, twins.go, extra.go)
//   - slot_program  a generated sequence of assignments to / observations of
//     a few Set *storage locations* (slots_test.go): a Set is a plain value,
//     a variable holding one may be assigned another; every observation
//     (Encoded with several encoders, Equals, Equivalent as map key, lookups,
//     iteration, merging) must agree with what the location holds NOW.
//   - key_filters   the library's own predicates (NewAllowKeysFilter /
//     NewDenyKeysFilter) built from key slices the caller lends and goes on
//     using; every filter keeps splitting by the keys given at construction
//     (keyfilters_test.go)
//   - concurrent_twins  2..8 goroutines each running the sequential property
//     on their own data at the same moment; sequential oracle per goroutine
//     (concurrent_test.go)
//
// Readings of the statement chosen where it is ambiguous:
//   - pairs of sets equal under exactly one of {bitwise, Go ==} are not
//     asserted either way;
//   - "encoding agrees with the contents" is asserted for Encoded (default
//     encoder: reference escaping; user encoders: the iterator they are given
//     shows the contents), Emit (read back), MarshalLog and, when it succeeds,
//     MarshalJSON (read back); that MarshalJSON succeeds is not asserted;
//   - strings are byte strings: bytes that are not valid UTF-8 are part of the
//     value (renderings that cannot carry them - JSON, the default encoder's
//     rune loop - are not compared for such values).
package c05

import (
	"encoding/json"
	"fmt"
	"math"
	"strconv"
	"strings"
	"testing"
	"unicode/utf8"

	"go.opentelemetry.io/otel/attribute"
	"go.opentelemetry.io/otel/verif/internal/vk"
	"pgregory.net/rapid"
)

// Case is one generated input.
type Case struct {
	KVs    []vk.KV  `json:"kvs"`
	Order  []int    `json:"order"`  // interleaving recipe for the derived list
	Dup    []bool   `json:"dup"`    // which items are duplicated in the derived list
	Other  []vk.KV  `json:"other"`  // a second list (equality / merge partner)
	FKind  string   `json:"fkind"`  // predicate family: "keys" (default), "types", "below", "valid"
	Filter []string `json:"filter"` // key subset ("keys") / type-tag subset ("types")
	Pivot  vk.Str   `json:"pivot"`  // "below": keep keys < Pivot
	Deny   bool     `json:"deny"`   // the predicate is negated (deny list instead of allow list)
	Probes []string `json:"probes"` // keys looked up with Value/HasValue
}

var keys = []string{"a", "b", "c", "d", "e", "f", "g", "h", "i", "j", "k", "l", "m", "n", "aa", "A", "k.long.key"}

var typeTags = []string{"bool", "int", "float", "str", "bools", "ints", "floats", "strs", "invalid"}

// wideKeys is a large key space whose byte order differs from its numeric
// order ("k10" < "k2") and whose members share prefixes.
func wideKeys(n int) []string {
	out := make([]string, 0, n+2)
	for i := 0; i < n; i++ {
		out = append(out, "k"+strconv.Itoa(i))
	}
	return append(out, "k", "k\x00")
}

func gen(t *rapid.T) Case {
	// Three alphabets: a short one (many duplicates), a long one (reaches the
	// >10 reflect path with distinct keys) and, occasionally, a wide one with
	// list lengths drawn on a log scale ("very long slices").
	ks := keys[:6]
	maxLen, corners := 24, []int{0, 1, 2, 9, 10, 11, 12, 17}
	switch rapid.IntRange(0, 59).Draw(t, "alphabet") {
	case 0:
		bits := rapid.IntRange(5, 10).Draw(t, "lenbits")
		maxLen, corners = 1<<bits, nil
		ks = wideKeys(rapid.SampledFrom([]int{4, 40, 400}).Draw(t, "keyspace"))
	case 1, 2, 3, 4, 5, 6, 7, 8, 9, 10, 11, 12, 13, 14, 15, 16, 17, 18, 19, 20, 21, 22, 23, 24, 25, 26, 27, 28, 29, 30:
		ks = keys
	}
	wide := corners == nil
	o := vk.KVOpts{Keys: ks, EmptyKey: true, Invalid: true, InvalidUTF8: true, NaN: true, MaxSlice: 3, MaxTextParts: 4}
	c := Case{}
	c.KVs = vk.GenKVs(o, maxLen, corners...).Draw(t, "kvs")
	c.Order = rapid.SliceOfN(rapid.IntRange(0, 63), len(c.KVs), len(c.KVs)).Draw(t, "order")
	c.Dup = rapid.SliceOfN(rapid.Bool(), len(c.KVs), len(c.KVs)).Draw(t, "dup")
	switch rapid.IntRange(0, 5).Draw(t, "otherkind") {
	case 0: // unrelated
		if wide {
			c.Other = vk.GenKVs(o, maxLen/2).Draw(t, "other")
		} else {
			c.Other = vk.GenKVs(o, 14, 0, 1, 10, 11).Draw(t, "other")
		}
	case 1: // same as KVs with one value changed
		c.Other = append([]vk.KV{}, c.KVs...)
		if len(c.Other) > 0 {
			i := rapid.IntRange(0, len(c.Other)-1).Draw(t, "mut")
			nv := vk.GenKV(o).Draw(t, "mutkv")
			nv.K = c.Other[i].K
			c.Other = append(c.Other, nv)
		}
	case 2: // one key removed / added
		c.Other = append([]vk.KV{}, c.KVs...)
		c.Other = append(c.Other, vk.GenKV(o).Draw(t, "extra"))
	case 3, 4: // near-twin: one item replaced by a value one small edit away
		c.Other = append([]vk.KV{}, c.KVs...)
		if len(c.Other) > 0 {
			i := rapid.IntRange(0, len(c.Other)-1).Draw(t, "twinof")
			c.Other = append(c.Other, twinKV(t, c.Other[i]))
		}
	default: // identical content
		c.Other = append([]vk.KV{}, c.KVs...)
	}
	c.FKind = rapid.SampledFrom([]string{"keys", "keys", "keys", "types", "below", "below", "valid"}).Draw(t, "fkind")
	switch c.FKind {
	case "keys":
		c.Filter = rapid.SliceOfN(rapid.SampledFrom(append([]string{""}, ks...)), 0, 6).Draw(t, "filter")
	case "types":
		c.Filter = rapid.SliceOfN(rapid.SampledFrom(typeTags), 0, 5).Draw(t, "ftypes")
	case "below":
		// a pivot splits the sorted set into a prefix and a suffix: taken from
		// the list itself (so that it falls inside) or from the alphabet
		if len(c.KVs) > 0 && rapid.Bool().Draw(t, "pivotfromlist") {
			c.Pivot = c.KVs[rapid.IntRange(0, len(c.KVs)-1).Draw(t, "pivotidx")].K
		} else {
			c.Pivot = vk.Str(rapid.SampledFrom(append([]string{"", "\xff"}, ks...)).Draw(t, "pivot"))
		}
	}
	c.Deny = rapid.Bool().Draw(t, "deny")
	c.Probes = rapid.SliceOfN(rapid.SampledFrom(append([]string{"", "\x00", "0", "zz", "\xff\xff", "ab"}, ks...)), 1, 5).Draw(t, "probes")
	return c
}

// derived builds a permuted + duplicated list with the same last value per key.
func derived(c Case) []vk.KV {
	groups := map[string][]vk.KV{}
	var order []string
	for i, kv := range c.KVs {
		k := string(kv.K)
		if _, ok := groups[k]; !ok {
			order = append(order, k)
		}
		if i < len(c.Dup) && c.Dup[i] {
			groups[k] = append(groups[k], kv)
		}
		groups[k] = append(groups[k], kv)
	}
	var out []vk.KV
	step := 0
	for len(order) > 0 {
		pick := 0
		if step < len(c.Order) {
			pick = c.Order[step] % len(order)
		}
		step++
		k := order[pick]
		out = append(out, groups[k][0])
		groups[k] = groups[k][1:]
		if len(groups[k]) == 0 {
			order = append(order[:pick], order[pick+1:]...)
		}
	}
	return out
}

var tagOfType = map[attribute.Type]string{
	attribute.BOOL: "bool", attribute.INT64: "int", attribute.FLOAT64: "float", attribute.STRING: "str",
	attribute.BOOLSLICE: "bools", attribute.INT64SLICE: "ints", attribute.FLOAT64SLICE: "floats", attribute.STRINGSLICE: "strs",
	attribute.INVALID: "invalid",
}

// mkFilter returns the predicate for the library and the same predicate over
// the generated data.
func mkFilter(kind string, names []string, pivot string, deny bool) (attribute.Filter, func(vk.KV) bool) {
	in := map[string]bool{}
	for _, k := range names {
		in[k] = true
	}
	var lib attribute.Filter
	var ref func(vk.KV) bool
	switch kind {
	case "types":
		lib = func(kv attribute.KeyValue) bool { return in[tagOfType[kv.Value.Type()]] }
		ref = func(kv vk.KV) bool { return in[kv.T] }
	case "below":
		lib = func(kv attribute.KeyValue) bool { return string(kv.Key) < pivot }
		ref = func(kv vk.KV) bool { return string(kv.K) < pivot }
	case "valid":
		// KeyValue.Valid is documented: key defined (non-empty) and type not INVALID
		lib = func(kv attribute.KeyValue) bool { return kv.Valid() }
		ref = func(kv vk.KV) bool { return kv.K != "" && kv.T != "invalid" }
	default:
		ks := make([]attribute.Key, len(names))
		for i, k := range names {
			ks[i] = attribute.Key(k)
		}
		if deny {
			// NewDenyKeysFilter() with no keys allows everything.
			return attribute.NewDenyKeysFilter(ks...), func(kv vk.KV) bool { return !in[string(kv.K)] }
		}
		// NewAllowKeysFilter() with no keys denies everything.
		return attribute.NewAllowKeysFilter(ks...), func(kv vk.KV) bool { return in[string(kv.K)] }
	}
	if deny {
		l, r := lib, ref
		lib = func(kv attribute.KeyValue) bool { return !l(kv) }
		ref = func(kv vk.KV) bool { return !r(kv) }
	}
	return lib, ref
}

func run(c Case) ([]vk.Violation, vk.Info) {
	var vs []vk.Violation
	var info vk.Info
	bad := func(kind, format string, a ...any) {
		if len(vs) < 40 {
			vs = append(vs, vk.V(kind, format, a...))
		}
	}
	show := func(r []string) string {
		if len(r) > 24 {
			return fmt.Sprintf("%v ... (%d entries)", r[:24], len(r))
		}
		return fmt.Sprint(r)
	}

	input := vk.ToAttrs(c.KVs)
	m := newModel(c.KVs)
	want := m.render()
	inputMS := rawMultiset(c.KVs)

	// --- construction ---
	work := append([]attribute.KeyValue{}, input...)
	s := attribute.NewSet(work...)
	got := s.ToSlice()
	if !sameStrings(renderSlice(got), want) {
		bad("toslice_model", "ToSlice() = %s, supplied (last value per key, sorted) %s", show(renderSlice(got)), show(want))
	}
	for i := 1; i < len(got); i++ {
		if !(got[i-1].Key < got[i].Key) {
			bad("not_strictly_sorted", "keys %q, %q at %d", got[i-1].Key, got[i].Key, i)
		}
	}
	if !sameMultiset(multiset(renderSlice(work)), inputMS) {
		bad("caller_slice_lost_values", "caller slice after NewSet %s, supplied %s", show(renderSlice(work)), show(rawList(c.KVs)))
	}
	if s.Len() != len(m.keys) {
		bad("len", "Len() = %d, model %d", s.Len(), len(m.keys))
	}
	for i := -1; i <= len(m.keys); i++ {
		kv, ok := s.Get(i)
		if i < 0 || i >= len(m.keys) {
			if ok {
				bad("get_out_of_range", "Get(%d) ok", i)
			}
			continue
		}
		if !ok || string(kv.Key) != m.keys[i] || vk.ValueKey(kv.Value) != rawKey(m.kv[m.keys[i]]) {
			bad("get", "Get(%d) = %v,%v; supplied %s", i, renderSlice([]attribute.KeyValue{kv}), ok, rawEntry(m.kv[m.keys[i]]))
		}
	}
	probes := append([]string{}, c.Probes...)
	probes = append(probes, m.keys...)
	for _, p := range probes {
		v, ok := s.Value(attribute.Key(p))
		mv, mok := m.kv[p]
		if ok != mok || (ok && vk.ValueKey(v) != rawKey(mv)) {
			sup := "(absent)"
			if mok {
				sup = rawKey(mv)
			}
			bad("value_lookup", "Value(%q) = %s,%v; supplied %s,%v", p, vk.ValueKey(v), ok, sup, mok)
		}
		if s.HasValue(attribute.Key(p)) != mok {
			bad("hasvalue", "HasValue(%q) = %v, model %v", p, !mok, mok)
		}
	}
	it := s.Iter()
	n := 0
	for it.Next() {
		i, kv := it.IndexedAttribute()
		if i != n || n >= len(m.keys) || string(kv.Key) != m.keys[n] || vk.ValueKey(kv.Value) != rawKey(m.kv[m.keys[n]]) {
			bad("iter", "iteration step %d yields index %d, %v", n, i, renderSlice([]attribute.KeyValue{kv}))
			break
		}
		// the deprecated spellings of the accessors show the same element
		i2, kv2 := it.IndexedLabel()           //nolint:staticcheck // deprecated, still exported
		kv3, kv4 := it.Label(), it.Attribute() //nolint:staticcheck // deprecated, still exported
		if i2 != i || !sameStrings(renderSlice([]attribute.KeyValue{kv2, kv3, kv4}), renderSlice([]attribute.KeyValue{kv, kv, kv})) {
			bad("iter", "iteration step %d: IndexedLabel/Label/Attribute disagree with IndexedAttribute", n)
			break
		}
		n++
	}
	if n != len(m.keys) || it.Len() != len(m.keys) {
		bad("iter_len", "iterated %d (Len %d), model %d", n, it.Len(), len(m.keys))
	}
	// Iterator.ToSlice is documented to start from the beginning whatever the
	// position of the iterator is (fresh, part-way, exhausted).
	for _, adv := range []int{0, 1, len(m.keys) / 2, len(m.keys), len(m.keys) + 1} {
		it2 := s.Iter()
		for k := 0; k < adv; k++ {
			it2.Next()
		}
		if ts := it2.ToSlice(); !sameStrings(renderSlice(ts), want) {
			bad("iterator_toslice", "Iterator.ToSlice() after %d Next() calls = %s, model %s", adv, show(renderSlice(ts)), show(want))
		}
		if it2.Len() != len(m.keys) {
			bad("iter_len", "Iterator.Len() after %d Next() calls = %d, model %d", adv, it2.Len(), len(m.keys))
		}
	}
	// a custom encoder that peeks before it serialises sees the same contents
	if enc := s.Encoded(peekEncoder{}); enc != strings.Join(want, ";") {
		bad("custom_encoder", "Encoded(custom encoder) = %q, contents %q", enc, strings.Join(want, ";"))
	}

	// --- identity: self, derived list, other ---
	selfEq := s.Equals(&s) && s.Equivalent() == s.Equivalent()
	if !selfEq {
		bad("not_self_equal", "Set %s does not equal itself", show(want))
	}
	dkvs := derived(c)
	dl := vk.ToAttrs(dkvs)
	if !newModel(dkvs).bitEqual(m) {
		panic("harness bug: derived list changes the model")
	}
	s2 := attribute.NewSet(dl...)
	if !s.Equals(&s2) || !s2.Equals(&s) || s.Equivalent() != s2.Equivalent() {
		bad("order_dup_sensitive", "NewSet(input) != NewSet(permuted+duplicated input): %s vs %s", show(renderSlice(s.ToSlice())), show(renderSlice(s2.ToSlice())))
	}
	idx := map[attribute.Distinct]int{s.Equivalent(): 1}
	if _, ok := idx[s2.Equivalent()]; !ok {
		bad("map_key_unstable", "Equivalent() of an equal set misses as map key: %s", show(want))
	}
	// the same mapping obtained through the other constructors of every value
	// type (attribute.Int / IntSlice / Key.X / XValue / Stringer ...)
	for shift := 0; shift < 3; shift++ {
		alt := make([]attribute.KeyValue, 0, len(m.keys))
		for i, k := range m.keys {
			alt = append(alt, altKeyValue(m.kv[k], i+shift))
		}
		s3 := attribute.NewSet(alt...)
		if !sameStrings(renderSlice(s3.ToSlice()), want) {
			bad("constructor_sensitive", "the set built through alternative constructors (variant %d) holds %s, supplied %s", shift, show(renderSlice(s3.ToSlice())), show(want))
		} else if !s.Equals(&s3) || !s3.Equals(&s) || s.Equivalent() != s3.Equivalent() {
			bad("constructor_sensitive", "the set built through alternative constructors (variant %d) holds the same key -> typed value mapping %s but is not Equal / has another Equivalent()", shift, show(want))
		}
	}
	// what Emit renders can be read back into the value that was supplied (an
	// independent reading of "encoding agrees with the contents")
	for i, k := range m.keys {
		if i < len(got) {
			if why := emitDisagrees(got[i].Value, m.kv[k]); why != "" {
				bad("emit_disagrees", "key %q: %s", k, why)
			}
		}
	}
	other := vk.ToAttrs(c.Other)
	om := newModel(c.Other)
	so := attribute.NewSet(append([]attribute.KeyValue{}, other...)...)
	if !sameStrings(renderSlice(so.ToSlice()), om.render()) {
		bad("toslice_model", "partner list: ToSlice() = %s, supplied %s", show(renderSlice(so.ToSlice())), show(om.render()))
	}
	eq := s.Equals(&so)
	if eq != so.Equals(&s) || eq != (s.Equivalent() == so.Equivalent()) {
		bad("equals_inconsistent", "Equals not symmetric / disagrees with Equivalent()==")
	}
	be, ge := m.bitEqual(om), m.goEqual(om)
	switch {
	case be && !eq:
		bad("same_mapping_not_equal", "sets with identical key->typed value mapping are not Equal: %s", show(want))
	case !be && !ge && eq:
		bad("different_mapping_equal", "sets built from different mappings are Equal: %s vs %s", show(want), show(om.render()))
	}
	_, hit := idx[so.Equivalent()]
	if (be && !hit) || (!be && !ge && hit) {
		bad("map_key_identity", "map lookup by Equivalent() = %v; bit-equal %v go-equal %v: %s vs %s", hit, be, ge, show(want), show(om.render()))
	}

	// --- the other constructors and renderings agree with the contents ---
	{
		var tmp attribute.Sortable
		viaSortable := attribute.NewSetWithSortable(append([]attribute.KeyValue{}, input...), &tmp) //nolint:staticcheck // deprecated, still exported
		if !sameStrings(renderSlice(viaSortable.ToSlice()), want) {
			bad("newsetwithsortable", "NewSetWithSortable = %s, model %s", show(renderSlice(viaSortable.ToSlice())), show(want))
		}
		ml, ok := s.MarshalLog().(map[string]string)
		if !ok || len(ml) != len(m.keys) {
			bad("marshallog", "MarshalLog() has %d entries, model has %d keys", len(ml), len(m.keys))
		} else {
			for _, k := range m.keys {
				if ml[k] != m.kv[k].ToAttr().Value.Emit() {
					bad("marshallog", "MarshalLog()[%q] = %q, model %q", k, ml[k], m.kv[k].ToAttr().Value.Emit())
				}
			}
		}
		if why := jsonDisagrees(&s, m); why != "" {
			bad("marshaljson", "%s", why)
		}
	}

	// --- every way of obtaining an empty set is the same set ---
	{
		var zero attribute.Set
		denyAll := attribute.NewAllowKeysFilter()
		viaFilter, _ := s.Filter(denyAll)
		viaCtor, _ := attribute.NewSetWithFiltered(append([]attribute.KeyValue{}, input...), denyAll)
		ctor := attribute.NewSet()
		empties := []*attribute.Set{&zero, new(attribute.Set), &ctor, attribute.EmptySet(), nil, &viaFilter, &viaCtor}
		names := []string{"zero value", "new(Set)", "NewSet()", "EmptySet()", "nil *Set", "Filter(deny all)", "NewSetWithFiltered(deny all)"}
		keyed := map[attribute.Distinct]string{}
		for i, e := range empties {
			if e.Len() != 0 || len(e.ToSlice()) != 0 {
				bad("empty_not_empty", "%s has Len %d", names[i], e.Len())
			}
			for j, o := range empties {
				if !e.Equals(o) || e.Equivalent() != o.Equivalent() {
					bad("empty_sets_differ", "the empty sets obtained as %s and as %s are not Equal / have different Equivalent()", names[i], names[j])
				}
			}
			if _, ok := keyed[e.Equivalent()]; !ok && len(keyed) > 0 {
				bad("empty_sets_differ", "the empty set obtained as %s has another Equivalent() map key than the others", names[i])
			} else if !ok {
				keyed[e.Equivalent()] = names[i]
			}
			if eq := e.Equals(&s); eq != (len(m.keys) == 0) || eq != s.Equals(e) {
				bad("empty_vs_set", "%s Equals the set under test = %v, but the set has %d keys", names[i], eq, len(m.keys))
			}
		}
	}

	// --- filtering ---
	f, keep := mkFilter(c.FKind, c.Filter, string(c.Pivot), c.Deny)
	mKept, mDropped := m.filtered(keep)
	wantKept, wantDropped := mKept.render(), mDropped.render()
	before := renderSlice(s.ToSlice())
	ks, dropped := s.Filter(f)
	if !sameStrings(renderSlice(ks.ToSlice()), wantKept) {
		bad("filter_kept", "Filter kept %s, model %s", show(renderSlice(ks.ToSlice())), show(wantKept))
	}
	wd := sorted(wantDropped)
	if dr := sorted(renderSlice(dropped)); !sameStrings(dr, wd) {
		bad("filter_dropped", "Filter dropped %s, model %s", show(dr), show(wd))
	}
	// What a call returned belongs to the caller: later Filter calls (on this
	// and on other sets, dropping other things) must not change it.
	_, _ = so.Filter(f)
	inverse := func(kv attribute.KeyValue) bool { return !f(kv) }
	_, droppedInverse := s.Filter(inverse)
	_, _ = so.Filter(inverse)
	if dr := sorted(renderSlice(dropped)); !sameStrings(dr, wd) {
		bad("filter_dropped_changed_later", "the dropped list returned by Filter changed when Filter was called again: now %s, model %s", show(dr), show(wd))
	}
	wk := sorted(wantKept)
	if di := sorted(renderSlice(droppedInverse)); !sameStrings(di, wk) {
		bad("filter_dropped", "Filter with the inverse predicate dropped %s (read after a further Filter call), model %s", show(di), show(wk))
	}
	// scribble over what Filter returned: the original must not notice.
	for i := range dropped {
		dropped[i] = attribute.String("scribble", "x")
	}
	if !sameStrings(renderSlice(s.ToSlice()), before) {
		bad("filter_mutates_receiver", "receiver changed by Filter: %s -> %s", show(before), show(renderSlice(s.ToSlice())))
	}
	if !sameStrings(renderSlice(ks.ToSlice()), wantKept) {
		bad("filter_result_aliases_dropped", "kept set changed when the dropped slice was written")
	}
	work2 := append([]attribute.KeyValue{}, input...)
	fs, fdropped := attribute.NewSetWithFiltered(work2, f)
	if !sameStrings(renderSlice(fs.ToSlice()), wantKept) {
		bad("newsetfiltered_kept", "NewSetWithFiltered kept %s, model %s", show(renderSlice(fs.ToSlice())), show(wantKept))
	}
	if fd := sorted(renderSlice(fdropped)); !sameStrings(fd, wd) {
		bad("newsetfiltered_dropped", "NewSetWithFiltered dropped %s, model %s", show(fd), show(wd))
	}
	if !sameMultiset(multiset(renderSlice(work2)), inputMS) {
		bad("caller_slice_lost_values", "caller slice after NewSetWithFiltered %s, supplied %s", show(renderSlice(work2)), show(rawList(c.KVs)))
	}
	if !fs.Equals(&ks) && !m.hasNaNSlice() {
		bad("filter_paths_disagree", "Set.Filter and NewSetWithFiltered give unequal sets")
	}
	{
		var tmp attribute.Sortable
		work3 := append([]attribute.KeyValue{}, input...)
		fs3, fd3 := attribute.NewSetWithSortableFiltered(work3, &tmp, f) //nolint:staticcheck // deprecated, still exported
		if !sameStrings(renderSlice(fs3.ToSlice()), wantKept) || !sameStrings(sorted(renderSlice(fd3)), wd) {
			bad("newsetfiltered_kept", "NewSetWithSortableFiltered kept %s dropped %s, model %s / %s", show(renderSlice(fs3.ToSlice())), show(sorted(renderSlice(fd3))), show(wantKept), show(wd))
		}
		if !sameMultiset(multiset(renderSlice(work3)), inputMS) {
			bad("caller_slice_lost_values", "caller slice after NewSetWithSortableFiltered %s, supplied %s", show(renderSlice(work3)), show(rawList(c.KVs)))
		}
	}

	// --- merge: first set wins, sorted, in every pairing ---
	empty := attribute.NewSet()
	for _, pr := range []struct {
		name   string
		a, b   *attribute.Set
		ma, mb model
	}{
		{"(set, partner)", &s, &so, m, om},
		{"(partner, set)", &so, &s, om, m},
		{"(set, set)", &s, &s, m, m},
		{"(set, empty)", &s, &empty, m, model{}},
		{"(empty, partner)", attribute.EmptySet(), &so, model{}, om},
	} {
		mi := attribute.NewMergeIterator(pr.a, pr.b)
		var merged []attribute.KeyValue
		for mi.Next() {
			merged = append(merged, mi.Attribute())
			if l := mi.Label(); vk.ValueKey(l.Value) != vk.ValueKey(mi.Attribute().Value) || l.Key != mi.Attribute().Key { //nolint:staticcheck // deprecated, still exported
				bad("merge", "MergeIterator%s: Label() and Attribute() disagree", pr.name)
			}
		}
		union := newModel(append(append([]vk.KV{}, pr.mb.list()...), pr.ma.list()...)) // the first set wins
		if !sameStrings(renderSlice(merged), union.render()) {
			bad("merge", "MergeIterator%s = %s, model %s", pr.name, show(renderSlice(merged)), show(union.render()))
		}
	}

	// --- encoding ---
	if m.textValid(false) {
		if enc := s.Encoded(attribute.DefaultEncoder()); enc != m.refDefaultEncoding() {
			bad("encoded", "Encoded = %q, reference %q", enc, m.refDefaultEncoding())
		}
	}
	// One variable holding one set after the other: a Set is a plain value and
	// its encoding is that of what the variable holds now.
	{
		holder := s
		first := holder.Encoded(peekEncoder{})
		holder = so
		second := holder.Encoded(peekEncoder{})
		if first != strings.Join(want, ";") || second != strings.Join(om.render(), ";") {
			bad("encoded_after_reassignment", "one variable assigned the set and then the partner set: Encoded(custom encoder) = %q then %q, contents %q then %q", first, second, strings.Join(want, ";"), strings.Join(om.render(), ";"))
		}
		if m.textValid(false) && om.textValid(false) {
			holder = s
			first = holder.Encoded(attribute.DefaultEncoder())
			holder = so
			second = holder.Encoded(attribute.DefaultEncoder())
			if first != m.refDefaultEncoding() || second != om.refDefaultEncoding() {
				bad("encoded_after_reassignment", "one variable assigned the set and then the partner set: Encoded(DefaultEncoder()) = %q then %q, reference %q then %q", first, second, m.refDefaultEncoding(), om.refDefaultEncoding())
			}
		}
	}

	// --- what was handed out belongs to the caller: writing to it does not
	// change the set ("contains each key once with the value supplied last") ---
	for i := range got {
		switch got[i].Value.Type() {
		case attribute.BOOLSLICE:
			for _, x := range [][]bool{got[i].Value.AsBoolSlice(), got[i].Value.AsInterface().([]bool)} {
				for j := range x {
					x[j] = !x[j]
				}
			}
		case attribute.INT64SLICE:
			for _, x := range [][]int64{got[i].Value.AsInt64Slice(), got[i].Value.AsInterface().([]int64)} {
				for j := range x {
					x[j]++
				}
			}
		case attribute.FLOAT64SLICE:
			for _, x := range [][]float64{got[i].Value.AsFloat64Slice(), got[i].Value.AsInterface().([]float64)} {
				for j := range x {
					x[j] = 42.5
				}
			}
		case attribute.STRINGSLICE:
			for _, x := range [][]string{got[i].Value.AsStringSlice(), got[i].Value.AsInterface().([]string)} {
				for j := range x {
					x[j] = "scribble"
				}
			}
		}
		got[i] = attribute.String("scribble", "x")
	}
	if again := renderSlice(s.ToSlice()); !sameStrings(again, want) {
		bad("handed_out_slice_aliases_set", "after writing to the slices returned by ToSlice / As...Slice / AsInterface the set holds %s, supplied %s", show(again), show(want))
	}
	if !s.Equals(&s2) && !m.hasNaNSlice() {
		bad("handed_out_slice_aliases_set", "after writing to the slices returned by ToSlice / As...Slice / AsInterface the set is no longer Equal to the set built from the permuted list")
	}

	dup := len(input) > len(m.keys)
	split := len(wantKept) > 0 && len(wantDropped) > 0
	info.NonTrivial = dup || len(m.keys) >= 11 || split
	info.ClassIf(dup, "duplicate_keys")
	info.ClassIf(len(m.keys) >= 11, "reflect_path(>=11 distinct)")
	info.ClassIf(len(m.keys) == 10, "exactly_10_distinct")
	info.ClassIf(len(m.keys) == 0, "empty_set")
	info.ClassIf(len(input) > 64, "long_list(>64)")
	info.ClassIf(len(input) > 512, "long_list(>512)")
	info.ClassIf(len(m.keys) > 64, "many_distinct_keys(>64)")
	info.ClassIf(split, "filter_splits")
	info.ClassIf(split && c.FKind != "keys" && c.FKind != "", "filter_splits/"+c.FKind)
	info.ClassIf(m.hasNaNSlice(), "nan_in_float64slice")
	info.ClassIf(be, "other_bit_equal")
	info.ClassIf(!be && !ge, "other_differs")
	info.ClassIf(be != ge, "other_equal_under_one_notion_only")
	info.ClassIf(!be && nearTwin(m, om), "other_is_near_twin")
	info.ClassIf(!m.textValid(true) && m.textValid(false), "invalid_utf8_in_string_slice")
	info.ClassIf(!m.textValid(false), "invalid_utf8_in_string_or_key")
	return vs, info
}

// nearTwin reports whether the two models differ in at most one key.
func nearTwin(a, b model) bool {
	diff := 0
	for _, k := range a.keys {
		if kv, ok := b.kv[k]; !ok || rawKey(kv) != rawKey(a.kv[k]) {
			diff++
		}
	}
	for _, k := range b.keys {
		if _, ok := a.kv[k]; !ok {
			diff++
		}
	}
	return diff == 1 || (diff == 2 && len(a.keys) == len(b.keys))
}

// peekEncoder is a user-defined attribute.Encoder: it looks at the first
// attribute (Next) and then renders iter.ToSlice().
type peekEncoder struct{}

var peekEncoderID = attribute.NewEncoderID()

func (peekEncoder) ID() attribute.EncoderID { return peekEncoderID }
func (peekEncoder) Encode(it attribute.Iterator) string {
	it.Next()
	return strings.Join(renderSlice(it.ToSlice()), ";")
}

func TestSetModel(t *testing.T) {
	vk.Run(t, vk.Spec[Case]{
		Property: "C05", Check: "set_model",
		Rule: "kv lists of 0..24 (occasionally up to 1024 over a wide key space) over all eight value types (NaN, signed zeros, empty/invalid keys, invalid UTF-8 in strings and string-slice elements), compared with a model built from the generated data (not from the constructors' results); a permuted+duplicated derivative; a partner list (unrelated / one value replaced / one key more / a near-twin one small edit away / identical); a filter predicate (allow/deny key list, by value type, keys below a pivot, Valid()); " +
			"non-trivial = the list has a duplicate key, or >= 11 distinct keys (reflect path), or the filter splits the set into two non-empty parts; distinct = distinct case encodings",
		Quick: 20000, Thorough: 300000,
		Gen: gen, Run: run,
		Known: map[string]func(Case, vk.Violation) bool{
			// an attribute.Set holding a FLOAT64SLICE with NaN is not equal to itself.
			"float64slice_contains_nan": func(c Case, v vk.Violation) bool {
				switch v.Kind {
				case "not_self_equal", "order_dup_sensitive", "constructor_sensitive", "map_key_unstable", "same_mapping_not_equal", "map_key_identity":
					return newModel(c.KVs).hasNaNSlice()
				}
				return false
			},
		},
	})
}

type strer string

func (s strer) String() string { return string(s) }

// altKeyValue builds the key-value the data describes through the n-th of
// the public constructors that yield this typed value.
func altKeyValue(kv vk.KV, n int) attribute.KeyValue {
	k := string(kv.K)
	key := attribute.Key(k)
	switch kv.T {
	case "bool":
		b := kv.B
		return [...]attribute.KeyValue{attribute.Bool(k, b), key.Bool(b), {Key: key, Value: attribute.BoolValue(b)}}[n%3]
	case "int":
		i := kv.I
		if int64(int(i)) != i {
			return [...]attribute.KeyValue{attribute.Int64(k, i), key.Int64(i), {Key: key, Value: attribute.Int64Value(i)}}[n%3]
		}
		return [...]attribute.KeyValue{attribute.Int64(k, i), attribute.Int(k, int(i)), key.Int64(i), key.Int(int(i)), {Key: key, Value: attribute.IntValue(int(i))}, {Key: key, Value: attribute.Int64Value(i)}}[n%6]
	case "float":
		f := float64(kv.F)
		return [...]attribute.KeyValue{attribute.Float64(k, f), key.Float64(f), {Key: key, Value: attribute.Float64Value(f)}}[n%3]
	case "str":
		str := string(kv.S)
		return [...]attribute.KeyValue{attribute.String(k, str), key.String(str), attribute.Stringer(k, strer(str)), {Key: key, Value: attribute.StringValue(str)}}[n%4]
	case "bools":
		// lent with spare capacity; nil and empty slices are the same value
		bs := append(make([]bool, 0, len(kv.BS)+n%3), kv.BS...)
		if len(bs) == 0 && n%2 == 1 {
			bs = nil
		}
		return [...]attribute.KeyValue{attribute.BoolSlice(k, bs), key.BoolSlice(bs), {Key: key, Value: attribute.BoolSliceValue(bs)}}[n%3]
	case "ints":
		is := append(make([]int64, 0, len(kv.IS)+n%3), kv.IS...)
		fits := true
		ints := make([]int, len(is))
		for j, x := range is {
			ints[j] = int(x)
			fits = fits && int64(int(x)) == x
		}
		if len(is) == 0 && n%2 == 1 {
			is, ints = nil, nil
		}
		if !fits {
			return [...]attribute.KeyValue{attribute.Int64Slice(k, is), key.Int64Slice(is), {Key: key, Value: attribute.Int64SliceValue(is)}}[n%3]
		}
		return [...]attribute.KeyValue{attribute.Int64Slice(k, is), attribute.IntSlice(k, ints), key.Int64Slice(is), key.IntSlice(ints), {Key: key, Value: attribute.IntSliceValue(ints)}, {Key: key, Value: attribute.Int64SliceValue(is)}}[n%6]
	case "floats":
		fs := make([]float64, 0, len(kv.FS)+n%3)
		for _, f := range kv.FS {
			fs = append(fs, float64(f))
		}
		if len(fs) == 0 && n%2 == 1 {
			fs = nil
		}
		return [...]attribute.KeyValue{attribute.Float64Slice(k, fs), key.Float64Slice(fs), {Key: key, Value: attribute.Float64SliceValue(fs)}}[n%3]
	case "strs":
		ss := append(make([]string, 0, len(kv.SS)+n%3), vk.Strs(kv.SS)...)
		if len(ss) == 0 && n%2 == 1 {
			ss = nil
		}
		return [...]attribute.KeyValue{attribute.StringSlice(k, ss), key.StringSlice(ss), {Key: key, Value: attribute.StringSliceValue(ss)}}[n%3]
	}
	return attribute.KeyValue{Key: key}
}

func f64s(in []vk.F64) []float64 {
	out := make([]float64, len(in))
	for i, f := range in {
		out[i] = float64(f)
	}
	return out
}

// emitDisagrees reads v.Emit() back and compares it with the data that was
// supplied. It returns "" when they agree. Non-finite floats inside a
// FLOAT64SLICE have no JSON form: only a non-empty rendering is asked for
// there.
func emitDisagrees(v attribute.Value, raw vk.KV) string {
	e := v.Emit()
	switch raw.T {
	case "bool":
		if b, err := strconv.ParseBool(e); err != nil || b != raw.B {
			return fmt.Sprintf("Emit() = %q for the bool %v", e, raw.B)
		}
	case "int":
		if i, err := strconv.ParseInt(e, 10, 64); err != nil || i != raw.I {
			return fmt.Sprintf("Emit() = %q for the int64 %d", e, raw.I)
		}
	case "float":
		f, err := strconv.ParseFloat(e, 64)
		w := float64(raw.F)
		if err != nil || !(f == w || (f != f && w != w)) {
			return fmt.Sprintf("Emit() = %q for the float64 %v", e, w)
		}
	case "str":
		if e != string(raw.S) {
			return fmt.Sprintf("Emit() = %q for the string %q", e, string(raw.S))
		}
	case "bools":
		got := []bool{}
		for _, f := range strings.Fields(strings.Trim(e, "[]")) {
			b, err := strconv.ParseBool(f)
			if err != nil {
				return fmt.Sprintf("Emit() = %q for the bool slice %v", e, raw.BS)
			}
			got = append(got, b)
		}
		if fmt.Sprint(got) != fmt.Sprint(append([]bool{}, raw.BS...)) {
			return fmt.Sprintf("Emit() = %q for the bool slice %v", e, raw.BS)
		}
	case "ints":
		var got []int64
		if err := json.Unmarshal([]byte(e), &got); err != nil || fmt.Sprint(append([]int64{}, got...)) != fmt.Sprint(append([]int64{}, raw.IS...)) {
			return fmt.Sprintf("Emit() = %q for the int64 slice %v", e, raw.IS)
		}
	case "floats":
		w := f64s(raw.FS)
		for _, f := range w {
			if math.IsNaN(f) || math.IsInf(f, 0) {
				if e == "" {
					return fmt.Sprintf("Emit() is empty for the float64 slice %v", w)
				}
				return ""
			}
		}
		var got []float64
		if err := json.Unmarshal([]byte(e), &got); err != nil || len(got) != len(w) {
			return fmt.Sprintf("Emit() = %q for the float64 slice %v", e, w)
		}
		for i := range w {
			if got[i] != w[i] {
				return fmt.Sprintf("Emit() = %q for the float64 slice %v", e, w)
			}
		}
	case "strs":
		w := vk.Strs(raw.SS)
		for _, x := range w {
			if !utf8.ValidString(x) {
				return "" // JSON replaces invalid bytes: not asserted
			}
		}
		var got []string
		if err := json.Unmarshal([]byte(e), &got); err != nil || len(got) != len(w) {
			return fmt.Sprintf("Emit() = %q for the string slice %q", e, w)
		}
		for i := range w {
			if got[i] != w[i] {
				return fmt.Sprintf("Emit() = %q for the string slice %q", e, w)
			}
		}
	}
	return ""
}
