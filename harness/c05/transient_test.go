package c05

// Sub-check transient_strings: the CALLER'S side of "no input value is lost".
//
// Every other sub-check hands the library strings that live on the heap (they
// are decoded from the case). A real caller often builds an attribute from
// short-lived strings - typically the result of a concatenation - which the Go compiler keeps in a stack buffer of the caller
// whenever it believes the string does not outlive the call. Whatever the
// library stores must still hold the supplied text after the caller's frame is
// gone and the stack has been reused. The case therefore says HOW each string
// is built (the pieces, the construction, the arity of the literal), the value
// is built in straight-line code inside its own frame (no loop: a loop makes
// the compiler give up on stack buffers), the stack is then overwritten, and
// only afterwards the stored value is read back through every public accessor
// and compared with the text computed from the pieces.
//
// Found with this dimension (by a probe written after a remark of a
// strengthening agent, then generalised here): attribute.StringSlice kept
// pointers into the caller's stack - StringSliceValue copied with reflect.Copy,
// which hides the flow of the string data from escape analysis - so
// attribute.StringSlice("k", []string{s, s + "z"}) read back garbage; repaired
// by /repo 530788a; regression replay
// replays/regress/C05/string_slice_points_into_callers_stack.json.

import (
	"fmt"
	"strings"
	"testing"

	"go.opentelemetry.io/otel/attribute"
	"go.opentelemetry.io/otel/verif/internal/vk"
	"pgregory.net/rapid"
)

// Piece is one string of the case, given as the parts it is built from.
type Piece struct {
	A vk.Str `json:"a"`
	B vk.Str `json:"b"`
	// How: 0 = A + B (concatenation in the caller's frame), 3 = the same text
	// cloned onto the heap (control).
	How int `json:"how"`
}

func (p Piece) text() string {
	return string(p.A) + string(p.B)
}

// TransCase is one generated caller.
type TransCase struct {
	Key Piece `json:"key"`
	// Elems: 1..4 elements of a STRINGSLICE value (the literal has exactly this arity).
	Elems []Piece `json:"elems"`
	// Ctor: 0 attribute.StringSlice, 1 attribute.Key(k).StringSlice, 2
	// attribute.StringSliceValue + KeyValue literal, 3 attribute.String (scalar,
	// first element only), 4 attribute.Stringer-free control: heap slice.
	Ctor int `json:"ctor"`
	// Others: further key-values of the set the value is put into (0..12),
	// each a scalar string built the same way; > 10 distinct keys take the
	// reflect path of the Set.
	Others []Piece `json:"others"`
	// Depth: how much stack is overwritten before reading back (frames).
	Depth int `json:"depth"`
}

func genPiece(t *rapid.T, label string) Piece {
	alpha := []string{"", "a", "k", "z", "ab", "svc", "é", "\xff", "0123456789", "0123456789abcdef0123456789abcde", "0123456789abcdef0123456789abcdef0"}
	p := Piece{How: rapid.SampledFrom([]int{0, 0, 0, 0, 3}).Draw(t, label+"_how")}
	if rapid.IntRange(0, 3).Draw(t, label+"_free") == 0 {
		p.A = vk.Str(rapid.StringN(0, 40, 60).Draw(t, label+"_a"))
		p.B = vk.Str(rapid.StringN(0, 8, 12).Draw(t, label+"_b"))
	} else {
		p.A = vk.Str(rapid.SampledFrom(alpha).Draw(t, label+"_a"))
		p.B = vk.Str(rapid.SampledFrom(alpha[:8]).Draw(t, label+"_b"))
	}
	return p
}

func genTrans(t *rapid.T) TransCase {
	c := TransCase{Key: genPiece(t, "key"), Ctor: rapid.IntRange(0, 4).Draw(t, "ctor"), Depth: rapid.IntRange(1, 6).Draw(t, "depth")}
	if len(c.Key.text()) == 0 {
		c.Key.A = "k" // an empty key is invalid and dropped by a Set: not this sub-check's subject
	}
	n := rapid.IntRange(1, 4).Draw(t, "arity")
	for i := 0; i < n; i++ {
		c.Elems = append(c.Elems, genPiece(t, fmt.Sprintf("e%d", i)))
	}
	m := rapid.SampledFrom([]int{0, 0, 1, 2, 9, 10, 11, 12}).Draw(t, "others")
	for i := 0; i < m; i++ {
		c.Others = append(c.Others, genPiece(t, fmt.Sprintf("o%d", i)))
	}
	return c
}

// mk builds one string the way the piece says. It must stay inlinable and free
// of loops so that the temporary lives in the frame of its caller (checked
// with -gcflags=-m when this file was written: "can inline mk", and in
// buildKV "string(p.A) + string(p.B) does not escape").
func mk(p *Piece) string {
	if p.How == 3 {
		return heapText(p)
	}
	return string(p.A) + string(p.B)
}

//go:noinline
func heapText(p *Piece) string { return strings.Clone(string(p.A) + string(p.B)) }

//go:noinline
func buildKV(c *TransCase) attribute.KeyValue {
	k := mk(&c.Key)
	e := c.Elems
	switch c.Ctor {
	case 1:
		switch len(e) {
		case 1:
			return attribute.Key(k).StringSlice([]string{mk(&e[0])})
		case 2:
			return attribute.Key(k).StringSlice([]string{mk(&e[0]), mk(&e[1])})
		case 3:
			return attribute.Key(k).StringSlice([]string{mk(&e[0]), mk(&e[1]), mk(&e[2])})
		}
		return attribute.Key(k).StringSlice([]string{mk(&e[0]), mk(&e[1]), mk(&e[2]), mk(&e[3])})
	case 2:
		switch len(e) {
		case 1:
			return attribute.KeyValue{Key: attribute.Key(k), Value: attribute.StringSliceValue([]string{mk(&e[0])})}
		case 2:
			return attribute.KeyValue{Key: attribute.Key(k), Value: attribute.StringSliceValue([]string{mk(&e[0]), mk(&e[1])})}
		case 3:
			return attribute.KeyValue{Key: attribute.Key(k), Value: attribute.StringSliceValue([]string{mk(&e[0]), mk(&e[1]), mk(&e[2])})}
		}
		return attribute.KeyValue{Key: attribute.Key(k), Value: attribute.StringSliceValue([]string{mk(&e[0]), mk(&e[1]), mk(&e[2]), mk(&e[3])})}
	case 3:
		return attribute.String(k, mk(&e[0]))
	case 4:
		hs := make([]string, 0, len(e))
		for i := range e {
			hs = append(hs, strings.Clone(e[i].text()))
		}
		return attribute.StringSlice(k, hs)
	}
	switch len(e) {
	case 1:
		return attribute.StringSlice(k, []string{mk(&e[0])})
	case 2:
		return attribute.StringSlice(k, []string{mk(&e[0]), mk(&e[1])})
	case 3:
		return attribute.StringSlice(k, []string{mk(&e[0]), mk(&e[1]), mk(&e[2])})
	}
	return attribute.StringSlice(k, []string{mk(&e[0]), mk(&e[1]), mk(&e[2]), mk(&e[3])})
}

//go:noinline
func buildSet(c *TransCase, kv attribute.KeyValue) attribute.Set {
	o := c.Others
	kvs := make([]attribute.KeyValue, 0, len(o)+1)
	kvs = append(kvs, kv)
	for i := range o {
		// distinct keys "o<i>.<text>": the value is the transient string
		kvs = append(kvs, attribute.String(fmt.Sprintf("o%02d", i), mk(&o[i])))
	}
	return attribute.NewSet(kvs...)
}

// clobber overwrites a few kilobytes of stack per frame.
//
//go:noinline
func clobber(depth int, seed byte) int {
	var buf [2048]byte
	for i := range buf {
		buf[i] = seed + byte(i)
	}
	x := 0
	if depth > 0 {
		x = clobber(depth-1, seed+1)
	}
	for _, b := range buf[:64] {
		x += int(b)
	}
	return x
}

var clobberSink int

func runTrans(c TransCase) ([]vk.Violation, vk.Info) {
	var vs []vk.Violation
	var info vk.Info
	bad := func(kind, f string, a ...any) {
		vs = append(vs, vk.Violation{Kind: kind, Msg: fmt.Sprintf(f, a...)})
	}
	wantKey := c.Key.text()
	var want []string
	for _, e := range c.Elems {
		want = append(want, e.text())
	}
	scalar := c.Ctor == 3
	if scalar {
		want = want[:1]
	}

	kv := buildKV(&c)
	clobberSink += clobber(c.Depth, 1)
	set := buildSet(&c, kv)
	clobberSink += clobber(c.Depth, 101)

	read := func(where string, k attribute.Key, v attribute.Value) {
		if string(k) != wantKey {
			bad("transient_key_changed", "%s: key reads %q, supplied %q", where, string(k), wantKey)
		}
		if scalar {
			if v.Type() != attribute.STRING || v.AsString() != want[0] {
				bad("transient_string_changed", "%s: value reads %s %q, supplied STRING %q", where, v.Type(), v.AsString(), want[0])
			}
			return
		}
		got := v.AsStringSlice()
		if v.Type() != attribute.STRINGSLICE || !sameStrings(got, want) {
			bad("transient_string_slice_changed", "%s: value reads %s %q, supplied STRINGSLICE %q", where, v.Type(), got, want)
		}
	}
	read("the KeyValue the constructor returned", kv.Key, kv.Value)
	if v, ok := set.Value(attribute.Key(wantKey)); !ok {
		bad("transient_key_missing", "Set.Value(%q): not found among %d key-values", wantKey, set.Len())
	} else {
		read("Set.Value", attribute.Key(wantKey), v)
	}
	found := 0
	for _, e := range set.ToSlice() {
		if string(e.Key) == wantKey {
			found++
			read("Set.ToSlice", e.Key, e.Value)
		}
	}
	if found != 1 {
		bad("transient_key_missing", "Set.ToSlice holds key %q %d times", wantKey, found)
	}
	for i, o := range c.Others {
		k := attribute.Key(fmt.Sprintf("o%02d", i))
		if string(k) == wantKey {
			continue
		}
		if v, ok := set.Value(k); !ok || v.AsString() != o.text() {
			bad("transient_string_changed", "Set.Value(%q) reads %q (found %v), supplied %q", k, v.AsString(), ok, o.text())
		}
	}
	// the map key of an equal set built from heap strings must be the same
	heap := make([]attribute.KeyValue, 0, len(c.Others)+1)
	if scalar {
		heap = append(heap, attribute.String(strings.Clone(wantKey), strings.Clone(want[0])))
	} else {
		hs := make([]string, len(want))
		for i := range want {
			hs[i] = strings.Clone(want[i])
		}
		heap = append(heap, attribute.StringSlice(strings.Clone(wantKey), hs))
	}
	for i, o := range c.Others {
		heap = append(heap, attribute.String(fmt.Sprintf("o%02d", i), strings.Clone(o.text())))
	}
	hset := attribute.NewSet(heap...)
	if !set.Equals(&hset) || set.Equivalent() != hset.Equivalent() {
		bad("transient_set_differs_from_heap_twin", "the set built from short-lived strings is not Equal / has another Equivalent() than the set built from the same text on the heap: %q vs %q", set.Encoded(attribute.DefaultEncoder()), hset.Encoded(attribute.DefaultEncoder()))
	}

	stackEligible := false
	if c.Ctor != 4 {
		for _, e := range c.Elems {
			if e.How != 3 && len(e.text()) <= 32 {
				stackEligible = true
			}
		}
	}
	info.NonTrivial = stackEligible
	info.ClassIf(stackEligible, "element_short_enough_for_a_stack_buffer")
	info.ClassIf(scalar, "scalar_string_value")
	info.ClassIf(!scalar && len(want) >= 2, "string_slice_of_2_or_more")
	info.ClassIf(len(c.Others) >= 10, "set_on_reflect_path(>10 keys)")
	info.ClassIf(c.Ctor == 4, "heap_control")
	for _, e := range c.Elems {
		info.ClassIf(e.How == 3, "element_on_the_heap")
	}
	return vs, info
}

func TestTransientStrings(t *testing.T) {
	vk.Run(t, vk.Spec[TransCase]{
		Property: "C05", Check: "transient_strings",
		Rule: "a caller that builds a key and 1..4 string-slice elements (or a scalar string) from short-lived strings (concatenations; a heap control) in straight-line code of its own frame, through attribute.StringSlice / Key.StringSlice / StringSliceValue / String, puts the result into a set with 0..12 further such key-values, then overwrites 1..6 frames of stack; the stored value is read back through the KeyValue, Set.Value, Set.ToSlice and compared with the supplied text and with a heap-built twin set; " +
			"non-trivial = some element is short enough (<= 32 bytes) and built so that the compiler may keep it in a stack buffer; distinct = distinct case encodings",
		Quick: 6000, Thorough: 100000,
		Gen: genTrans, Run: runTrans,
	})
}
