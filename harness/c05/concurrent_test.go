package c05

import (
	"fmt"
	"math"
	"runtime"
	"strings"
	"sync"
	"testing"

	"go.opentelemetry.io/otel/attribute"
	"go.opentelemetry.io/otel/verif/internal/vk"
	"pgregory.net/rapid"
)

// concurrent_twins: the statement is about every list of key-values and the
// Set built from it; it does not say "as long as nothing else in the process
// works with other Sets". Here 2..8 goroutines ("twins") each run the
// ORDINARY SEQUENTIAL property on their OWN data (own lists, own Sets, own
// expected renderings - nothing of the harness is shared between them),
// released together. The oracle stays the sequential one per goroutine, so it
// is independent of the schedule: whatever the interleaving, a Set built from
// list L holds L's mapping, encodes as L's contents, filters by its
// predicate. Cross-talk through anything the package keeps at package level
// (buffer pools, memos, singletons such as DefaultEncoder()) shows as an
// ordinary violation in one of the twins.
//
// Every twin's body is first run once on its own (kinds "sequential/..."): a
// violation there is not a concurrency matter and the concurrent phase is
// skipped. Violations of the concurrent phase have kinds "concurrent/...".
//
// Schedule dimensions (part of the case): the number of twins, GOMAXPROCS
// during the case (unchanged, 1, 2, 4: several twins per processor), and a
// helper goroutine that forces garbage collections meanwhile (a collection
// stops and re-queues every goroutine wherever it is, which is what moves
// goroutines between processors in the middle of a library call). None of
// them can make a correct library fail.

// Twin is the program of one goroutine.
type Twin struct {
	Focus  string `json:"focus"`  // "full": the whole set_model property; "encode" / "identity" / "filter": that clause in a loop
	Rounds int    `json:"rounds"` // repetitions of the body
	C      Case   `json:"c"`
}

// TwinsCase is one concurrent program.
type TwinsCase struct {
	Twins []Twin `json:"twins"`
	Procs int    `json:"procs"` // GOMAXPROCS during the case; 0 = unchanged
	GC    bool   `json:"gc"`    // a helper goroutine calls runtime.GC() while the twins run
}

// noNaNSlices replaces NaN elements of float slices: the identity of such
// sets is the known finding set_model tracks (float64slice_contains_nan).
func noNaNSlices(kvs []vk.KV) {
	for i := range kvs {
		if kvs[i].T != "floats" {
			continue
		}
		fs := append([]vk.F64{}, kvs[i].FS...)
		for j := range fs {
			if math.IsNaN(float64(fs[j])) {
				fs[j] = vk.F64(float64(j) + 0.5)
			}
		}
		kvs[i].FS = fs
	}
}

func genTwins(t *rapid.T) TwinsCase {
	c := TwinsCase{}
	n := rapid.SampledFrom([]int{2, 2, 3, 4, 4, 6, 8, 8}).Draw(t, "ntwins")
	c.Procs = rapid.SampledFrom([]int{0, 0, 1, 2, 2, 4}).Draw(t, "procs")
	c.GC = rapid.IntRange(0, 3).Draw(t, "gc") != 0
	// the twins usually hammer the same clause (that is when they meet in the
	// same code), sometimes each its own
	common := rapid.SampledFrom([]string{"", "encode", "encode", "identity", "filter", "full"}).Draw(t, "common")
	for i := 0; i < n; i++ {
		tw := Twin{Focus: common}
		if tw.Focus == "" {
			tw.Focus = rapid.SampledFrom([]string{"full", "encode", "identity", "filter"}).Draw(t, "focus")
		}
		tw.C = gen(t)
		noNaNSlices(tw.C.KVs)
		noNaNSlices(tw.C.Other)
		if tw.Focus == "full" {
			tw.Rounds = rapid.IntRange(1, 4).Draw(t, "rounds")
		} else {
			tw.Rounds = 1 << rapid.IntRange(0, 10).Draw(t, "roundbits")
		}
		c.Twins = append(c.Twins, tw)
	}
	return c
}

// twinBody returns the sequential property of one twin as a function that can
// be run repeatedly; everything it compares with is computed here, before the
// goroutines start, from the twin's own data.
func twinBody(tw Twin) func(rounds int) []vk.Violation {
	c := tw.C
	if tw.Focus == "full" {
		return func(rounds int) []vk.Violation {
			for r := 0; r < rounds; r++ {
				if vs, _ := run(c); len(vs) > 0 {
					return vs
				}
			}
			return nil
		}
	}
	m, om := newModel(c.KVs), newModel(c.Other)
	want, owant := m.render(), om.render()
	input, other := vk.ToAttrs(c.KVs), vk.ToAttrs(c.Other)
	dl := vk.ToAttrs(derived(c))
	peekWant, peekOther := strings.Join(want, ";"), strings.Join(owant, ";")
	text, otext := m.textValid(false), om.textValid(false)
	var ref, oref string
	if text {
		ref = m.refDefaultEncoding()
	}
	if otext {
		oref = om.refDefaultEncoding()
	}
	f, keep := mkFilter(c.FKind, c.Filter, string(c.Pivot), c.Deny)
	mk, md := m.filtered(keep)
	wantKept, wantDropped := mk.render(), sorted(md.render())
	be, ge := m.bitEqual(om), m.goEqual(om)

	return func(rounds int) []vk.Violation {
		var vs []vk.Violation
		bad := func(kind, format string, a ...any) {
			if len(vs) < 6 {
				vs = append(vs, vk.V(kind, format, a...))
			}
		}
		s := attribute.NewSet(append([]attribute.KeyValue{}, input...)...)
		so := attribute.NewSet(append([]attribute.KeyValue{}, other...)...)
		if !sameStrings(renderSlice(s.ToSlice()), want) || !sameStrings(renderSlice(so.ToSlice()), owant) {
			bad("toslice_model", "ToSlice() = %v / %v, supplied %v / %v", renderSlice(s.ToSlice()), renderSlice(so.ToSlice()), want, owant)
		}
		for r := 0; r < rounds && len(vs) == 0; r++ {
			switch tw.Focus {
			case "encode":
				if text {
					if enc := s.Encoded(attribute.DefaultEncoder()); enc != ref {
						bad("encoded", "round %d: Encoded(DefaultEncoder()) = %q, the contents are %q", r, enc, ref)
					}
				}
				if otext {
					if enc := so.Encoded(attribute.DefaultEncoder()); enc != oref {
						bad("encoded", "round %d: partner set: Encoded(DefaultEncoder()) = %q, the contents are %q", r, enc, oref)
					}
				}
				if r%8 == 0 {
					if enc := s.Encoded(peekEncoder{}); enc != peekWant {
						bad("custom_encoder", "round %d: Encoded(custom encoder) = %q, contents %q", r, enc, peekWant)
					}
					if enc := so.Encoded(peekEncoder{}); enc != peekOther {
						bad("custom_encoder", "round %d: partner set: Encoded(custom encoder) = %q, contents %q", r, enc, peekOther)
					}
					if ml, ok := s.MarshalLog().(map[string]string); !ok || len(ml) != len(m.keys) {
						bad("marshallog", "round %d: MarshalLog() has %d entries, model has %d keys", r, len(ml), len(m.keys))
					}
					if why := jsonDisagrees(&s, m); why != "" {
						bad("marshaljson", "round %d: %s", r, why)
					}
				}
			case "identity":
				s2 := attribute.NewSet(append([]attribute.KeyValue{}, dl...)...)
				if !sameStrings(renderSlice(s2.ToSlice()), want) {
					bad("toslice_model", "round %d: NewSet(permuted+duplicated).ToSlice() = %v, supplied %v", r, renderSlice(s2.ToSlice()), want)
				}
				if !s.Equals(&s2) || s.Equivalent() != s2.Equivalent() {
					bad("order_dup_sensitive", "round %d: NewSet(input) != NewSet(permuted+duplicated input): %v", r, want)
				}
				idx := map[attribute.Distinct]int{s.Equivalent(): 1}
				if _, ok := idx[s2.Equivalent()]; !ok {
					bad("map_key_unstable", "round %d: Equivalent() of an equal set misses as map key: %v", r, want)
				}
				eq := s.Equals(&so)
				if eq != so.Equals(&s) || eq != (s.Equivalent() == so.Equivalent()) {
					bad("equals_inconsistent", "round %d: Equals not symmetric / disagrees with Equivalent()==", r)
				}
				if be && !eq {
					bad("same_mapping_not_equal", "round %d: sets with identical mapping are not Equal: %v", r, want)
				}
				if !be && !ge && eq {
					bad("different_mapping_equal", "round %d: sets built from different mappings are Equal: %v vs %v", r, want, owant)
				}
				for _, k := range m.keys {
					if v, ok := s2.Value(attribute.Key(k)); !ok || vk.ValueKey(v) != rawKey(m.kv[k]) {
						bad("value_lookup", "round %d: Value(%q) = %s,%v; supplied %s", r, k, vk.ValueKey(v), ok, rawKey(m.kv[k]))
					}
				}
			case "filter":
				ks, dropped := s.Filter(f)
				if !sameStrings(renderSlice(ks.ToSlice()), wantKept) {
					bad("filter_kept", "round %d: Filter kept %v, model %v", r, renderSlice(ks.ToSlice()), wantKept)
				}
				if dr := sorted(renderSlice(dropped)); !sameStrings(dr, wantDropped) {
					bad("filter_dropped", "round %d: Filter dropped %v, model %v", r, dr, wantDropped)
				}
				work := append([]attribute.KeyValue{}, input...)
				ns, nd := attribute.NewSetWithFiltered(work, f)
				if !sameStrings(renderSlice(ns.ToSlice()), wantKept) || !sameStrings(sorted(renderSlice(nd)), wantDropped) {
					bad("newsetfiltered_kept", "round %d: NewSetWithFiltered kept %v dropped %v, model %v / %v", r, renderSlice(ns.ToSlice()), sorted(renderSlice(nd)), wantKept, wantDropped)
				}
				if !sameStrings(renderSlice(s.ToSlice()), want) {
					bad("filter_mutates_receiver", "round %d: receiver changed by Filter: now %v, supplied %v", r, renderSlice(s.ToSlice()), want)
				}
			}
		}
		return vs
	}
}

func runTwins(c TwinsCase) ([]vk.Violation, vk.Info) {
	var out []vk.Violation
	var info vk.Info
	bodies := make([]func(int) []vk.Violation, len(c.Twins))
	for i, tw := range c.Twins {
		bodies[i] = twinBody(tw)
	}
	// each twin alone first
	for i, tw := range c.Twins {
		for _, v := range bodies[i](1) {
			out = append(out, vk.V("sequential/"+v.Kind, "twin %d of %d (%s) running alone: %s", i, len(c.Twins), tw.Focus, v.Msg))
		}
	}
	if len(out) > 0 {
		return out, info
	}

	if c.Procs > 0 {
		prev := runtime.GOMAXPROCS(c.Procs)
		defer runtime.GOMAXPROCS(prev)
	}
	results := make([][]vk.Violation, len(c.Twins))
	panics := make([]any, len(c.Twins))
	start := make(chan struct{})
	stop := make(chan struct{})
	var wg, gcwg sync.WaitGroup
	for i := range c.Twins {
		wg.Add(1)
		go func(i int) {
			defer wg.Done()
			defer func() {
				if p := recover(); p != nil {
					panics[i] = p
				}
			}()
			<-start
			results[i] = bodies[i](c.Twins[i].Rounds)
		}(i)
	}
	if c.GC {
		gcwg.Add(1)
		go func() {
			defer gcwg.Done()
			<-start
			for {
				select {
				case <-stop:
					return
				default:
					runtime.GC()
				}
			}
		}()
	}
	close(start)
	wg.Wait()
	close(stop)
	gcwg.Wait()

	for i, tw := range c.Twins {
		if panics[i] != nil {
			out = append(out, vk.V("concurrent/panic", "twin %d of %d (%s), %d others working with their own sets: panic: %v", i, len(c.Twins), tw.Focus, len(c.Twins)-1, panics[i]))
		}
		for _, v := range results[i] {
			if len(out) < 12 {
				out = append(out, vk.V("concurrent/"+v.Kind, "twin %d of %d (%s), %d others working with their own sets at the same time (alone the same program held): %s", i, len(c.Twins), tw.Focus, len(c.Twins)-1, v.Msg))
			}
		}
	}

	focus := map[string]int{}
	work := 0
	for _, tw := range c.Twins {
		focus[tw.Focus]++
		work += tw.Rounds
	}
	info.NonTrivial = true
	info.Class(fmt.Sprintf("twins=%d", len(c.Twins)))
	info.Class(fmt.Sprintf("gomaxprocs=%d", c.Procs))
	info.ClassIf(c.GC, "forced_collections_meanwhile")
	for f, n := range focus {
		info.ClassIf(n >= 2, "two_or_more_twins_on/"+f)
	}
	info.ClassIf(work >= 1000, "rounds_total>=1000")
	return out, info
}

func TestConcurrentTwins(t *testing.T) {
	vk.Run(t, vk.Spec[TwinsCase]{
		Property: "C05", Check: "concurrent_twins",
		Rule: "2..8 goroutines, each with its own set_model case (own lists, sets, filter, expected renderings; no NaN in float slices), each running the sequential property on it - the whole set_model body 1..4 times, or the encoding / identity / filtering clause 1..1024 times - first alone, then released together; GOMAXPROCS unchanged / 1 / 2 / 4 and forced garbage collections meanwhile are part of the case; the oracle is the sequential one per goroutine (schedule independent); " +
			"non-trivial = every case (at least two goroutines ran together); distinct = distinct case encodings",
		Quick: 700, Thorough: 10000,
		Repeat: 20,
		Gen:    genTwins, Run: runTwins,
	})
}
