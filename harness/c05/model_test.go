package c05

import (
	"fmt"
	"math"
	"sort"
	"strings"
	"unicode/utf8"

	"go.opentelemetry.io/otel/attribute"
	"go.opentelemetry.io/otel/verif/internal/vk"
)

// rawKey renders the typed value a vk.KV *describes* in the format of
// vk.ValueKey (type name ':' bit-exact payload) without going through any
// constructor of the attribute package: it is the reference for "the value
// that was supplied". The type names are the exported constant names.
func rawKey(kv vk.KV) string {
	var sb strings.Builder
	switch kv.T {
	case "bool":
		fmt.Fprintf(&sb, "BOOL:%v", kv.B)
	case "int":
		fmt.Fprintf(&sb, "INT64:%d", kv.I)
	case "float":
		fmt.Fprintf(&sb, "FLOAT64:%016x", math.Float64bits(float64(kv.F)))
	case "str":
		fmt.Fprintf(&sb, "STRING:%q", string(kv.S))
	case "bools":
		fmt.Fprintf(&sb, "BOOLSLICE:%v", append([]bool{}, kv.BS...))
	case "ints":
		fmt.Fprintf(&sb, "INT64SLICE:%v", append([]int64{}, kv.IS...))
	case "floats":
		sb.WriteString("FLOAT64SLICE:")
		for _, f := range kv.FS {
			fmt.Fprintf(&sb, "%016x,", math.Float64bits(float64(f)))
		}
	case "strs":
		fmt.Fprintf(&sb, "STRINGSLICE:%q", vk.Strs(kv.SS))
	case "invalid":
		sb.WriteString("INVALID:")
	default:
		panic("c05: unknown KV type " + kv.T)
	}
	return sb.String()
}

func rawEntry(kv vk.KV) string { return fmt.Sprintf("%q=%s", string(kv.K), rawKey(kv)) }

// model is the reference: key -> the data supplied last for that key.
type model struct {
	keys []string // sorted
	kv   map[string]vk.KV
}

func newModel(kvs []vk.KV) model {
	m := model{kv: map[string]vk.KV{}}
	for _, kv := range kvs {
		m.kv[string(kv.K)] = kv
	}
	for k := range m.kv {
		m.keys = append(m.keys, k)
	}
	sort.Strings(m.keys)
	return m
}

// list returns the model's contents in key order.
func (m model) list() []vk.KV {
	out := make([]vk.KV, len(m.keys))
	for i, k := range m.keys {
		out[i] = m.kv[k]
	}
	return out
}

// filtered splits the model with a key/value predicate.
func (m model) filtered(keep func(vk.KV) bool) (kept, dropped model) {
	var a, b []vk.KV
	for _, kv := range m.list() {
		if keep(kv) {
			a = append(a, kv)
		} else {
			b = append(b, kv)
		}
	}
	return newModel(a), newModel(b)
}

func (m model) render() []string {
	out := make([]string, len(m.keys))
	for i, k := range m.keys {
		out[i] = rawEntry(m.kv[k])
	}
	return out
}

func renderSlice(kvs []attribute.KeyValue) []string {
	out := make([]string, len(kvs))
	for i, kv := range kvs {
		out[i] = fmt.Sprintf("%q=%s", string(kv.Key), vk.ValueKey(kv.Value))
	}
	return out
}

func sorted(in []string) []string {
	out := append([]string{}, in...)
	sort.Strings(out)
	return out
}

func sameStrings(a, b []string) bool {
	if len(a) != len(b) {
		return false
	}
	for i := range a {
		if a[i] != b[i] {
			return false
		}
	}
	return true
}

func multiset(rendered []string) map[string]int {
	m := map[string]int{}
	for _, s := range rendered {
		m[s]++
	}
	return m
}

func rawList(kvs []vk.KV) []string {
	out := make([]string, len(kvs))
	for i, kv := range kvs {
		out[i] = rawEntry(kv)
	}
	return out
}

func rawMultiset(kvs []vk.KV) map[string]int {
	m := map[string]int{}
	for _, kv := range kvs {
		m[rawEntry(kv)]++
	}
	return m
}

func sameMultiset(a, b map[string]int) bool {
	if len(a) != len(b) {
		return false
	}
	for k, v := range a {
		if b[k] != v {
			return false
		}
	}
	return true
}

// goEqualKV is Go-level (==) equality of the typed values two KVs describe:
// floats compare as floats (NaN != NaN, +0 == -0).
func goEqualKV(a, b vk.KV) bool {
	if a.T != b.T {
		return false
	}
	switch a.T {
	case "float":
		return float64(a.F) == float64(b.F)
	case "floats":
		if len(a.FS) != len(b.FS) {
			return false
		}
		for i := range a.FS {
			if float64(a.FS[i]) != float64(b.FS[i]) {
				return false
			}
		}
		return true
	}
	return rawKey(a) == rawKey(b)
}

func (m model) bitEqual(o model) bool { return sameStrings(m.render(), o.render()) }

// goEqual reports whether the two models have the same keys and, key by key,
// values that are equal under AT LEAST ONE of the two notions (bitwise / Go
// ==). Models that are not goEqual differ under both notions in some key (or
// in their key sets): only those are asserted to be unequal sets.
func (m model) goEqual(o model) bool {
	if !sameStrings(m.keys, o.keys) {
		return false
	}
	for _, k := range m.keys {
		if rawKey(m.kv[k]) != rawKey(o.kv[k]) && !goEqualKV(m.kv[k], o.kv[k]) {
			return false
		}
	}
	return true
}

func (m model) hasNaNSlice() bool {
	for _, kv := range m.kv {
		if kv.T == "floats" {
			for _, f := range kv.FS {
				if math.IsNaN(float64(f)) {
					return true
				}
			}
		}
	}
	return false
}

// textValid reports whether every key and every string (scalar or slice
// element) of the model is valid UTF-8.
func (m model) textValid(slicesToo bool) bool {
	for _, k := range m.keys {
		kv := m.kv[k]
		if !utf8.ValidString(k) || (kv.T == "str" && !utf8.ValidString(string(kv.S))) {
			return false
		}
		if slicesToo && kv.T == "strs" {
			for _, s := range kv.SS {
				if !utf8.ValidString(string(s)) {
					return false
				}
			}
		}
	}
	return true
}

func refEscape(s string) string {
	return strings.NewReplacer(`\`, `\\`, `=`, `\=`, `,`, `\,`).Replace(s)
}

// refDefaultEncoding is the documented default encoding (escaped key '='
// escaped value, joined by ','). Non-string values are rendered by Emit of a
// value built from the data; Emit itself is compared with the data by
// emitDisagrees. Only meaningful when m.textValid(false).
func (m model) refDefaultEncoding() string {
	var parts []string
	for _, k := range m.keys {
		kv := m.kv[k]
		if kv.T == "str" {
			parts = append(parts, refEscape(k)+"="+refEscape(string(kv.S)))
		} else {
			parts = append(parts, refEscape(k)+"="+kv.ToAttr().Value.Emit())
		}
	}
	return strings.Join(parts, ",")
}
