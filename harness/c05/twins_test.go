package c05

import (
	"encoding/json"
	"fmt"
	"math"
	"strconv"
	"strings"
	"unicode"

	"go.opentelemetry.io/otel/verif/internal/vk"
	"pgregory.net/rapid"
)

// A near-twin of a key-value differs from it by one small edit: one byte of a
// string, one bit of a float, one element of a slice, the type with the same
// payload, the usual normalisations of text (valid-UTF-8 coercion, case,
// surrounding blanks). Two sets that differ by a twin must not be Equal
// ("exactly when they hold the same key to typed-value mapping"): any
// canonicalisation of values on the way in collapses some of these pairs.

func twinText(t *rapid.T, s string) string {
	switch rapid.IntRange(0, 8).Draw(t, "textedit") {
	case 0:
		return s + "\x00"
	case 1:
		return s + rapid.SampledFrom(vk.InvalidFragments).Draw(t, "frag")
	case 2:
		if len(s) > 0 {
			return s[:len(s)-1]
		}
		return " "
	case 3:
		return strings.ToValidUTF8(s, "�")
	case 4:
		return strings.ToValidUTF8(s, "")
	case 5: // swap the case of the first cased rune
		for i, r := range s {
			if unicode.IsUpper(r) {
				return s[:i] + string(unicode.ToLower(r)) + s[i+len(string(r)):]
			}
			if unicode.IsLower(r) {
				return s[:i] + string(unicode.ToUpper(r)) + s[i+len(string(r)):]
			}
		}
		return s + "a"
	case 6:
		return s + " "
	case 7: // another invalid byte in place of the first invalid one
		for i := 0; i < len(s); i++ {
			if s[i] >= 0x80 {
				b := []byte(s)
				b[i] ^= 0x01
				return string(b)
			}
		}
		return "\xff" + s
	default:
		return strings.TrimSpace(s)
	}
}

func twinF64(t *rapid.T, f vk.F64) vk.F64 {
	bits := math.Float64bits(float64(f))
	switch rapid.IntRange(0, 2).Draw(t, "fedit") {
	case 0:
		bits ^= 1
	case 1:
		bits ^= 1 << 63
	default:
		bits ^= 1 << uint(rapid.IntRange(0, 63).Draw(t, "bit"))
	}
	return vk.F64(math.Float64frombits(bits))
}

func twinI64(t *rapid.T, i int64) int64 {
	switch rapid.IntRange(0, 2).Draw(t, "iedit") {
	case 0:
		return i + 1 // wraps at MaxInt64: still another value
	case 1:
		return -i - 1
	default:
		return i ^ (1 << uint(rapid.IntRange(0, 63).Draw(t, "bit")))
	}
}

// textOf renders a non-string value the way it is usually printed.
func textOf(kv vk.KV) (string, bool) {
	switch kv.T {
	case "bool":
		return strconv.FormatBool(kv.B), true
	case "int":
		return strconv.FormatInt(kv.I, 10), true
	case "float":
		return strconv.FormatFloat(float64(kv.F), 'g', -1, 64), true
	case "bools":
		return fmt.Sprint(append([]bool{}, kv.BS...)), true
	case "ints":
		b, err := json.Marshal(append([]int64{}, kv.IS...))
		return string(b), err == nil
	case "strs":
		b, err := json.Marshal(vk.Strs(kv.SS))
		return string(b), err == nil
	case "invalid":
		return "", true
	}
	return "", false
}

// twinKV returns a near-twin of kv under the same key (or, rarely, the same
// value under a near-twin key).
func twinKV(t *rapid.T, kv vk.KV) vk.KV {
	out := vk.KV{K: kv.K, T: kv.T}
	if rapid.IntRange(0, 9).Draw(t, "twinkey") == 0 {
		out = kv
		out.K = vk.Str(twinText(t, string(kv.K)))
		return out
	}
	if rapid.IntRange(0, 9).Draw(t, "astext") == 0 {
		// the STRING whose text is the usual rendering of the value
		if txt, ok := textOf(kv); ok {
			return vk.KV{K: kv.K, T: "str", S: vk.Str(txt)}
		}
	}
	retype := rapid.IntRange(0, 3).Draw(t, "retype") == 0
	switch kv.T {
	case "bool":
		switch {
		case retype && rapid.Bool().Draw(t, "toint"):
			out.T = "int"
			if kv.B {
				out.I = 1
			}
		case retype:
			out.T, out.BS = "bools", []bool{kv.B}
		default:
			out.B = !kv.B
		}
	case "int":
		switch {
		case retype && rapid.Bool().Draw(t, "tofloat"):
			out.T, out.F = "float", vk.F64(math.Float64frombits(uint64(kv.I))) // same 64 bits, other type
		case retype:
			out.T, out.IS = "ints", []int64{kv.I}
		default:
			out.I = twinI64(t, kv.I)
		}
	case "float":
		switch {
		case retype && rapid.Bool().Draw(t, "toint"):
			out.T, out.I = "int", int64(math.Float64bits(float64(kv.F)))
		case retype:
			out.T, out.FS = "floats", []vk.F64{kv.F}
		default:
			out.F = twinF64(t, kv.F)
		}
	case "str":
		switch {
		case retype && rapid.Bool().Draw(t, "toslice"):
			out.T, out.SS = "strs", []vk.Str{kv.S}
		case retype:
			out.T = "invalid"
		default:
			out.S = vk.Str(twinText(t, string(kv.S)))
		}
	case "invalid":
		out.T = rapid.SampledFrom([]string{"str", "bool", "int", "float", "bools", "ints", "floats", "strs"}).Draw(t, "zeroof")
	case "bools", "ints", "floats", "strs":
		n := map[string]int{"bools": len(kv.BS), "ints": len(kv.IS), "floats": len(kv.FS), "strs": len(kv.SS)}[kv.T]
		out.BS = append([]bool(nil), kv.BS...)
		out.IS = append([]int64(nil), kv.IS...)
		out.FS = append([]vk.F64(nil), kv.FS...)
		out.SS = append([]vk.Str(nil), kv.SS...)
		edit := rapid.IntRange(0, 4).Draw(t, "sliceedit")
		switch {
		case retype || (n == 0 && edit == 0): // same (often empty) payload under another slice type
			others := []string{}
			for _, o := range []string{"bools", "ints", "floats", "strs"} {
				if o != kv.T {
					others = append(others, o)
				}
			}
			out = vk.KV{K: kv.K, T: rapid.SampledFrom(others).Draw(t, "slicetype")}
			for i := 0; i < n; i++ {
				switch out.T {
				case "bools":
					out.BS = append(out.BS, false)
				case "ints":
					out.IS = append(out.IS, 0)
				case "floats":
					out.FS = append(out.FS, 0)
				case "strs":
					out.SS = append(out.SS, "")
				}
			}
		case n == 0 || edit == 1: // one more (zero) element
			switch kv.T {
			case "bools":
				out.BS = append(out.BS, false)
			case "ints":
				out.IS = append(out.IS, 0)
			case "floats":
				out.FS = append(out.FS, 0)
			case "strs":
				out.SS = append(out.SS, "")
			}
		case edit == 2: // one element less
			switch kv.T {
			case "bools":
				out.BS = out.BS[:n-1]
			case "ints":
				out.IS = out.IS[:n-1]
			case "floats":
				out.FS = out.FS[:n-1]
			case "strs":
				out.SS = out.SS[:n-1]
			}
		case edit == 3 && n >= 2: // element order is part of a slice value
			i := rapid.IntRange(0, n-2).Draw(t, "swap")
			switch kv.T {
			case "bools":
				out.BS[i], out.BS[i+1] = out.BS[i+1], out.BS[i]
			case "ints":
				out.IS[i], out.IS[i+1] = out.IS[i+1], out.IS[i]
			case "floats":
				out.FS[i], out.FS[i+1] = out.FS[i+1], out.FS[i]
			case "strs":
				out.SS[i], out.SS[i+1] = out.SS[i+1], out.SS[i]
			}
		default: // one element edited
			i := rapid.IntRange(0, n-1).Draw(t, "elem")
			switch kv.T {
			case "bools":
				out.BS[i] = !out.BS[i]
			case "ints":
				out.IS[i] = twinI64(t, out.IS[i])
			case "floats":
				out.FS[i] = twinF64(t, out.FS[i])
			case "strs":
				out.SS[i] = vk.Str(twinText(t, string(out.SS[i])))
			}
		}
		// keep only the field the type tag selects (Case is data: it must
		// survive its JSON round trip exactly)
		switch out.T {
		case "bools":
			out.IS, out.FS, out.SS = nil, nil, nil
		case "ints":
			out.BS, out.FS, out.SS = nil, nil, nil
		case "floats":
			out.BS, out.IS, out.SS = nil, nil, nil
		case "strs":
			out.BS, out.IS, out.FS = nil, nil, nil
		}
	}
	return out
}
