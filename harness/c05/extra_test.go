package c05

import (
	"bytes"
	"encoding/json"
	"fmt"
	"strconv"
	"unicode/utf8"

	"go.opentelemetry.io/otel/attribute"
	"go.opentelemetry.io/otel/verif/internal/vk"
)

// typeName is the exported constant name of the type a KV tag describes; it
// is what Value.MarshalJSON writes in "Type".
var typeName = map[string]string{
	"bool": "BOOL", "int": "INT64", "float": "FLOAT64", "str": "STRING",
	"bools": "BOOLSLICE", "ints": "INT64SLICE", "floats": "FLOAT64SLICE", "strs": "STRINGSLICE",
	"invalid": "INVALID",
}

// jsonDisagrees reads Set.MarshalJSON back and compares it with the model.
// It returns "" when they agree or when MarshalJSON fails (that it succeeds is
// not part of the statement; non-finite floats have no JSON form). Strings
// that are not valid UTF-8 cannot be carried by JSON and are not compared.
func jsonDisagrees(s *attribute.Set, m model) string {
	b, err := s.MarshalJSON()
	if err != nil {
		return ""
	}
	var elems []struct {
		Key   string
		Value struct {
			Type  string
			Value json.RawMessage
		}
	}
	dec := json.NewDecoder(bytes.NewReader(b))
	if err := dec.Decode(&elems); err != nil {
		return fmt.Sprintf("MarshalJSON() = %s does not decode as a list of {Key, Value{Type, Value}}: %v", b, err)
	}
	if len(elems) != len(m.keys) {
		return fmt.Sprintf("MarshalJSON() has %d elements, the set holds %d keys: %s", len(elems), len(m.keys), b)
	}
	for i, k := range m.keys {
		raw := m.kv[k]
		e := elems[i]
		if utf8.ValidString(k) && e.Key != k {
			return fmt.Sprintf("MarshalJSON() element %d has key %q, the set holds %q", i, e.Key, k)
		}
		if e.Value.Type != typeName[raw.T] {
			return fmt.Sprintf("MarshalJSON() element %d (key %q) has type %q, the set holds %s", i, k, e.Value.Type, rawKey(raw))
		}
		if why := jsonPayloadDisagrees(e.Value.Value, raw); why != "" {
			return fmt.Sprintf("MarshalJSON() element %d (key %q) has value %s, the set holds %s (%s)", i, k, e.Value.Value, rawKey(raw), why)
		}
	}
	return ""
}

func jsonPayloadDisagrees(p json.RawMessage, raw vk.KV) string {
	num := func(r json.RawMessage) (json.Number, bool) {
		var n json.Number
		d := json.NewDecoder(bytes.NewReader(r))
		d.UseNumber()
		return n, d.Decode(&n) == nil
	}
	list := func() ([]json.RawMessage, bool) {
		var l []json.RawMessage
		return l, json.Unmarshal(p, &l) == nil
	}
	switch raw.T {
	case "bool":
		var b bool
		if json.Unmarshal(p, &b) != nil || b != raw.B {
			return "bool differs"
		}
	case "int":
		n, ok := num(p)
		if i, err := strconv.ParseInt(n.String(), 10, 64); !ok || err != nil || i != raw.I {
			return "int64 differs"
		}
	case "float":
		n, ok := num(p)
		if f, err := strconv.ParseFloat(n.String(), 64); !ok || err != nil || f != float64(raw.F) {
			return "float64 differs"
		}
	case "str":
		var s string
		if json.Unmarshal(p, &s) != nil || (utf8.ValidString(string(raw.S)) && s != string(raw.S)) {
			return "string differs"
		}
	case "bools":
		l, ok := list()
		if !ok || len(l) != len(raw.BS) {
			return "length differs"
		}
		for i := range l {
			var b bool
			if json.Unmarshal(l[i], &b) != nil || b != raw.BS[i] {
				return fmt.Sprintf("element %d differs", i)
			}
		}
	case "ints":
		l, ok := list()
		if !ok || len(l) != len(raw.IS) {
			return "length differs"
		}
		for i := range l {
			n, ok := num(l[i])
			if x, err := strconv.ParseInt(n.String(), 10, 64); !ok || err != nil || x != raw.IS[i] {
				return fmt.Sprintf("element %d differs", i)
			}
		}
	case "floats":
		l, ok := list()
		if !ok || len(l) != len(raw.FS) {
			return "length differs"
		}
		for i := range l {
			n, ok := num(l[i])
			if x, err := strconv.ParseFloat(n.String(), 64); !ok || err != nil || x != float64(raw.FS[i]) {
				return fmt.Sprintf("element %d differs", i)
			}
		}
	case "strs":
		l, ok := list()
		if !ok || len(l) != len(raw.SS) {
			return "length differs"
		}
		for i := range l {
			var s string
			if json.Unmarshal(l[i], &s) != nil || (utf8.ValidString(string(raw.SS[i])) && s != string(raw.SS[i])) {
				return fmt.Sprintf("element %d differs", i)
			}
		}
	}
	return ""
}
