package c05

import (
	"fmt"
	"strings"
	"testing"

	"go.opentelemetry.io/otel/attribute"
	"go.opentelemetry.io/otel/verif/internal/vk"
	"pgregory.net/rapid"
)

// slot_program: a Set is a plain comparable value. A storage location (a
// variable, a slice element, the target of a *Set) that holds one Set can be
// assigned another. The program is a generated sequence of assignments to and
// observations of a few such locations; the oracle is a model per location
// (key -> data supplied last). Every observation must agree with what the
// location holds at that moment, whatever it held before and whatever was
// observed before - this is where anything remembered per address / per
// encoder / per call (memo of Encoded, of Equivalent, of ToSlice) shows.

// SlotOp is one step.
type SlotOp struct {
	Op     string   `json:"op"`
	A      int      `json:"a"`      // target / observed slot
	B      int      `json:"b"`      // source / partner slot
	L      int      `json:"l"`      // list index (new, newfiltered)
	Enc    int      `json:"enc"`    // encoder index (encode)
	FKind  string   `json:"fkind"`  // filter family (filter, newfiltered)
	Filter []string `json:"filter"` //
	Pivot  vk.Str   `json:"pivot"`  //
	Deny   bool     `json:"deny"`   //
	Key    vk.Str   `json:"key"`    // lookup
}

// SlotCase is one program.
type SlotCase struct {
	Lists  [][]vk.KV `json:"lists"`
	NSlots int       `json:"nslots"`
	Ops    []SlotOp  `json:"ops"`
}

var assignOps = []string{"new", "new", "new", "newfiltered", "copy", "filter", "zero", "empty"}
var observeOps = []string{"encode", "encode", "encode", "encode", "equals", "distinct", "lookup", "toslice", "merge", "iter"}

func genSlots(t *rapid.T) SlotCase {
	ks := keys[:5]
	if rapid.IntRange(0, 3).Draw(t, "longalpha") == 0 {
		ks = keys
	}
	// no NaN here: identity of NaN-holding slices is the known finding that
	// set_model tracks; no invalid UTF-8: the default encoder's reference
	// needs text (set_model covers byte strings).
	o := vk.KVOpts{Keys: ks, EmptyKey: true, Invalid: true, MaxSlice: 2, MaxTextParts: 3}
	c := SlotCase{}
	nl := rapid.IntRange(1, 4).Draw(t, "nlists")
	for i := 0; i < nl; i++ {
		switch {
		case i > 0 && rapid.IntRange(0, 3).Draw(t, "listkind") == 0:
			// a near-twin of an earlier list
			src := c.Lists[rapid.IntRange(0, i-1).Draw(t, "twinlist")]
			l := append([]vk.KV{}, src...)
			if len(l) > 0 {
				tw := twinKV(t, l[rapid.IntRange(0, len(l)-1).Draw(t, "twinof")])
				if validText(tw) && !newModel([]vk.KV{tw}).hasNaNSlice() {
					l = append(l, tw)
				}
			}
			c.Lists = append(c.Lists, l)
		default:
			c.Lists = append(c.Lists, vk.GenKVs(o, 13, 0, 1, 2, 10, 11).Draw(t, "list"))
		}
	}
	c.NSlots = rapid.SampledFrom([]int{1, 1, 2, 2, 3}).Draw(t, "nslots")
	n := rapid.IntRange(2, 24).Draw(t, "nops")
	var lastObs *SlotOp
	for i := 0; i < n; i++ {
		op := SlotOp{A: rapid.IntRange(0, c.NSlots-1).Draw(t, "a"), B: rapid.IntRange(0, c.NSlots-1).Draw(t, "b")}
		switch k := rapid.IntRange(0, 11).Draw(t, "assign"); {
		case k < 4:
			op.Op = rapid.SampledFrom(assignOps).Draw(t, "op")
		case k < 7 && lastObs != nil:
			// the same question as last time (same slots, same encoder, same
			// key), typically after the slot has been assigned in between
			c.Ops = append(c.Ops, *lastObs)
			continue
		default:
			op.Op = rapid.SampledFrom(observeOps).Draw(t, "op")
		}
		switch op.Op {
		case "new":
			op.L = rapid.IntRange(0, nl-1).Draw(t, "l")
		case "encode":
			op.Enc = rapid.IntRange(0, len(slotEncoders)-1).Draw(t, "enc")
		case "lookup":
			op.Key = vk.Str(rapid.SampledFrom(append([]string{"", "zz"}, ks...)).Draw(t, "key"))
		case "filter", "newfiltered":
			op.L = rapid.IntRange(0, nl-1).Draw(t, "l")
			op.FKind = rapid.SampledFrom([]string{"keys", "keys", "types", "below", "valid"}).Draw(t, "fkind")
			switch op.FKind {
			case "keys":
				op.Filter = rapid.SliceOfN(rapid.SampledFrom(append([]string{""}, ks...)), 0, 4).Draw(t, "filter")
			case "types":
				op.Filter = rapid.SliceOfN(rapid.SampledFrom(typeTags), 0, 4).Draw(t, "ftypes")
			case "below":
				op.Pivot = vk.Str(rapid.SampledFrom(append([]string{"", "\xff"}, ks...)).Draw(t, "pivot"))
			}
			op.Deny = rapid.Bool().Draw(t, "deny")
		}
		c.Ops = append(c.Ops, op)
		switch op.Op {
		case "encode", "equals", "distinct", "lookup", "toslice", "merge", "iter":
			o := op
			lastObs = &o
		}
	}
	return c
}

func validText(kv vk.KV) bool {
	return newModel([]vk.KV{kv}).textValid(true)
}

// The encoders a slot is encoded with: the default one, two user encoders
// with distinct valid IDs and different renderings, and a user encoder whose
// ID is the zero EncoderID ("invalid encoder IDs will not be cached"). Two
// encoders sharing one ID but rendering differently are NOT among them (the
// ID is documented to identify the class of encoder).
type fullEncoder struct{ id attribute.EncoderID }

func (e fullEncoder) ID() attribute.EncoderID { return e.id }
func (fullEncoder) Encode(it attribute.Iterator) string {
	var parts []string
	for it.Next() {
		parts = append(parts, renderSlice([]attribute.KeyValue{it.Attribute()})[0])
	}
	return "full{" + strings.Join(parts, ";") + "}"
}

type keysEncoder struct{ id attribute.EncoderID }

func (e keysEncoder) ID() attribute.EncoderID { return e.id }
func (keysEncoder) Encode(it attribute.Iterator) string {
	var parts []string
	for it.Next() {
		parts = append(parts, fmt.Sprintf("%q", string(it.Attribute().Key)))
	}
	return fmt.Sprintf("keys%d{%s}", it.Len(), strings.Join(parts, "|"))
}

var slotEncoders = []struct {
	name string
	enc  attribute.Encoder
	ref  func(model) string
}{
	{"DefaultEncoder()", attribute.DefaultEncoder(), func(m model) string { return m.refDefaultEncoding() }},
	{"a user encoder (valid ID) rendering keys and values", fullEncoder{attribute.NewEncoderID()}, func(m model) string { return "full{" + strings.Join(m.render(), ";") + "}" }},
	{"a user encoder (valid ID) rendering keys", keysEncoder{attribute.NewEncoderID()}, refKeys},
	{"a user encoder with the zero EncoderID", keysEncoder{}, refKeys},
}

func refKeys(m model) string {
	var parts []string
	for _, k := range m.keys {
		parts = append(parts, fmt.Sprintf("%q", k))
	}
	return fmt.Sprintf("keys%d{%s}", len(m.keys), strings.Join(parts, "|"))
}

func runSlots(c SlotCase) ([]vk.Violation, vk.Info) {
	var vs []vk.Violation
	var info vk.Info
	bad := func(step int, kind, format string, a ...any) {
		if len(vs) < 20 {
			vs = append(vs, vk.V(kind, "step %d: "+format, append([]any{step}, a...)...))
		}
	}

	slots := make([]attribute.Set, c.NSlots)
	models := make([]model, c.NSlots)
	gen := make([]int, c.NSlots)      // how often the slot was assigned
	changed := make([]bool, c.NSlots) // the last assignment changed the contents
	lastEnc := map[[2]int]int{}       // (slot, encoder) -> generation at the last Encoded
	seenByRender := map[string]attribute.Distinct{}
	seenByKey := map[attribute.Distinct]model{}
	type handed struct {
		step   int
		slice  []attribute.KeyValue
		render []string
	}
	var handedOut []handed
	reuse, reuseSameEnc, backToBack := false, false, false
	lastEncodeSlot, lastEncodeEnc, lastEncodeGen := -1, -1, -1

	assign := func(a int, m model) {
		changed[a] = !m.bitEqual(models[a])
		models[a] = m
		gen[a]++
	}
	observeDistinct := func(step int, a int) {
		d := slots[a].Equivalent()
		m := models[a]
		r := strings.Join(m.render(), ";")
		if prev, ok := seenByRender[r]; ok && prev != d {
			bad(step, "distinct_unstable", "slot %d holds %v; its Equivalent() differs from the Equivalent() seen earlier for the same mapping", a, m.render())
		}
		if pm, ok := seenByKey[d]; ok && !pm.bitEqual(m) && !pm.goEqual(m) {
			bad(step, "distinct_collision", "slot %d holds %v; its Equivalent() is == to the one seen earlier for the different mapping %v", a, m.render(), pm.render())
		}
		seenByRender[r] = d
		if _, ok := seenByKey[d]; !ok {
			seenByKey[d] = m
		}
	}
	observeAll := func(step int, a int) {
		m := models[a]
		if got := renderSlice(slots[a].ToSlice()); !sameStrings(got, m.render()) || slots[a].Len() != len(m.keys) {
			bad(step, "slot_contents", "slot %d: ToSlice() = %v (Len %d), the slot was last assigned %v", a, got, slots[a].Len(), m.render())
		}
	}

	for step, op := range c.Ops {
		a, b := op.A%c.NSlots, op.B%c.NSlots
		switch op.Op {
		case "new":
			l := c.Lists[op.L%len(c.Lists)]
			slots[a] = attribute.NewSet(vk.ToAttrs(l)...)
			assign(a, newModel(l))
		case "newfiltered":
			l := c.Lists[op.L%len(c.Lists)]
			f, keep := mkFilter(op.FKind, op.Filter, string(op.Pivot), op.Deny)
			var dropped []attribute.KeyValue
			slots[a], dropped = attribute.NewSetWithFiltered(vk.ToAttrs(l), f)
			kept, drop := newModel(l).filtered(keep)
			if !sameStrings(sorted(renderSlice(dropped)), sorted(drop.render())) {
				bad(step, "filter_dropped", "NewSetWithFiltered dropped %v, model %v", sorted(renderSlice(dropped)), sorted(drop.render()))
			}
			assign(a, kept)
		case "copy":
			slots[a] = slots[b]
			assign(a, models[b])
		case "filter":
			f, keep := mkFilter(op.FKind, op.Filter, string(op.Pivot), op.Deny)
			var dropped []attribute.KeyValue
			slots[a], dropped = slots[b].Filter(f) // a == b: filtered in place
			kept, drop := models[b].filtered(keep)
			if !sameStrings(sorted(renderSlice(dropped)), sorted(drop.render())) {
				bad(step, "filter_dropped", "slot %d Filter dropped %v, model %v", b, sorted(renderSlice(dropped)), sorted(drop.render()))
			}
			assign(a, kept)
			if a != b {
				observeAll(step, b) // "without altering the original"
			}
		case "zero":
			slots[a] = attribute.Set{}
			assign(a, model{})
		case "empty":
			slots[a] = *attribute.EmptySet()
			assign(a, model{})
		case "encode":
			e := slotEncoders[op.Enc%len(slotEncoders)]
			got, want := slots[a].Encoded(e.enc), e.ref(models[a])
			if got != want {
				bad(step, "encoded_disagrees_with_contents", "slot %d (assigned %d times) holds %v; Encoded(%s) = %q, reference %q", a, gen[a], models[a].render(), e.name, got, want)
			}
			k := [2]int{a, op.Enc % len(slotEncoders)}
			if g, ok := lastEnc[k]; ok && g != gen[a] && changed[a] {
				reuseSameEnc = true
			}
			if lastEncodeSlot == a && lastEncodeEnc == k[1] && lastEncodeGen != gen[a] {
				backToBack = true
			}
			lastEnc[k] = gen[a]
			lastEncodeSlot, lastEncodeEnc, lastEncodeGen = a, k[1], gen[a]
		case "equals":
			eq := slots[a].Equals(&slots[b])
			be, ge := models[a].bitEqual(models[b]), models[a].goEqual(models[b])
			// (one Equals call per step: the swapped question is another step)
			if eq != (slots[a].Equivalent() == slots[b].Equivalent()) {
				bad(step, "equals_inconsistent", "slots %d, %d: Equals = %v disagrees with Equivalent()==", a, b, eq)
			}
			if be && !eq {
				bad(step, "same_mapping_not_equal", "slots %d and %d hold the same mapping %v but are not Equal", a, b, models[a].render())
			}
			if !be && !ge && eq {
				bad(step, "different_mapping_equal", "slots %d and %d hold %v and %v but are Equal", a, b, models[a].render(), models[b].render())
			}
		case "distinct":
			observeDistinct(step, a)
		case "lookup":
			v, ok := slots[a].Value(attribute.Key(op.Key))
			mv, mok := models[a].kv[string(op.Key)]
			if ok != mok || (ok && vk.ValueKey(v) != rawKey(mv)) || slots[a].HasValue(attribute.Key(op.Key)) != mok {
				bad(step, "value_lookup", "slot %d holds %v; Value(%q) = %s,%v", a, models[a].render(), string(op.Key), vk.ValueKey(v), ok)
			}
		case "toslice":
			sl := slots[a].ToSlice()
			if !sameStrings(renderSlice(sl), models[a].render()) || slots[a].Len() != len(models[a].keys) {
				bad(step, "slot_contents", "slot %d: ToSlice() = %v (Len %d), the slot was last assigned %v", a, renderSlice(sl), slots[a].Len(), models[a].render())
			}
			handedOut = append(handedOut, handed{step, sl, models[a].render()})
		case "iter":
			it := slots[a].Iter()
			var seen []attribute.KeyValue
			for it.Next() {
				seen = append(seen, it.Attribute())
			}
			if !sameStrings(renderSlice(seen), models[a].render()) {
				bad(step, "iter", "slot %d: iteration yields %v, the slot was last assigned %v", a, renderSlice(seen), models[a].render())
			}
		case "merge":
			mi := attribute.NewMergeIterator(&slots[a], &slots[b])
			var merged []attribute.KeyValue
			for mi.Next() {
				merged = append(merged, mi.Attribute())
			}
			union := newModel(append(append([]vk.KV{}, models[b].list()...), models[a].list()...))
			if !sameStrings(renderSlice(merged), union.render()) {
				bad(step, "merge", "MergeIterator(slot %d, slot %d) = %v, model %v", a, b, renderSlice(merged), union.render())
			}
		}
		if gen[a] > 1 && changed[a] {
			switch op.Op {
			case "encode", "equals", "distinct", "lookup", "toslice", "iter", "merge":
				reuse = true
			}
		}
	}
	// final sweep: every slot, every observation channel
	for a := range slots {
		observeAll(len(c.Ops), a)
		observeDistinct(len(c.Ops), a)
		for _, e := range slotEncoders {
			if got, want := slots[a].Encoded(e.enc), e.ref(models[a]); got != want {
				bad(len(c.Ops), "encoded_disagrees_with_contents", "final sweep: slot %d (assigned %d times) holds %v; Encoded(%s) = %q, reference %q", a, gen[a], models[a].render(), e.name, got, want)
			}
		}
	}
	// slices handed out earlier still show what the slot held then
	for _, h := range handedOut {
		if !sameStrings(renderSlice(h.slice), h.render) {
			bad(h.step, "handed_out_slice_changed_later", "the slice ToSlice() returned at this step now reads %v, it was %v", renderSlice(h.slice), h.render)
		}
	}

	info.NonTrivial = reuse
	info.ClassIf(reuse, "observed_after_reassignment_with_other_contents")
	info.ClassIf(reuseSameEnc, "encoded_again_with_same_encoder_after_reassignment")
	info.ClassIf(backToBack, "encoded_reassigned_encoded_no_other_encode_between")
	info.ClassIf(c.NSlots == 1, "one_slot")
	info.ClassIf(len(seenByKey) >= 3, ">=3_distinct_map_keys")
	return vs, info
}

func TestSlotProgram(t *testing.T) {
	vk.Run(t, vk.Spec[SlotCase]{
		Property: "C05", Check: "slot_program",
		Rule: "1..4 kv lists (some near-twins of each other), 1..3 Set storage locations, 2..24 steps: assign (NewSet / NewSetWithFiltered / copy of a slot / Filter of a slot, also in place / zero value / *EmptySet()) or observe (Encoded with the default, two user and a zero-ID encoder; Equals; Equivalent as map key; Value; ToSlice; iteration; MergeIterator) compared with a per-location model, then a final sweep; " +
			"non-trivial = some location is observed after it was assigned a set with other contents than it held before; distinct = distinct case encodings",
		Quick: 6000, Thorough: 90000,
		Gen: genSlots, Run: runSlots,
	})
}
