package c05

import (
	"fmt"
	"testing"

	"go.opentelemetry.io/otel/attribute"
	"go.opentelemetry.io/otel/verif/internal/vk"
	"pgregory.net/rapid"
)

// key_filters: "Filtering splits a Set into kept and dropped parts ... for
// all filter predicates". The library's own predicates are
// attribute.NewAllowKeysFilter / NewDenyKeysFilter (attribute/filter.go):
// "only allows / denies attributes with one of the provided keys". The keys
// provided are those of the construction call. The program here is what a
// caller does with the []attribute.Key it spreads into the constructor
// (keys...): nothing, or (hostile caller) it lends a slice with spare
// capacity, writes other keys over it afterwards, re-uses the same scratch
// buffer for the next filter. After the whole program every filter is used
// (in construction order and then in reverse order, so every filter is used
// twice and after every other filter was built and used) and must split the
// set by the keys it was constructed with.

// KFBuild is one filter construction and what happens to the lent slice after it.
type KFBuild struct {
	Keys  []string `json:"keys"`  // keys provided at construction (duplicates, "" allowed)
	Deny  bool     `json:"deny"`  // NewDenyKeysFilter instead of NewAllowKeysFilter
	Lend  string   `json:"lend"`  // "exact": a fresh exactly sized slice; "spare": a fresh slice with spare capacity; "scratch": the one scratch buffer of the case, refilled from index 0; "args": individual arguments built by a helper taking a fixed number of parameters
	After string   `json:"after"` // what the caller does with the lent slice right after: "none", "overwrite", "clear", "rotate", "append"
	Fill  []string `json:"fill"`  // keys written by "overwrite" / "append"
}

// KFCase is one program.
type KFCase struct {
	KVs    []vk.KV   `json:"kvs"`
	Spare  int       `json:"spare"` // capacity of the scratch buffer beyond the longest key list
	Builds []KFBuild `json:"builds"`
}

func genKeyFilters(t *rapid.T) KFCase {
	ks := keys
	if rapid.IntRange(0, 3).Draw(t, "shortalpha") == 0 {
		ks = keys[:6]
	}
	o := vk.KVOpts{Keys: ks, EmptyKey: true, Invalid: true, InvalidUTF8: true, MaxSlice: 2, MaxTextParts: 2}
	c := KFCase{}
	c.KVs = vk.GenKVs(o, 20, 0, 1, 9, 10, 11, 17).Draw(t, "kvs")
	c.Spare = rapid.SampledFrom([]int{0, 0, 1, 3, 16}).Draw(t, "spare")
	keyGen := rapid.SampledFrom(append([]string{"", "zz"}, ks...))
	// key counts: every count 0..20, the small ones and the neighbourhood of
	// the usual fast-path sizes (1, 2, 4, 8, 9, 10, 16, 17) more often
	nKeys := rapid.OneOf(rapid.IntRange(0, 20), rapid.SampledFrom([]int{0, 1, 1, 2, 2, 3, 4, 7, 8, 9, 10, 11, 16, 17}))
	nb := rapid.IntRange(1, 4).Draw(t, "nbuilds")
	for i := 0; i < nb; i++ {
		b := KFBuild{}
		n := nKeys.Draw(t, "nkeys")
		b.Keys = rapid.SliceOfN(keyGen, n, n).Draw(t, "keys")
		b.Deny = rapid.Bool().Draw(t, "deny")
		b.Lend = rapid.SampledFrom([]string{"exact", "spare", "scratch", "scratch", "scratch", "args"}).Draw(t, "lend")
		b.After = rapid.SampledFrom([]string{"none", "overwrite", "overwrite", "clear", "rotate", "append"}).Draw(t, "after")
		b.Fill = rapid.SliceOfN(keyGen, 1, 4).Draw(t, "fill")
		c.Builds = append(c.Builds, b)
	}
	return c
}

// spread3 has a fixed number of parameters; the variadic slice the library
// sees is made by the compiler.
func spread3(deny bool, a, b, c attribute.Key) attribute.Filter {
	if deny {
		return attribute.NewDenyKeysFilter(a, b, c)
	}
	return attribute.NewAllowKeysFilter(a, b, c)
}

func runKeyFilters(c KFCase) ([]vk.Violation, vk.Info) {
	var vs []vk.Violation
	var info vk.Info
	bad := func(kind, format string, a ...any) {
		if len(vs) < 24 {
			vs = append(vs, vk.V(kind, format, a...))
		}
	}
	input := vk.ToAttrs(c.KVs)
	m := newModel(c.KVs)
	s := attribute.NewSet(append([]attribute.KeyValue{}, input...)...)
	if !sameStrings(renderSlice(s.ToSlice()), m.render()) {
		bad("toslice_model", "ToSlice() = %v, supplied %v", renderSlice(s.ToSlice()), m.render())
		return vs, info
	}

	longest := 0
	for _, b := range c.Builds {
		if len(b.Keys) > longest {
			longest = len(b.Keys)
		}
	}
	scratch := make([]attribute.Key, 0, longest+c.Spare)

	type built struct {
		f     attribute.Filter
		given map[string]bool // the keys provided at construction
		deny  bool
		desc  string
		lent  []attribute.Key // the slice that was spread into the constructor
	}
	var fs []built
	for i, b := range c.Builds {
		var lent []attribute.Key
		switch b.Lend {
		case "spare":
			lent = make([]attribute.Key, 0, len(b.Keys)+1+c.Spare)
		case "scratch":
			lent = scratch[:0]
		default:
			lent = make([]attribute.Key, 0, len(b.Keys))
		}
		for _, k := range b.Keys {
			lent = append(lent, attribute.Key(k)) // never grows: capacities are >= len(b.Keys)
		}
		var f attribute.Filter
		switch {
		case b.Lend == "args" && len(b.Keys) == 3:
			f = spread3(b.Deny, lent[0], lent[1], lent[2])
		case b.Deny:
			f = attribute.NewDenyKeysFilter(lent...)
		default:
			f = attribute.NewAllowKeysFilter(lent...)
		}
		given := map[string]bool{}
		for _, k := range b.Keys {
			given[k] = true
		}
		ctor := "NewAllowKeysFilter"
		if b.Deny {
			ctor = "NewDenyKeysFilter"
		}
		fs = append(fs, built{f: f, given: given, deny: b.Deny, lent: lent,
			desc: fmt.Sprintf("filter %d = %s(%q...) [lent: %s, afterwards: %s]", i, ctor, b.Keys, b.Lend, b.After)})

		// the caller goes on using ITS slice
		switch b.After {
		case "overwrite":
			full := lent[:cap(lent)]
			for j := range full {
				full[j] = attribute.Key(b.Fill[j%len(b.Fill)])
			}
		case "clear":
			full := lent[:cap(lent)]
			for j := range full {
				full[j] = ""
			}
		case "rotate":
			if len(lent) > 1 {
				first := lent[0]
				copy(lent, lent[1:])
				lent[len(lent)-1] = first
				lent[0] = attribute.Key(b.Fill[0])
			}
		case "append":
			for _, k := range b.Fill {
				lent = append(lent, attribute.Key(k)) // may or may not stay in the same array
			}
		}
	}

	// which filters had their lent slice changed under them, and would the
	// changed content split this set differently?
	anyChanged, anyMatters, shared := false, false, 0
	for i, b := range fs {
		now := map[string]bool{}
		for _, k := range b.lent {
			now[string(k)] = true
		}
		changed := len(now) != len(b.given)
		for k := range b.given {
			if !now[k] {
				changed = true
			}
		}
		if c.Builds[i].Lend == "scratch" {
			shared++
		}
		if changed {
			anyChanged = true
			for _, k := range m.keys {
				if now[k] != b.given[k] {
					anyMatters = true
				}
			}
		}
	}

	use := func(b built, pass string) {
		keep := func(kv vk.KV) bool { return b.given[string(kv.K)] != b.deny }
		mk, md := m.filtered(keep)
		wantKept, wantDropped := mk.render(), sorted(md.render())
		ks, dropped := s.Filter(b.f)
		if !sameStrings(renderSlice(ks.ToSlice()), wantKept) {
			bad("keyfilter_kept", "%s (%s): Set.Filter kept %v, the keys given at construction keep %v", b.desc, pass, renderSlice(ks.ToSlice()), wantKept)
		}
		if dr := sorted(renderSlice(dropped)); !sameStrings(dr, wantDropped) {
			bad("keyfilter_dropped", "%s (%s): Set.Filter dropped %v, the keys given at construction drop %v", b.desc, pass, dr, wantDropped)
		}
		work := append([]attribute.KeyValue{}, input...)
		ns, nd := attribute.NewSetWithFiltered(work, b.f)
		if !sameStrings(renderSlice(ns.ToSlice()), wantKept) {
			bad("keyfilter_newset_kept", "%s (%s): NewSetWithFiltered kept %v, the keys given at construction keep %v", b.desc, pass, renderSlice(ns.ToSlice()), wantKept)
		}
		// dropped of NewSetWithFiltered: de-duplicated survivors that the filter rejects
		if dr := sorted(renderSlice(nd)); !sameStrings(dr, wantDropped) {
			bad("keyfilter_newset_dropped", "%s (%s): NewSetWithFiltered dropped %v, the keys given at construction drop %v", b.desc, pass, dr, wantDropped)
		}
		if !sameStrings(renderSlice(s.ToSlice()), m.render()) {
			bad("filter_mutates_receiver", "%s (%s): the filtered set now holds %v, supplied %v", b.desc, pass, renderSlice(s.ToSlice()), m.render())
		}
	}
	for _, b := range fs {
		use(b, "first use, after all filters were built")
	}
	for i := len(fs) - 1; i >= 0; i-- {
		use(fs[i], "second use")
	}

	small, big := false, false
	for _, b := range c.Builds {
		small = small || (len(b.Keys) >= 1 && len(b.Keys) <= 8)
		big = big || len(b.Keys) > 8
	}
	info.NonTrivial = anyChanged && anyMatters
	info.ClassIf(anyChanged, "lent_keys_changed_after_construction")
	info.ClassIf(anyMatters, "changed_keys_would_split_differently")
	info.ClassIf(shared >= 2, "two_filters_from_one_scratch_buffer")
	info.ClassIf(small, "filter_with_1..8_keys")
	info.ClassIf(big, "filter_with_9+_keys")
	for _, b := range c.Builds {
		info.ClassIf(len(b.Keys) == 0, "filter_with_no_keys")
		info.ClassIf(b.Lend == "args" && len(b.Keys) == 3, "keys_as_individual_arguments")
	}
	return vs, info
}

func TestKeyFilters(t *testing.T) {
	vk.Run(t, vk.Spec[KFCase]{
		Property: "C05", Check: "key_filters",
		Rule: "one kv list (0..20) and 1..4 library key filters (NewAllowKeysFilter / NewDenyKeysFilter with 0..20 keys, duplicates and the empty key included) built from slices the caller lends (exactly sized, with spare capacity, one scratch buffer refilled for every filter, individual arguments) and goes on using (overwrite, clear, rotate, append); afterwards every filter is used twice (Set.Filter, NewSetWithFiltered) and must split by the keys given at its construction; " +
			"non-trivial = the slice lent to some filter holds other keys at the time of use and those keys would split this set differently; distinct = distinct case encodings",
		Quick: 6000, Thorough: 90000,
		Gen: genKeyFilters, Run: runKeyFilters,
	})
}
