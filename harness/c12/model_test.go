package c12

import (
	"fmt"
	"math"
	"sort"
	"strconv"
	"strings"

	"go.opentelemetry.io/otel/verif/internal/vk"
)

// ---------------------------------------------------------------------
// attribute-set keys (canonical rendering, independent of attribute.Set)

func renderKVs(kvs []vk.KV) string {
	parts := make([]string, 0, len(kvs))
	for _, kv := range kvs {
		parts = append(parts, fmt.Sprintf("%q=%s", string(kv.K), vk.ValueKey(kv.ToAttr().Value)))
	}
	sort.Strings(parts) // keys are distinct inside a set, so this orders by key
	return "{" + strings.Join(parts, ",") + "}"
}

var overflowKey = renderKVs([]vk.KV{{K: overflowAttr, T: "bool", B: true}})

// ---------------------------------------------------------------------
// effective aggregation of a result stream

const (
	aSum = iota
	aLast
	aHist
	aExpo
	aDrop
)

var aggNames = []string{"sum", "gauge", "histogram", "exponential_histogram", "drop"}

type effAgg struct {
	kind   int
	bounds int // aHist: index into boundsTable, -1 = the default boundaries
}

// effective resolves a stream's aggregation as documented: the view's
// aggregation if the view names one, where AggregationDefault{} "ensures the
// default is used" (DefaultAggregationSelector(kind), whatever the reader
// selects); otherwise what the reader's aggregation selector returns for the
// kind (nil / AggregationDefault{} = the default); otherwise the default.
func effective(viewAgg, bounds, instKind, readerAgg int) effAgg {
	switch viewAgg {
	case vaDrop:
		return effAgg{aDrop, 0}
	case vaSum:
		return effAgg{aSum, 0}
	case vaLast:
		return effAgg{aLast, 0}
	case vaHist:
		return effAgg{aHist, bounds}
	case vaExpo:
		return effAgg{aExpo, 0}
	}
	if viewAgg == vaNone {
		switch readerAgg {
		case raDrop:
			return effAgg{aDrop, 0}
		case raExpo:
			return effAgg{aExpo, 0}
		case raHist2:
			return effAgg{aHist, 2}
		case raHist3:
			return effAgg{aHist, 3}
		case raSum:
			return effAgg{aSum, 0}
		case raLast:
			return effAgg{aLast, 0}
		}
	}
	switch {
	case gaugeKind(instKind):
		return effAgg{aLast, 0}
	case instKind == kHist:
		return effAgg{aHist, -1}
	}
	return effAgg{aSum, 0}
}

// deltaFor is the temporality a reader of the given mode selects for a kind.
func deltaFor(mode, kind int) bool {
	switch mode {
	case 0:
		return true
	case 1:
		return false
	}
	// mixed: the "delta preference" shape
	switch kind {
	case kCounter, kHist, kOCounter, kGauge:
		return true
	}
	return false
}

// ---------------------------------------------------------------------
// result streams

type mpoint struct {
	fold
}

type mstream struct {
	id       string // identity: lower-case name | unit | kind | number
	matchKey string // what identifies the stream in a collected ResourceMetrics
	name     string
	unit     string
	kind     int
	float    bool
	agg      effAgg
	f        fspec
	fsig     string
	delta    bool
	limit    int
	sources  []int

	view int // index of the view that created the stream, -1 = implicit default
	// the reader selects a non-default aggregation for the kind and ...
	explicitDefault bool // ... the view overrides it with AggregationDefault{}
	readerChosen    bool // ... the stream takes it (view without aggregation / no view)
	scopeEver       bool // at least one measurement reached the stream
	undetermined    bool
	blame           int // view to remove to make the stream determined

	// state of the current lifetime
	identified []string // sets that kept their identity, in arrival order
	identSet   map[string]bool
	pts        map[string]*mpoint
	reported   map[string]float64 // precomputed sum, delta: what the previous collection reported

	// scope totals, accumulated without looking at attributes at all
	scopeSum   float64
	scopeCount uint64

	fcache map[int]string

	classes []string // labels collected while comparing

	// value-dependent filter: keys for which the filter kept / dropped a value
	vfKept, vfDropped map[string]bool

	// bookkeeping for classes
	rawPerKey     map[string]map[int]bool
	sawOverflow   bool
	sawMerge      bool
	explicitOvf   bool
	ovfSlot       bool
	filteredToOvf bool
	everOverflown map[string]bool
	everIdent     map[string]bool
	flipped       bool
}

// precomputed: observable instruments report totals / current values, and
// "only observations made in the callback will be exported" (RegisterCallback
// doc): the table of such a stream lives for exactly one collection.
func (s *mstream) precomputed() bool {
	return observable(s.kind) && (s.agg.kind == aSum || s.agg.kind == aLast)
}

// persistent: the set table survives a collection (cumulative temporality of
// an accumulating aggregation).
func (s *mstream) persistent() bool { return !s.delta && !s.precomputed() }

// noSum: histograms of instruments that may record negative values carry no sum.
func (s *mstream) noSum() bool {
	switch s.kind {
	case kUpDown, kOUpDown, kGauge, kOGauge:
		return true
	}
	return false
}

func (s *mstream) monotonic() bool {
	return s.kind == kCounter || s.kind == kHist || s.kind == kOCounter
}

func mkMatchKey(name, unit string, agg int, float, mono bool) string {
	k := strings.ToLower(name) + "|" + unit + "|" + aggNames[agg] + "|"
	if float {
		k += "float64"
	} else {
		k += "int64"
	}
	if agg == aSum && mono {
		k += "|monotonic"
	}
	return k
}

// fspec is a view's attribute filter as data; keepPair is the filter itself:
// a pure function of one (key, value) pair. The SDK gets it wrapped as an
// attribute.Filter, the model applies it to every key-value of a set.
type fspec struct {
	mode  int
	keys  map[string]bool
	pairs map[string]bool // rendered key=value pairs of FKV
	pkeys map[string]bool // keys mentioned in FKV
	ftype string
	sig   string
}

func pairKey(key, valueKey string) string { return fmt.Sprintf("%q=%s", key, valueKey) }

func (v View) fspec() fspec {
	f := fspec{mode: v.Filter, keys: map[string]bool{}, pairs: map[string]bool{}, pkeys: map[string]bool{}, ftype: v.FType}
	for _, k := range v.Keys {
		f.keys[k] = true
	}
	var ps []string
	for _, kv := range v.FKV {
		pk := pairKey(string(kv.K), vk.ValueKey(kv.ToAttr().Value))
		f.pairs[pk] = true
		f.pkeys[string(kv.K)] = true
		ps = append(ps, pk)
	}
	sort.Strings(ps)
	if v.Filter == 0 {
		f.sig = "none"
	} else {
		ks := append([]string{}, v.Keys...)
		sort.Strings(ks)
		f.sig = strconv.Itoa(v.Filter) + ":" + strings.Join(ks, ",")
		if len(ps) > 0 || v.FType != "" {
			f.sig += "|" + strings.Join(ps, ";") + "|" + v.FType
		}
	}
	return f
}

func (f fspec) valueDependent() bool { return f.mode >= 3 }

// keepPair decides on one key-value; valueKey is vk.ValueKey (type:payload).
func (f fspec) keepPair(key, valueKey string) bool {
	switch f.mode {
	case 1:
		return f.keys[key]
	case 2:
		return !f.keys[key]
	case 3:
		if f.pkeys[key] {
			return f.pairs[pairKey(key, valueKey)]
		}
		return !f.keys[key]
	case 4:
		return !f.pairs[pairKey(key, valueKey)] && !f.keys[key]
	case 5:
		if f.keys[key] {
			return strings.HasPrefix(valueKey, f.ftype+":")
		}
		return true
	}
	return true
}

type readerModel struct {
	mode    int
	streams []*mstream
	byID    map[string]*mstream
	feeds   [][]*mstream // per instrument
	// names a drop aggregation removed (lower-case name -> true)
	dropped map[string]bool
}

// resolveAll computes, per reader, which result streams the views produce
// for the instruments and which instruments feed them.
//
// A result stream is identified by (case-insensitive name, description, unit,
// instrument kind, number type). Several (view, instrument) pairs resolving
// to one identity with the same aggregation and attribute filter are one
// stream (counted once, measurements added together). Pairs resolving to one
// identity with DIFFERENT aggregation or filter are a conflicting duplicate
// the statement does not determine: the stream is marked undetermined and
// nothing is asserted about it; the same holds for two different identities
// that would be indistinguishable in the output (same name, unit, data type,
// number type, monotonicity). The generator removes such views.
func resolveAll(c Case, limit int) []*readerModel {
	out := make([]*readerModel, len(c.Readers))
	for r, mode := range c.Readers {
		rm := &readerModel{mode: mode, byID: map[string]*mstream{}, dropped: map[string]bool{}}
		rm.feeds = make([][]*mstream, len(c.Insts))
		add := func(i int, in Inst, vi int, name, unit string, agg effAgg, f fspec) {
			num := "int64"
			if in.Float {
				num = "float64"
			}
			id := strings.ToLower(name) + "|" + unit + "|" + kindNames[in.Kind] + "|" + num
			fs := f.sig
			if agg.kind == aDrop {
				fs = "-"
			}
			if ex := rm.byID[id]; ex != nil {
				if ex.agg != agg || ex.fsig != fs {
					ex.undetermined = true
					b := vi
					if b < 0 {
						b = ex.view
					}
					if b > ex.blame {
						ex.blame = b
					}
					return
				}
				if agg.kind == aDrop {
					return
				}
				for _, f := range rm.feeds[i] {
					if f == ex {
						return // identical result stream of a second matching view: counted once
					}
				}
				ex.sources = append(ex.sources, i)
				rm.feeds[i] = append(rm.feeds[i], ex)
				return
			}
			s := &mstream{id: id, name: name, unit: unit, kind: in.Kind, float: in.Float, agg: agg,
				f: f, fsig: fs, limit: limit, view: vi, blame: -1,
				delta: deltaFor(mode, in.Kind), pts: map[string]*mpoint{}, fcache: map[int]string{}, vfKept: map[string]bool{}, vfDropped: map[string]bool{},
				rawPerKey: map[string]map[int]bool{}, everOverflown: map[string]bool{}, everIdent: map[string]bool{}}
			rm.byID[id] = s
			rm.streams = append(rm.streams, s)
			if agg.kind == aDrop {
				rm.dropped[strings.ToLower(name)] = true
				return
			}
			s.matchKey = mkMatchKey(name, unit, agg.kind, in.Float, s.monotonic())
			s.sources = []int{i}
			rm.feeds[i] = append(rm.feeds[i], s)
		}
		for i, in := range c.Insts {
			matched := false
			for vi, v := range c.Views {
				if !v.matches(i, in) {
					continue
				}
				matched = true
				if v.Incompat && !aggCompatible(v.Agg, in.Kind) {
					continue // rejected pair: no stream, the other matching views are unaffected
				}
				name, unit := v.Rename, v.Unit
				if name == "" {
					name = instName(i)
				}
				if unit == "" {
					unit = in.Unit
				}
				ra := c.selectorOf(r, in.Kind)
				before := len(rm.streams)
				add(i, in, vi, name, unit, effective(v.Agg, v.Bounds, in.Kind, ra), v.fspec())
				if len(rm.streams) > before && !readerAggIsDefault(ra, in.Kind) {
					ns := rm.streams[len(rm.streams)-1]
					ns.explicitDefault = v.Agg == vaDefault
					ns.readerChosen = v.Agg == vaNone
				}
			}
			if !matched {
				ra := c.selectorOf(r, in.Kind)
				before := len(rm.streams)
				add(i, in, -1, instName(i), in.Unit, effective(vaNone, 0, in.Kind, ra), View{}.fspec())
				if len(rm.streams) > before && !readerAggIsDefault(ra, in.Kind) {
					rm.streams[len(rm.streams)-1].readerChosen = true
				}
			}
		}
		// different identities that look the same in the output
		byMatch := map[string]*mstream{}
		for _, s := range rm.streams {
			if s.agg.kind == aDrop {
				continue
			}
			if ex := byMatch[s.matchKey]; ex != nil {
				ex.undetermined, s.undetermined = true, true
				b := s.view
				if b < 0 {
					b = ex.view
				}
				if b > s.blame {
					s.blame = b
				}
				continue
			}
			byMatch[s.matchKey] = s
		}
		out[r] = rm
	}
	return out
}

// ---------------------------------------------------------------------
// the rule of the statement

func (s *mstream) filteredKey(setIdx int, set []vk.KV) string {
	if k, ok := s.fcache[setIdx]; ok {
		return k
	}
	var kept []vk.KV
	for _, kv := range set {
		if s.f.keepPair(string(kv.K), vk.ValueKey(kv.ToAttr().Value)) {
			kept = append(kept, kv)
		} else if s.f.valueDependent() {
			s.vfDropped[string(kv.K)] = true
		}
		if s.f.valueDependent() && s.f.keepPair(string(kv.K), vk.ValueKey(kv.ToAttr().Value)) {
			s.vfKept[string(kv.K)] = true
		}
	}
	k := renderKVs(kept)
	s.fcache[setIdx] = k
	return k
}

// measure applies one measurement: the filtered set keeps its identity when
// it is one of the first L-1 distinct sets of the current lifetime, otherwise
// the measurement is aggregated under the overflow set.
func (s *mstream) measure(setIdx int, set []vk.KV, rawKey string, v float64) {
	if nonFiniteValue(v) {
		if s.agg.kind == aExpo {
			// pinned behaviour: the base-2 exponential aggregation ignores
			// non-finite values by design (before looking at the attributes):
			// no data point, no identity slot, not counted
			s.classes = append(s.classes, "non_finite_ignored_by_exponential_histogram(pinned)")
			return
		}
		s.classes = append(s.classes, "non_finite_measurement/"+aggNames[s.agg.kind])
	}
	fk := s.filteredKey(setIdx, set)
	if rawKey == overflowKey {
		s.explicitOvf = true
	} else if fk == overflowKey {
		s.filteredToOvf = true
	}
	if s.rawPerKey[fk] == nil {
		s.rawPerKey[fk] = map[int]bool{}
	}
	s.rawPerKey[fk][setIdx] = true
	if len(s.rawPerKey[fk]) >= 2 {
		s.sawMerge = true
	}

	key := fk
	if s.limit > 0 {
		known := s.identSet[fk]
		switch {
		case known:
		case len(s.identified) < s.limit-1:
			s.identified = append(s.identified, fk)
			if s.identSet == nil {
				s.identSet = map[string]bool{}
			}
			s.identSet[fk] = true
			if fk == overflowKey {
				s.ovfSlot = true
			}
		default:
			key = overflowKey
			if fk != overflowKey {
				s.sawOverflow = true
				s.everOverflown[fk] = true
				if s.everIdent[fk] {
					s.flipped = true
				}
			}
		}
		if key == fk && fk != overflowKey {
			s.everIdent[fk] = true
			if s.everOverflown[fk] {
				s.flipped = true
			}
		}
	}
	p := s.pts[key]
	if p == nil {
		p = &mpoint{}
		s.pts[key] = p
		if nonFiniteValue(v) && key != overflowKey {
			s.classes = append(s.classes, "set_whose_first_measurement_is_non_finite_takes_identity")
		}
	}
	if nonFiniteValue(v) && key == overflowKey && fk != overflowKey {
		s.classes = append(s.classes, "non_finite_measurement_folded_into_overflow")
	}
	p.add(v)
	s.scopeSum += v
	s.scopeCount++
	s.scopeEver = true
}

type expPoint struct {
	val   float64 // sum value / gauge value
	count uint64  // histograms
	sum   float64 // histograms
	f     *fold   // everything folded into the point (read right after collect)
}

// collect returns what one collection must report and moves the stream to
// its next lifetime.
func (s *mstream) collect() (exp map[string]expPoint, scopeSum float64, scopeCount uint64) {
	exp = map[string]expPoint{}
	for k, p := range s.pts {
		e := expPoint{count: p.count, sum: p.sum, f: &p.fold}
		switch s.agg.kind {
		case aSum:
			e.val = p.sum
			if s.precomputed() && s.delta {
				e.val = p.sum - s.reported[k]
			}
		case aLast:
			e.val = p.last
		}
		exp[k] = e
	}
	scopeSum, scopeCount = s.scopeSum, s.scopeCount
	if s.precomputed() && s.delta && s.agg.kind == aSum {
		s.reported = map[string]float64{}
		for k, p := range s.pts {
			s.reported[k] = p.sum
		}
	}
	if !s.persistent() {
		s.pts = map[string]*mpoint{}
		s.identified, s.identSet = nil, nil
		s.scopeSum, s.scopeCount = 0, 0
	}
	return exp, scopeSum, scopeCount
}

func opValue(op Op, float bool) float64 {
	if float {
		switch op.NF {
		case 1:
			return math.Inf(1)
		case 2:
			return math.NaN()
		case 3:
			return math.Inf(-1)
		}
		return math.Ldexp(float64(op.K), op.E)
	}
	return float64(op.K)
}

// parseLimit is the documented reading of OTEL_GO_X_CARDINALITY_LIMIT
// (sdk/metric/internal/x: "set the variable to the integer limit value";
// README: "The value must be an integer value. All other values are ignored.
// If the value set is less than or equal to 0, no limit will be applied"):
// an optional sign followed by decimal digits is that integer, whatever the
// number of leading zeros; everything else (and unset / empty) is ignored.
// Written out by hand, not with strconv, so that the reference does not share
// the implementation's parser. Values beyond the int range saturate: such a
// limit can never be reached by a generated history, which is also what
// "ignored" looks like.
func parseLimit(env string) int {
	s := env
	neg := false
	if s != "" && (s[0] == '+' || s[0] == '-') {
		neg = s[0] == '-'
		s = s[1:]
	}
	if s == "" {
		return 0
	}
	const huge = 1 << 40
	n := 0
	for i := 0; i < len(s); i++ {
		if s[i] < '0' || s[i] > '9' {
			return 0 // not an integer: ignored
		}
		if n < huge {
			n = n*10 + int(s[i]-'0')
		}
	}
	if neg || n <= 0 {
		return 0 // documented: <= 0 disables the limit
	}
	return n
}

// envSpelling classifies how the limit is written in the environment.
func envSpelling(env string) string {
	if env == "" {
		return "unset"
	}
	l := parseLimit(env)
	digits := env
	sign := ""
	if digits[0] == '+' || digits[0] == '-' {
		sign, digits = digits[:1], digits[1:]
	}
	allDigits := digits != ""
	for i := 0; i < len(digits); i++ {
		allDigits = allDigits && digits[i] >= '0' && digits[i] <= '9'
	}
	switch {
	case !allDigits:
		return "not_an_integer(ignored)"
	case l == 0:
		if env == "0" || env == "-1" {
			return "non_positive/canonical"
		}
		return "non_positive/other_spelling"
	case len(digits) > 1 && digits[0] == '0' && sign == "+":
		return "plus_sign_and_leading_zeros"
	case len(digits) > 1 && digits[0] == '0':
		return "leading_zeros"
	case sign == "+":
		return "plus_sign"
	}
	return "canonical"
}
