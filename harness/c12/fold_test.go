package c12

import (
	"fmt"
	"math"
	"sync/atomic"
)

func nonFiniteValue(v float64) bool { return math.IsNaN(v) || math.IsInf(v, 0) }

// feq is equality with IEEE semantics for results: NaN equals NaN.
func feq(a, b float64) bool { return a == b || (math.IsNaN(a) && math.IsNaN(b)) }

// fold is everything the harness knows about the measurements aggregated
// into one data point: enough to predict every field of a sum, gauge,
// explicit-bucket histogram or exponential histogram point (except the
// exponential bucket placement, which is C07's business).
type fold struct {
	sum      float64
	count    uint64
	last     float64
	lastOrd  float64 // last value that is not NaN
	min, max float64
	zero     uint64
	nan      uint64             // NaN measurements (counted, not in vals / min / max)
	nonfin   uint64             // NaN and +-Inf measurements
	vals     map[float64]uint64 // value -> how often (NaN excluded)
	up, down bool               // the sequence went up / down at least once
}

func (f *fold) add(v float64) {
	if f.vals == nil {
		f.vals = map[float64]uint64{}
	}
	if nonFiniteValue(v) {
		f.nonfin++
	}
	if math.IsNaN(v) {
		// sums follow IEEE (NaN from here on); min / max / buckets of a point
		// that folded a NaN are not predicted
		f.nan++
		f.sum += v
		f.count++
		f.last = v
		return
	}
	if len(f.vals) == 0 {
		f.min, f.max = v, v
	} else {
		if v > f.lastOrd {
			f.up = true
		}
		if v < f.lastOrd {
			f.down = true
		}
	}
	f.lastOrd = v
	if v < f.min {
		f.min = v
	}
	if v > f.max {
		f.max = v
	}
	if v == 0 {
		f.zero++
	}
	f.vals[v]++
	f.sum += v
	f.count++
	f.last = v
}

// merge adds what another goroutine folded (order between the two unknown).
func (f *fold) merge(o *fold) {
	if o.count == 0 {
		return
	}
	if f.vals == nil {
		f.vals = map[float64]uint64{}
	}
	if len(o.vals) > 0 {
		if len(f.vals) == 0 {
			f.min, f.max = o.min, o.max
		}
		if o.min < f.min {
			f.min = o.min
		}
		if o.max > f.max {
			f.max = o.max
		}
	}
	for v, n := range o.vals {
		f.vals[v] += n
	}
	f.zero += o.zero
	f.nan += o.nan
	f.nonfin += o.nonfin
	f.sum += o.sum
	f.count += o.count
	f.up, f.down = true, true // interleaving unknown
}

// defaultBounds are the default explicit bucket boundaries of the OTel
// specification (and of DefaultAggregationSelector's documentation).
var defaultBounds = []float64{0, 5, 10, 25, 50, 75, 100, 250, 500, 750, 1000, 2500, 5000, 7500, 10000}

func configuredBounds(a effAgg) []float64 {
	if a.bounds < 0 {
		return defaultBounds
	}
	return boundsTable[a.bounds]
}

// bucketOf: buckets are exclusive of their lower and inclusive of their upper
// boundary (documented on AggregationExplicitBucketHistogram).
func bucketOf(bounds []float64, v float64) int {
	for i, b := range bounds {
		if v <= b {
			return i
		}
	}
	return len(bounds)
}

// statistics reported through t.Logf at the end of a sub-check (they never
// influence what is generated or asserted).
var (
	statMinMaxCompared    atomic.Int64 // histogram points whose min/max were compared
	statBucketsCompared   atomic.Int64 // explicit histogram points whose buckets were compared
	statOvfHistMixed      atomic.Int64 // overflow histogram points folding >= 2 different values
	statOvfHistNonMono    atomic.Int64 // ... whose folded sequence went both up and down
	statIdentHistMixed    atomic.Int64 // identified histogram points folding >= 2 different values
	statExpoFieldsCompare atomic.Int64 // exponential points whose count/sum/min/max/zero were compared
)

var statPrev [6]int64

// statLine reports the counters accumulated since the previous call (one
// call per sub-check).
func statLine() string {
	cur := [6]int64{statMinMaxCompared.Load(), statBucketsCompared.Load(), statExpoFieldsCompare.Load(), statOvfHistMixed.Load(), statOvfHistNonMono.Load(), statIdentHistMixed.Load()}
	var d [6]int64
	for i := range cur {
		d[i] = cur[i] - statPrev[i]
	}
	statPrev = cur
	return fmt.Sprintf("c12 statistics: histogram points with min/max compared=%d, explicit points with buckets compared=%d, exponential points compared=%d, overflow histogram points folding >=2 different values=%d (non-monotone order=%d), identified histogram points folding >=2 different values=%d",
		d[0], d[1], d[2], d[3], d[4], d[5])
}

// checkHistPoint compares every reported field of one histogram point
// (explicit or exponential) with the measurements folded into it; it returns
// one description per differing field.
func checkHistPoint(agg effAgg, noSum bool, g gotPoint, f *fold, overflow bool) (diffs []string, classes []string) {
	if g.count != f.count {
		diffs = append(diffs, fmt.Sprintf("Count %d, folded %d", g.count, f.count))
	}
	if !noSum && !feq(g.sum, f.sum) {
		diffs = append(diffs, fmt.Sprintf("Sum %v, folded %v", g.sum, f.sum))
	}
	// NoMinMax is never configured by this harness: min and max are recorded
	if !g.hasMin || !g.hasMax {
		diffs = append(diffs, fmt.Sprintf("Min defined=%v Max defined=%v, both are recorded by default", g.hasMin, g.hasMax))
	} else if f.nan == 0 {
		statMinMaxCompared.Add(1)
		classes = append(classes, "histogram_point_min_max_compared")
		if g.min != f.min {
			diffs = append(diffs, fmt.Sprintf("Min %v, smallest folded value %v", g.min, f.min))
		}
		if g.max != f.max {
			diffs = append(diffs, fmt.Sprintf("Max %v, largest folded value %v", g.max, f.max))
		}
	}
	if agg.kind == aExpo {
		statExpoFieldsCompare.Add(1)
		if g.zero != f.zero {
			diffs = append(diffs, fmt.Sprintf("ZeroCount %d, folded zeros %d", g.zero, f.zero))
		}
	} else {
		want := configuredBounds(agg)
		same := len(want) == len(g.bounds)
		for i := 0; same && i < len(want); i++ {
			same = want[i] == g.bounds[i]
		}
		if !same {
			diffs = append(diffs, fmt.Sprintf("Bounds %v, configured %v", g.bounds, want))
		} else if len(g.buckets) != len(want)+1 {
			diffs = append(diffs, fmt.Sprintf("%d bucket counts for %d bounds", len(g.buckets), len(want)))
		} else {
			statBucketsCompared.Add(1)
			exp := make([]uint64, len(want)+1)
			for v, n := range f.vals {
				exp[bucketOf(want, v)] += n
			}
			var total uint64
			for i := range exp {
				total += g.buckets[i]
				// a NaN has no place among the boundaries: where it is counted
				// is not predicted, that it is counted in exactly one bucket is
				if exp[i] != g.buckets[i] && (f.nan == 0 || g.buckets[i] < exp[i]) {
					diffs = append(diffs, fmt.Sprintf("BucketCounts %v, folded values give %v plus %d NaN (bounds %v)", g.buckets, exp, f.nan, want))
					break
				}
			}
			if total != f.count {
				diffs = append(diffs, fmt.Sprintf("BucketCounts %v add up to %d, %d measurements were folded", g.buckets, total, f.count))
			}
			if f.nonfin > 0 {
				classes = append(classes, "explicit_histogram_point_counts_non_finite_values")
			}
		}
	}
	if len(f.vals) >= 2 {
		if overflow {
			statOvfHistMixed.Add(1)
			classes = append(classes, "overflow_histogram_point_folds_>=2_different_values")
			if f.up && f.down {
				statOvfHistNonMono.Add(1)
				classes = append(classes, "overflow_histogram_point_folds_non_monotone_values")
			}
		} else {
			statIdentHistMixed.Add(1)
			classes = append(classes, "identified_histogram_point_folds_>=2_different_values")
		}
	}
	return diffs, classes
}
