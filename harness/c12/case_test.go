package c12

import (
	"fmt"
	"sort"
	"strconv"
	"strings"

	"go.opentelemetry.io/otel/verif/internal/vk"
	"pgregory.net/rapid"
)

// ---------------------------------------------------------------------
// the case (plain data)

// instrument kinds (the harness' own numbering, mapped to the SDK in sdk_test.go).
const (
	kCounter = iota
	kUpDown
	kHist
	kGauge
	kOCounter
	kOUpDown
	kOGauge
	nKinds
)

var kindNames = []string{"counter", "updown", "histogram", "gauge", "obs_counter", "obs_updown", "obs_gauge"}

func observable(kind int) bool { return kind >= kOCounter }
func gaugeKind(kind int) bool  { return kind == kGauge || kind == kOGauge }

// nonNegative: the API forbids negative measurements on these kinds.
func nonNegative(kind int) bool { return kind == kCounter || kind == kHist || kind == kOCounter }

// view aggregation selectors (View.Agg).
const (
	vaNone    = iota // mask leaves Aggregation nil: the reader default applies
	vaDrop           // AggregationDrop{}
	vaSum            // AggregationSum{}
	vaLast           // AggregationLastValue{}
	vaHist           // AggregationExplicitBucketHistogram{Boundaries: boundsTable[Bounds]}
	vaExpo           // AggregationBase2ExponentialHistogram{MaxSize: 160, MaxScale: 20}
	vaDefault        // AggregationDefault{}
	nViewAggs
)

// reader aggregation selector choices (Case.Selectors[reader][kind]).
const (
	raDefault    = iota // DefaultAggregationSelector(kind)
	raNil               // nil (documented: the default is used)
	raAggDefault        // AggregationDefault{} (documented: the default is used)
	raDrop              // AggregationDrop{}
	raExpo              // AggregationBase2ExponentialHistogram{MaxSize: 160, MaxScale: 20}
	raHist2             // AggregationExplicitBucketHistogram{Boundaries: boundsTable[2]}
	raHist3             // AggregationExplicitBucketHistogram{Boundaries: boundsTable[3]}
	raSum               // AggregationSum{} (not for gauges)
	raLast              // AggregationLastValue{} (gauges only)
	nReaderAggs
)

// readerAggCompatible: the same documented compatibility table as for views.
func readerAggCompatible(ra, kind int) bool {
	switch ra {
	case raSum:
		return !gaugeKind(kind)
	case raLast:
		return gaugeKind(kind)
	}
	return true
}

func readerAggIsDefault(ra, kind int) bool {
	switch ra {
	case raDefault, raNil, raAggDefault:
		return true
	case raSum:
		return !gaugeKind(kind) && kind != kHist
	case raLast:
		return gaugeKind(kind)
	}
	return false
}

// selectorOf returns reader r's choice for a kind (raDefault without selector).
func (c Case) selectorOf(r, kind int) int {
	if r < len(c.Selectors) && len(c.Selectors[r]) == nKinds {
		return c.Selectors[r][kind]
	}
	return raDefault
}

var boundsTable = [][]float64{
	{},
	{0},
	{1, 2, 4},
	{-4, -1, 0, 1, 4, 16},
}

// name criterion of a view (View.NameMode).
const (
	nmNone    = iota // no name criterion
	nmExact          // Instrument{Name: "inst<Target>"}
	nmPattern        // Instrument{Name: <Pattern>}, a wildcard pattern with * and ?
	nNameModes
)

// Inst is one instrument, named "inst<index>", description "".
type Inst struct {
	Kind  int    `json:"kind"`
	Float bool   `json:"float"`
	Unit  string `json:"unit"` // "" or "By"
	// Again (synchronous instruments only): the program asks the meter for the
	// same instrument a second time and makes the measurements whose Op.H is set
	// through that second handle: 1 the identical request, 2 the name in upper
	// case (names are case-insensitive: same instrument; only when no view
	// selects by a lower-case name). Both handles are ONE instrument: one
	// stream, one set table, every measurement counted once.
	Again int `json:"again,omitempty"`
}

// View is one sdkmetric.NewView(criteria, mask). All given criteria must
// hold; a view without any criterion matches nothing (documented).
type View struct {
	NameMode int    `json:"name_mode"`
	Target   int    `json:"target"`  // nmExact: instrument index
	Pattern  string `json:"pattern"` // nmPattern
	ByKind   bool   `json:"by_kind"` // criteria.Kind = Kind
	Kind     int    `json:"kind"`
	ByUnit   bool   `json:"by_unit"` // criteria.Unit = "By"
	Rename   string `json:"rename"`  // mask.Name, "" = keep the instrument's name
	Unit     string `json:"unit"`    // mask.Unit, "" = keep the instrument's unit
	Agg      int    `json:"agg"`
	Bounds   int    `json:"bounds"` // vaHist: index into boundsTable
	// Filter: 0 none, 1 allow Keys, 2 deny Keys; value-dependent filters
	// (hand-written attribute.Filter functions deciding on key AND value):
	// 3 a key mentioned in FKV is kept only with one of the listed values,
	//   other keys are kept unless in Keys;
	// 4 everything is kept except the (key, value) pairs of FKV and the Keys;
	// 5 a key in Keys is kept only when its value has type FType, other keys are kept.
	Filter int      `json:"filter"`
	Keys   []string `json:"keys"`
	FKV    []vk.KV  `json:"fkv,omitempty"`
	FType  string   `json:"ftype,omitempty"` // BOOL, INT64, STRING
	// Incompat: Agg is deliberately INCOMPATIBLE with the (synchronous)
	// instruments this view matches (last-value for a non-gauge, sum for a
	// gauge). The SDK rejects exactly that (view, instrument) pair and reports
	// an error at instrument creation; the instrument's other matching views
	// must still receive every measurement.
	Incompat bool `json:"incompat,omitempty"`
}

// Op is one measurement (synchronous) or one observation (inside a
// callback): instrument, index into the pool, value K*2^E (K alone for int64
// instruments).
type Op struct {
	Inst int   `json:"inst"`
	Set  int   `json:"set"`
	K    int64 `json:"k"`
	E    int   `json:"e"`
	// NF: a non-finite value instead of K*2^E, float64 instruments only:
	// 1 +Inf, 2 NaN, 3 -Inf (-Inf only where negative values are allowed).
	NF int `json:"nf,omitempty"`
	// H: measured through the instrument's second handle (Inst.Again != 0).
	H bool `json:"h,omitempty"`
}

// Cycle is a batch of synchronous measurements, the observations every
// callback run makes while this cycle is current, and then one Collect on
// each reader whose flag is set (in reader order).
type Cycle struct {
	Ops     []Op   `json:"ops"`
	Obs     []Op   `json:"obs"`
	Collect []bool `json:"collect"`
}

// Case is one generated input.
type Case struct {
	Env     string `json:"env"`     // value of OTEL_GO_X_CARDINALITY_LIMIT, "" = unset
	Readers []int  `json:"readers"` // temporality mode per ManualReader: 0 delta, 1 cumulative, 2 mixed
	// Selectors: per reader either empty (no WithAggregationSelector) or one
	// ra* choice per instrument kind: what the reader's aggregation selector
	// returns for that kind.
	Selectors [][]int   `json:"selectors,omitempty"`
	Insts     []Inst    `json:"insts"`
	Views     []View    `json:"views"`
	Pool      [][]vk.KV `json:"pool"` // attribute sets (distinct keys inside each)
	Cycles    []Cycle   `json:"cycles"`
	MultiCB   bool      `json:"multi_cb"` // observe through one RegisterCallback instead of per-instrument callbacks
	// Reuse[r]: reader r collects into ONE ResourceMetrics every time (the way
	// exporters and periodic readers do), so that each collection has to
	// overwrite whatever the previous one left there; otherwise every
	// collection gets a fresh ResourceMetrics, which is kept and compared at
	// the end of the case.
	Reuse []bool `json:"reuse,omitempty"`
}

func instName(i int) string { return fmt.Sprintf("inst%d", i) }

// glob is the documented wildcard rule: * matches zero or more characters,
// ? exactly one.
func glob(pat, s string) bool {
	if pat == "" {
		return s == ""
	}
	switch pat[0] {
	case '*':
		for i := 0; i <= len(s); i++ {
			if glob(pat[1:], s[i:]) {
				return true
			}
		}
		return false
	case '?':
		return s != "" && glob(pat[1:], s[1:])
	}
	return s != "" && s[0] == pat[0] && glob(pat[1:], s[1:])
}

func (v View) matches(idx int, in Inst) bool {
	if v.NameMode == nmNone && !v.ByKind && !v.ByUnit {
		return false
	}
	switch v.NameMode {
	case nmExact:
		if v.Target != idx {
			return false
		}
	case nmPattern:
		if !glob(v.Pattern, instName(idx)) {
			return false
		}
	}
	if v.ByKind && v.Kind != in.Kind {
		return false
	}
	if v.ByUnit && in.Unit != "By" {
		return false
	}
	return true
}

// aggCompatible mirrors the documented compatibility table of
// sdk/metric (pipeline.go isAggregatorCompatible): Sum is not available for
// gauges, LastValue only for gauges, everything else always.
func aggCompatible(viewAgg, kind int) bool {
	switch viewAgg {
	case vaSum:
		return !gaugeKind(kind)
	case vaLast:
		return gaugeKind(kind)
	}
	return true
}

// normalize returns a well-formed copy of c (idempotent). Generated cases are
// already normal; this only protects Run against hand-written replay files.
func normalize(c Case) Case {
	o := Case{Env: c.Env, MultiCB: c.MultiCB}
	for _, m := range c.Readers {
		if len(o.Readers) < 2 {
			o.Readers = append(o.Readers, ((m%3)+3)%3)
		}
	}
	if len(o.Readers) == 0 {
		o.Readers = []int{0}
	}
	anyReuse := false
	for r := range o.Readers {
		anyReuse = anyReuse || (r < len(c.Reuse) && c.Reuse[r])
	}
	if anyReuse {
		for r := range o.Readers {
			o.Reuse = append(o.Reuse, r < len(c.Reuse) && c.Reuse[r])
		}
	}
	anySel := false
	for r := range o.Readers {
		if r < len(c.Selectors) && len(c.Selectors[r]) > 0 {
			anySel = true
		}
	}
	if anySel {
		for r := range o.Readers {
			var sel []int
			if r < len(c.Selectors) && len(c.Selectors[r]) > 0 {
				sel = make([]int, nKinds)
				for k := range sel {
					if k < len(c.Selectors[r]) {
						sel[k] = ((c.Selectors[r][k] % nReaderAggs) + nReaderAggs) % nReaderAggs
					}
					if !readerAggCompatible(sel[k], k) {
						sel[k] = raDefault // the SDK would reject the instrument
					}
				}
			}
			o.Selectors = append(o.Selectors, sel)
		}
	}
	for _, in := range c.Insts {
		in.Kind = ((in.Kind % nKinds) + nKinds) % nKinds
		if in.Unit != "" {
			in.Unit = "By"
		}
		in.Again = ((in.Again % 3) + 3) % 3
		if observable(in.Kind) {
			in.Again = 0
		}
		if in.Again == 2 {
			for _, v := range c.Views {
				nm := ((v.NameMode % nNameModes) + nNameModes) % nNameModes
				if nm == nmExact || (nm == nmPattern && v.Pattern != "*") {
					in.Again = 1
				}
			}
		}
		o.Insts = append(o.Insts, in)
	}
	if len(o.Insts) == 0 {
		o.Insts = []Inst{{}}
	}
	if len(o.Insts) > 6 {
		o.Insts = o.Insts[:6]
	}
	for _, v := range c.Views {
		v.NameMode = ((v.NameMode % nNameModes) + nNameModes) % nNameModes
		v.Agg = ((v.Agg % nViewAggs) + nViewAggs) % nViewAggs
		v.Bounds = ((v.Bounds % len(boundsTable)) + len(boundsTable)) % len(boundsTable)
		v.Kind = ((v.Kind % nKinds) + nKinds) % nKinds
		v.Filter = ((v.Filter % 6) + 6) % 6
		if v.Filter == 3 || v.Filter == 4 {
			v.FKV = append([]vk.KV{}, v.FKV...)
			if len(v.FKV) == 0 {
				v.FKV = nil
			}
		} else {
			v.FKV = nil
		}
		if v.Filter == 5 {
			if v.FType != "BOOL" && v.FType != "STRING" {
				v.FType = "INT64"
			}
		} else {
			v.FType = ""
		}
		if v.Target < 0 || v.Target >= len(o.Insts) {
			v.Target = 0
		}
		if v.NameMode == nmPattern {
			ok := strings.ContainsAny(v.Pattern, "*?")
			for _, r := range v.Pattern {
				ok = ok && (r == '*' || r == '?' || (r >= 'a' && r <= 'z') || (r >= '0' && r <= '9'))
			}
			if !ok {
				v.Pattern = "*"
			}
			v.Rename = "" // a wildcard view with a name is rejected by NewView
		} else {
			v.Pattern = ""
		}
		if v.Unit != "" {
			v.Unit = "ms"
		}
		if strings.HasPrefix(strings.ToLower(v.Rename), "inst") {
			v.Rename = "ren0"
		}
		if v.Incompat {
			// allowed only when every instrument the view matches is synchronous
			// and incompatible with the aggregation
			anyMatch := false
			for i, in := range o.Insts {
				if v.matches(i, in) {
					anyMatch = true
					if observable(in.Kind) || aggCompatible(v.Agg, in.Kind) || (v.Agg != vaLast && v.Agg != vaSum) {
						v.Incompat = false
					}
				}
			}
			if !anyMatch {
				v.Incompat = false
			}
		}
		for i, in := range o.Insts {
			if !v.Incompat && v.matches(i, in) && !aggCompatible(v.Agg, in.Kind) {
				v.Agg = vaNone
			}
		}
		v.Keys = append([]string{}, v.Keys...)
		if v.Filter == 0 {
			v.Keys = []string{}
		}
		o.Views = append(o.Views, v)
	}
	for _, s := range c.Pool {
		seen := map[string]bool{}
		var ns []vk.KV
		for _, kv := range s {
			if !seen[string(kv.K)] {
				seen[string(kv.K)] = true
				ns = append(ns, kv)
			}
		}
		if ns == nil {
			ns = []vk.KV{}
		}
		o.Pool = append(o.Pool, ns)
	}
	if len(o.Pool) == 0 {
		o.Pool = [][]vk.KV{{}}
	}
	fixOp := func(op Op, wantObservable bool) (Op, bool) {
		if op.Inst < 0 || op.Inst >= len(o.Insts) || op.Set < 0 || op.Set >= len(o.Pool) {
			return op, false
		}
		k := o.Insts[op.Inst].Kind
		if observable(k) != wantObservable {
			return op, false
		}
		if op.K > 64 {
			op.K = 64
		}
		if op.K < -64 {
			op.K = -64
		}
		if nonNegative(k) && op.K < 0 {
			op.K = -op.K
		}
		if op.E > 4 {
			op.E = 4
		}
		if op.E < -4 {
			op.E = -4
		}
		op.NF = ((op.NF % 4) + 4) % 4
		if !o.Insts[op.Inst].Float {
			op.NF = 0
		}
		if op.NF == 3 && nonNegative(k) {
			op.NF = 1
		}
		if o.Insts[op.Inst].Again == 0 {
			op.H = false
		}
		return op, true
	}
	for _, cy := range c.Cycles {
		n := Cycle{Ops: []Op{}, Obs: []Op{}}
		for _, op := range cy.Ops {
			if f, ok := fixOp(op, false); ok {
				n.Ops = append(n.Ops, f)
			}
		}
		seen := map[[2]int]bool{}
		for _, op := range cy.Obs {
			if f, ok := fixOp(op, true); ok && !seen[[2]int{f.Inst, f.Set}] {
				seen[[2]int{f.Inst, f.Set}] = true
				n.Obs = append(n.Obs, f)
			}
		}
		for r := range o.Readers {
			n.Collect = append(n.Collect, r >= len(cy.Collect) || cy.Collect[r])
		}
		o.Cycles = append(o.Cycles, n)
	}
	return o
}

// ---------------------------------------------------------------------
// generator

const overflowAttr = "otel.metric.overflow"

var filterKeys = []string{"a", "b", "c", overflowAttr, "zz"}

// nStructured attribute sets over a in {-,0..4}, b in {-,x,y,z}, c in {-,true,false};
// index 0 is the empty set. Specials follow.
const nStructured = 6 * 4 * 3

var specialSets = [][]vk.KV{
	{{K: overflowAttr, T: "bool", B: true}}, // the overflow set itself
	{{K: overflowAttr, T: "bool", B: true}, {K: "a", T: "int", I: 1}},
	{{K: overflowAttr, T: "bool", B: true}, {K: "b", T: "str", S: "x"}},
	{{K: overflowAttr, T: "bool", B: true}, {K: "zz", T: "int", I: 7}},
	{{K: overflowAttr, T: "bool", B: false}},
	{{K: overflowAttr, T: "str", S: "true"}},
	{{K: "zz", T: "int", I: 7}},
	{{K: "zz", T: "int", I: 8}, {K: "a", T: "int", I: 1}},
	// wide sets (4-5 attributes): a filter keeping a,b and removing c,zz (or
	// other splits) goes through the general partition path of Set.Filter;
	// sets that differ only in removed attributes must end up in ONE stream
	{{K: "a", T: "int", I: 1}, {K: "b", T: "str", S: "x"}, {K: "c", T: "bool", B: true}, {K: "zz", T: "int", I: 7}},
	{{K: "a", T: "int", I: 1}, {K: "b", T: "str", S: "x"}, {K: "c", T: "bool", B: false}, {K: "zz", T: "int", I: 8}},
	{{K: "zz", T: "int", I: 9}, {K: "c", T: "bool", B: true}, {K: "b", T: "str", S: "x"}, {K: "a", T: "int", I: 1}},
	{{K: "a", T: "int", I: 2}, {K: "b", T: "str", S: "y"}, {K: "c", T: "bool", B: true}, {K: "zz", T: "int", I: 7}},
	{{K: "a", T: "int", I: 1}, {K: "b", T: "str", S: "x"}, {K: "c", T: "bool", B: true}, {K: overflowAttr, T: "bool", B: false}, {K: "zz", T: "int", I: 7}},
	{{K: "a", T: "int", I: 1}, {K: "b", T: "str", S: "x"}, {K: "c", T: "bool", B: true}, {K: "d", T: "int", I: 1}, {K: "zz", T: "int", I: 7}},
	// sets that differ from a neighbour only in the TYPE of a value, in a
	// float payload, or in the content / order / length of a slice value: each
	// is a distinct attribute set and keeps its own identity
	{{K: "zz", T: "float", F: 7}},
	{{K: "zz", T: "float", F: 7.5}},
	{{K: "zz", T: "str", S: "7"}},
	{{K: "a", T: "float", F: 1}},
	{{K: "a", T: "ints", IS: []int64{1}}},
	{{K: "b", T: "strs", SS: []vk.Str{"x"}}},
	{{K: "b", T: "strs", SS: []vk.Str{"x", "y"}}},
	{{K: "b", T: "strs", SS: []vk.Str{"y", "x"}}},
	{{K: "b", T: "strs", SS: []vk.Str{}}},
	{{K: "b", T: "str", S: ""}},
	{{K: "c", T: "bools", BS: []bool{true}}, {K: "a", T: "int", I: 1}},
	{{K: "c", T: "floats", FS: []vk.F64{1, 2}}, {K: "a", T: "int", I: 1}},
}

const overflowIdx = nStructured // index of the overflow set in the space

func setFromIndex(i int) []vk.KV {
	if i >= nStructured {
		return append([]vk.KV{}, specialSets[i-nStructured]...)
	}
	out := []vk.KV{}
	if a := i % 6; a > 0 {
		out = append(out, vk.KV{K: "a", T: "int", I: int64(a - 1)})
	}
	if b := (i / 6) % 4; b > 0 {
		out = append(out, vk.KV{K: "b", T: "str", S: vk.Str([]string{"x", "y", "z"}[b-1])})
	}
	if c := (i / 24) % 3; c > 0 {
		out = append(out, vk.KV{K: "c", T: "bool", B: c == 1})
	}
	return out
}

func genPool(t *rapid.T, max int, limit int) [][]vk.KV {
	corners := []int{1, 2, 3, 4, 5, 6, 10, 11, max}
	if limit >= 4 && limit < max {
		// pools just below, at and above the limit
		corners = append(corners, limit-1, limit, limit+1, limit+1, limit+3)
	}
	n := vk.GenLen(max, corners...).Draw(t, "poolsize")
	if n < 1 {
		n = 1
	}
	if n > max {
		n = max
	}
	// one in five draws comes from the special sets (the overflow set and near misses)
	space := rapid.Custom(func(t *rapid.T) int {
		if rapid.IntRange(0, 4).Draw(t, "special") == 0 {
			return nStructured + rapid.IntRange(0, len(specialSets)-1).Draw(t, "i")
		}
		return rapid.IntRange(0, nStructured-1).Draw(t, "i")
	})
	idx := rapid.SliceOfNDistinct(space, n, n, func(i int) int { return i }).Draw(t, "pool")
	if rapid.Bool().Draw(t, "with_overflow_set") {
		has := false
		for _, i := range idx {
			has = has || i == overflowIdx
		}
		if !has {
			idx[rapid.IntRange(0, n-1).Draw(t, "overflow_pos")] = overflowIdx
		}
	}
	pool := make([][]vk.KV, n)
	for i, x := range idx {
		pool[i] = setFromIndex(x)
	}
	return pool
}

// genLimitValue draws a limit L >= 1: mostly the small limits around which
// the first-L-1 boundary is easy to hit, every L up to 12, sometimes a limit of
// the order of the pool sizes (so that it is reached only by the larger pools)
// and rarely a limit no generated history can reach (which must then behave
// like "unlimited").
func genLimitValue(t *rapid.T) int {
	switch r := rapid.IntRange(0, 19).Draw(t, "limit_range"); {
	case r < 9:
		return rapid.SampledFrom([]int{1, 2, 2, 3, 3, 5, 10}).Draw(t, "limit")
	case r < 16:
		return rapid.IntRange(1, 12).Draw(t, "limit")
	case r < 19:
		return rapid.IntRange(8, 33).Draw(t, "limit")
	}
	return rapid.SampledFrom([]int{64, 100, 2000, 65536, 1 << 31, 1<<63 - 1}).Draw(t, "limit")
}

// spellLimit writes the integer n the way a person or a deployment template
// may write an integer into an environment variable: plainly, zero-padded to
// a fixed width, or with an explicit plus sign. All of them are the integer n
// in the documented reading ("the integer limit value").
func spellLimit(t *rapid.T, n int) string {
	s := strconv.Itoa(n)
	switch rapid.IntRange(0, 9).Draw(t, "spelling") {
	case 5, 6, 7: // zero-padded
		s = strings.Repeat("0", rapid.IntRange(1, 3).Draw(t, "zeros")) + s
	case 8:
		s = "+" + s
	case 9:
		s = "+" + strings.Repeat("0", rapid.IntRange(1, 2).Draw(t, "zeros")) + s
	}
	return s
}

// values the documentation says are ignored ("The value must be an integer
// value. All other values are ignored"): only strings no reading takes for an
// integer. Spellings whose status the documentation leaves open (0x10, 1_000,
// 1e3, 2.0, surrounding blanks) are NOT generated.
var notIntegers = []string{"abc", "true", "ten", "1.5", "5x", "x5", "+", "-", "5-", "--5", "1,5"}

// genEnv draws the value of OTEL_GO_X_CARDINALITY_LIMIT.
func genEnv(t *rapid.T) string {
	// (rapid prefers the small values of a range: the common shape comes first)
	switch r := rapid.IntRange(0, 49).Draw(t, "env_shape"); {
	case r < 32:
		return spellLimit(t, genLimitValue(t))
	case r < 46:
		return ""
	case r < 48: // documented: <= 0 disables the limit, in every spelling
		return rapid.SampledFrom([]string{"0", "-1", "0", "-1", "00", "-0", "+0", "-010", "-2000", "-9223372036854775808"}).Draw(t, "env")
	case r < 49:
		return rapid.SampledFrom(notIntegers).Draw(t, "env")
	}
	// beyond every integer type: ignored, or a limit never reached
	return "99999999999999999999"
}

// genReuse: about one reader in three collects into one reused ResourceMetrics.
func genReuse(t *rapid.T, nreaders int) []bool {
	out := make([]bool, nreaders)
	any := false
	for r := range out {
		out[r] = rapid.IntRange(0, 2).Draw(t, "reuse_rm") == 0
		any = any || out[r]
	}
	if !any {
		return nil
	}
	return out
}

func genReaders(t *rapid.T) []int {
	switch rapid.IntRange(0, 5).Draw(t, "readers") {
	case 0:
		return []int{0}
	case 1:
		return []int{1}
	case 2:
		return []int{1, 0}
	case 3:
		return []int{rapid.IntRange(0, 2).Draw(t, "r0"), rapid.IntRange(0, 2).Draw(t, "r1")}
	default:
		return []int{0, 1}
	}
}

// genSelectors gives about half of the readers an aggregation selector; per
// kind it answers with the default (three spellings) half of the time and
// otherwise with drop / exponential / other buckets / sum / last value, as
// far as the kind accepts it.
func genSelectors(t *rapid.T, nreaders int) [][]int {
	var out [][]int
	any := false
	for r := 0; r < nreaders; r++ {
		var sel []int
		if rapid.IntRange(0, 1).Draw(t, "has_selector") == 0 {
			any = true
			sel = make([]int, nKinds)
			for k := range sel {
				if rapid.Bool().Draw(t, "sel_default") {
					sel[k] = rapid.SampledFrom([]int{raDefault, raNil, raAggDefault}).Draw(t, "sel")
					continue
				}
				var ok []int
				for _, ra := range []int{raDrop, raDrop, raExpo, raHist2, raHist3, raSum, raLast} {
					if readerAggCompatible(ra, k) {
						ok = append(ok, ra)
					}
				}
				sel[k] = rapid.SampledFrom(ok).Draw(t, "sel")
			}
		}
		out = append(out, sel)
	}
	if !any {
		return nil
	}
	return out
}

func genInsts(t *rapid.T, max int) []Inst {
	n := rapid.IntRange(1, max).Draw(t, "ninst")
	out := make([]Inst, 0, n)
	for i := 0; i < n; i++ {
		if i > 0 && rapid.IntRange(0, 2).Draw(t, "twin") == 0 {
			// a twin of an earlier instrument (so that renaming can merge them),
			// sometimes differing in exactly one identifying field.
			tw := out[rapid.IntRange(0, i-1).Draw(t, "twin_of")]
			switch rapid.IntRange(0, 5).Draw(t, "twin_diff") {
			case 0:
				tw.Float = !tw.Float
			case 1:
				if tw.Unit == "" {
					tw.Unit = "By"
				} else {
					tw.Unit = ""
				}
			case 2:
				tw.Kind = rapid.IntRange(0, nKinds-1).Draw(t, "twin_kind")
			}
			out = append(out, tw)
			continue
		}
		out = append(out, Inst{
			Kind:  rapid.IntRange(0, nKinds-1).Draw(t, "kind"),
			Float: rapid.Bool().Draw(t, "float"),
			Unit:  rapid.SampledFrom([]string{"", "", "By"}).Draw(t, "unit"),
		})
	}
	for i := range out {
		// about one synchronous instrument in four is requested twice
		if !observable(out[i].Kind) && rapid.IntRange(0, 3).Draw(t, "again") == 0 {
			out[i].Again = rapid.IntRange(1, 2).Draw(t, "again_how")
		}
	}
	return out
}

func genFilter(t *rapid.T, v *View) {
	switch rapid.IntRange(0, 7).Draw(t, "fshape") {
	case 0: // only the overflow attribute survives: near misses become the overflow set
		v.Filter, v.Keys = 1, []string{overflowAttr}
		return
	case 1:
		v.Filter, v.Keys = 2, []string{"a", "b", "zz"}
		return
	}
	if rapid.IntRange(0, 1).Draw(t, "value_filter") == 0 {
		genValueFilter(t, v)
		return
	}
	v.Filter = rapid.IntRange(1, 2).Draw(t, "fmode")
	ks := rapid.SliceOfNDistinct(rapid.SampledFrom(filterKeys), 0, 3, func(s string) string { return s }).Draw(t, "fkeys")
	sort.Strings(ks)
	v.Keys = ks
}

// the (key, value) pairs that occur in the pools
var filterPairs = []vk.KV{
	{K: "a", T: "int", I: 0}, {K: "a", T: "int", I: 1}, {K: "a", T: "int", I: 2}, {K: "a", T: "int", I: 3}, {K: "a", T: "int", I: 4},
	{K: "b", T: "str", S: "x"}, {K: "b", T: "str", S: "y"}, {K: "b", T: "str", S: "z"},
	{K: "c", T: "bool", B: true}, {K: "c", T: "bool", B: false},
	{K: overflowAttr, T: "bool", B: true}, {K: overflowAttr, T: "bool", B: false}, {K: overflowAttr, T: "str", S: "true"},
	{K: "zz", T: "int", I: 7}, {K: "zz", T: "int", I: 8}, {K: "zz", T: "int", I: 9},
	{K: "zz", T: "float", F: 7}, {K: "b", T: "strs", SS: []vk.Str{"x"}}, {K: "a", T: "float", F: 1},
}

// genValueFilter draws a filter that decides on key AND value.
func genValueFilter(t *rapid.T, v *View) {
	v.Keys = []string{}
	hi := len(filterPairs) - 1
	if rapid.IntRange(0, 2).Draw(t, "ab_only") != 0 {
		hi = 7 // values of a and b: the keys most sets of a pool carry with several values
	}
	switch rapid.IntRange(0, 5).Draw(t, "vfshape") {
	case 0: // one key kept for exactly one value
		v.Filter = 3
		v.FKV = []vk.KV{rapid.SampledFrom(filterPairs[:8]).Draw(t, "pair")}
	case 1, 2: // keys kept for a subset of their values, maybe some keys denied
		v.Filter = 3
		idx := rapid.SliceOfNDistinct(rapid.IntRange(0, hi), 1, 4, func(i int) int { return i }).Draw(t, "pairs")
		sort.Ints(idx)
		for _, i := range idx {
			v.FKV = append(v.FKV, filterPairs[i])
		}
		if rapid.Bool().Draw(t, "deny_some") {
			v.Keys = []string{rapid.SampledFrom([]string{"c", "zz", "b"}).Draw(t, "deny")}
		}
	case 3, 4: // everything but some (key, value) pairs
		v.Filter = 4
		idx := rapid.SliceOfNDistinct(rapid.IntRange(0, hi), 1, 3, func(i int) int { return i }).Draw(t, "pairs")
		sort.Ints(idx)
		for _, i := range idx {
			v.FKV = append(v.FKV, filterPairs[i])
		}
	default: // by value type
		v.Filter = 5
		v.Keys = []string{rapid.SampledFrom([]string{overflowAttr, overflowAttr, "a", "b"}).Draw(t, "typed_key")}
		v.FType = rapid.SampledFrom([]string{"BOOL", "STRING", "INT64"}).Draw(t, "ftype")
	}
}

var renames = []string{"ren0", "ren1", "ren2", "merged", "MERGED"}

func genAgg(t *rapid.T, v *View, insts []Inst) {
	var ok []int
	for a := 0; a < nViewAggs; a++ {
		good := true
		for i, in := range insts {
			if v.matches(i, in) && !aggCompatible(a, in.Kind) {
				good = false
			}
		}
		if good && a != vaDrop {
			ok = append(ok, a)
		}
	}
	for i, in := range insts {
		if v.matches(i, in) && in.Kind == kHist && aggCompatible(vaSum, in.Kind) && len(ok) > 0 && ok[len(ok)-1] != vaSum {
			for _, a := range ok {
				if a == vaSum {
					ok = append(ok, vaSum, vaSum) // histogram -> sum is otherwise rare
					break
				}
			}
		}
	}
	for _, a := range ok {
		if a == vaDefault {
			ok = append(ok, vaDefault) // the explicit default matters against reader selectors
			break
		}
	}
	v.Agg = rapid.SampledFrom(ok).Draw(t, "agg")
	if v.Agg == vaHist {
		v.Bounds = rapid.IntRange(0, len(boundsTable)-1).Draw(t, "bounds")
	}
}

// patterns over the instrument names inst0..inst5; N is replaced by a digit.
var patterns = []string{"*", "*", "inst?", "inst*", "*N", "?nstN", "i*tN", "*t*", "inst?N", "instN?", "?", "*N*"}

func genCriteria(t *rapid.T, v *View, insts []Inst, allowWide bool) {
	tgt := rapid.IntRange(0, len(insts)-1).Draw(t, "target")
	v.NameMode, v.Target = nmExact, tgt
	if !allowWide {
		return
	}
	switch rapid.IntRange(0, 9).Draw(t, "criteria") {
	case 0, 1, 2: // exact name
	case 3, 4: // wildcard
		v.NameMode = nmPattern
		v.Pattern = strings.ReplaceAll(rapid.SampledFrom(patterns).Draw(t, "pattern"), "N", fmt.Sprint(tgt))
	case 5: // kind only
		v.NameMode, v.ByKind, v.Kind = nmNone, true, insts[tgt].Kind
	case 6: // unit only
		v.NameMode, v.ByUnit = nmNone, true
	case 7: // name and kind (the kind may be the wrong one: no match)
		v.ByKind, v.Kind = true, insts[rapid.IntRange(0, len(insts)-1).Draw(t, "kind_of")].Kind
	case 8: // wildcard and kind / unit
		v.NameMode = nmPattern
		v.Pattern = strings.ReplaceAll(rapid.SampledFrom(patterns).Draw(t, "pattern"), "N", fmt.Sprint(tgt))
		if rapid.Bool().Draw(t, "pk") {
			v.ByKind, v.Kind = true, insts[tgt].Kind
		} else {
			v.ByUnit = true
		}
	default: // kind and unit
		v.NameMode, v.ByKind, v.Kind, v.ByUnit = nmNone, true, insts[tgt].Kind, true
	}
}

func genMaskUnit(t *rapid.T, v *View) {
	if rapid.IntRange(0, 3).Draw(t, "mask_unit") == 0 {
		v.Unit = "ms"
	}
}

func genViews(t *rapid.T, c *Case, max int) []View {
	insts := c.Insts
	nv := rapid.IntRange(0, max).Draw(t, "nviews")
	// instruments for whose kind some reader selects a non-default aggregation
	var selected []int
	for i, in := range insts {
		for r := range c.Readers {
			if !readerAggIsDefault(c.selectorOf(r, in.Kind), in.Kind) {
				selected = append(selected, i)
				break
			}
		}
	}
	var vs []View
	for len(vs) < nv {
		v := View{Keys: []string{}}
		shape := rapid.IntRange(0, 7).Draw(t, "viewshape")
		if len(selected) > 0 && rapid.IntRange(0, 3).Draw(t, "explicit_default") == 0 {
			shape = 8
		}
		switch shape {
		case 8: // the view asks for AggregationDefault{} where a reader selects something else
			v.NameMode, v.Target = nmExact, rapid.SampledFrom(selected).Draw(t, "target")
			v.Agg = vaDefault
			switch rapid.IntRange(0, 3).Draw(t, "xd_shape") {
			case 0:
				v.Rename = rapid.SampledFrom(renames).Draw(t, "rename")
			case 1:
				v.Rename = rapid.SampledFrom(renames).Draw(t, "rename")
				genFilter(t, &v)
			case 2:
				v.NameMode, v.ByKind, v.Kind = nmNone, true, insts[v.Target].Kind
			}
		case 0: // attribute filter only
			genCriteria(t, &v, insts, true)
			genFilter(t, &v)
		case 1: // rename (+ maybe filter / aggregation / unit)
			genCriteria(t, &v, insts, false)
			v.Rename = rapid.SampledFrom(renames).Draw(t, "rename")
			genMaskUnit(t, &v)
			if rapid.Bool().Draw(t, "rn_filter") {
				genFilter(t, &v)
			}
			if rapid.Bool().Draw(t, "rn_agg") {
				genAgg(t, &v, insts)
			}
		case 2: // re-aggregation
			genCriteria(t, &v, insts, true)
			genAgg(t, &v, insts)
			if rapid.IntRange(0, 2).Draw(t, "ra_filter") == 0 {
				genFilter(t, &v)
			}
		case 3: // drop
			genCriteria(t, &v, insts, true)
			v.Agg = vaDrop
			if v.NameMode != nmPattern && rapid.Bool().Draw(t, "drop_renamed") {
				v.Rename = rapid.SampledFrom(renames).Draw(t, "rename")
			}
		case 4: // two instruments renamed to one stream name, identical masks
			if len(insts) < 2 {
				continue
			}
			a := rapid.IntRange(0, len(insts)-1).Draw(t, "merge_a")
			b := rapid.IntRange(0, len(insts)-2).Draw(t, "merge_b")
			if b >= a {
				b++
			}
			v.NameMode, v.Target = nmExact, a
			v.Rename = rapid.SampledFrom(renames).Draw(t, "rename")
			genMaskUnit(t, &v)
			if rapid.Bool().Draw(t, "mg_filter") {
				genFilter(t, &v)
			}
			w := v
			w.Keys = append([]string{}, v.Keys...)
			w.Target = b
			if w.Rename == "merged" && rapid.Bool().Draw(t, "mg_case") {
				w.Rename = "MERGED"
			}
			vs = append(vs, v, w)
			continue
		case 5: // verbatim duplicate of an earlier view (identical result stream)
			if len(vs) == 0 {
				continue
			}
			v = vs[rapid.IntRange(0, len(vs)-1).Draw(t, "dup_of")]
			v.Keys = append([]string{}, v.Keys...)
		case 6: // a kind/unit-wide rename: every matching instrument ends up under one name
			if rapid.Bool().Draw(t, "wide_kind") {
				v.ByKind, v.Kind = true, insts[rapid.IntRange(0, len(insts)-1).Draw(t, "kind_of")].Kind
			} else {
				v.ByUnit = true
			}
			v.Rename = rapid.SampledFrom(renames).Draw(t, "rename")
			genMaskUnit(t, &v)
			if rapid.Bool().Draw(t, "wd_filter") {
				genFilter(t, &v)
			}
		default: // second stream of one instrument: rename + filter
			genCriteria(t, &v, insts, false)
			v.Rename = rapid.SampledFrom(renames).Draw(t, "rename")
			genFilter(t, &v)
		}
		vs = append(vs, v)
	}
	// occasionally one more view whose aggregation is incompatible with the
	// synchronous instrument it names exactly (never a wildcard: it must not
	// catch an observable instrument)
	if len(vs) > 0 && rapid.IntRange(0, 5).Draw(t, "incompatible_view") == 0 {
		var cands []int
		for i, in := range insts {
			if !observable(in.Kind) {
				cands = append(cands, i)
			}
		}
		if len(cands) > 0 {
			tgt := rapid.SampledFrom(cands).Draw(t, "incompatible_target")
			v := View{Keys: []string{}, NameMode: nmExact, Target: tgt, Incompat: true, Agg: vaLast}
			if gaugeKind(insts[tgt].Kind) {
				v.Agg = vaSum
			}
			if rapid.Bool().Draw(t, "incompatible_renamed") {
				v.Rename = rapid.SampledFrom(renames).Draw(t, "rename")
			}
			pos := rapid.IntRange(0, len(vs)).Draw(t, "incompatible_pos")
			vs = append(vs[:pos], append([]View{v}, vs[pos:]...)...)
		}
	}

	return vs
}

func genValue(t *rapid.T, kind int) (int64, int) {
	lo := -9
	if nonNegative(kind) {
		lo = 0
	}
	e := rapid.IntRange(-3, 3).Draw(t, "e")
	if rapid.IntRange(0, 3).Draw(t, "bigvalue") == 0 {
		// larger values and bucket boundaries of the default / generated bounds,
		// so that the values folded into one point differ widely
		k := rapid.SampledFrom([]int64{10, 16, 25, 50, 64, 4, 5, 1}).Draw(t, "k")
		if lo < 0 && rapid.Bool().Draw(t, "neg") {
			k = -k
		}
		return k, e
	}
	return int64(rapid.IntRange(lo, 9).Draw(t, "k")), e
}

// genNF: in the cases that use non-finite values at all, about one float64
// measurement in ten is +Inf, NaN or -Inf.
func genNF(t *rapid.T, enabled bool, in Inst) int {
	if !enabled || !in.Float || rapid.IntRange(0, 9).Draw(t, "nonfinite") != 0 {
		return 0
	}
	nf := rapid.SampledFrom([]int{1, 1, 2, 2, 3}).Draw(t, "nf")
	if nf == 3 && nonNegative(in.Kind) {
		nf = 1
	}
	return nf
}

func genCycles(t *rapid.T, c *Case, maxOps, maxObs int) {
	nonFinite := rapid.IntRange(0, 2).Draw(t, "use_nonfinite") == 0
	var syncI, obsI []int
	for i, in := range c.Insts {
		if observable(in.Kind) {
			obsI = append(obsI, i)
		} else {
			syncI = append(syncI, i)
		}
	}
	n := len(c.Pool)
	hot := rapid.IntRange(1, 5).Draw(t, "hot")
	if hot > n {
		hot = n
	}
	ncy := rapid.IntRange(3, 6).Draw(t, "ncycles")
	for cy := 0; cy < ncy; cy++ {
		cyc := Cycle{Ops: []Op{}, Obs: []Op{}}
		if len(syncI) > 0 {
			nops := vk.GenLen(maxOps, 0, 1, maxOps).Draw(t, "nops")
			hotCycle := rapid.IntRange(0, 3).Draw(t, "hotcycle") == 0
			for i := 0; i < nops; i++ {
				op := Op{Inst: rapid.SampledFrom(syncI).Draw(t, "inst")}
				if hotCycle || rapid.IntRange(0, 3).Draw(t, "hotop") == 0 {
					op.Set = rapid.IntRange(0, hot-1).Draw(t, "set")
				} else {
					op.Set = rapid.IntRange(0, n-1).Draw(t, "set")
				}
				op.K, op.E = genValue(t, c.Insts[op.Inst].Kind)
				op.NF = genNF(t, nonFinite, c.Insts[op.Inst])
				if c.Insts[op.Inst].Again != 0 {
					op.H = rapid.Bool().Draw(t, "second_handle")
				}
				cyc.Ops = append(cyc.Ops, op)
			}
		}
		for _, oi := range obsI {
			m := maxObs
			if m > n {
				m = n
			}
			k := rapid.IntRange(0, m).Draw(t, "nobs")
			sets := rapid.SliceOfNDistinct(rapid.IntRange(0, n-1), k, k, func(i int) int { return i }).Draw(t, "obs_sets")
			for _, s := range sets {
				op := Op{Inst: oi, Set: s}
				op.K, op.E = genValue(t, c.Insts[oi].Kind)
				op.NF = genNF(t, nonFinite, c.Insts[oi])
				cyc.Obs = append(cyc.Obs, op)
			}
		}
		for range c.Readers {
			cyc.Collect = append(cyc.Collect, cy == ncy-1 || rapid.IntRange(0, 7).Draw(t, "collect") != 0)
		}
		c.Cycles = append(c.Cycles, cyc)
	}
}

// pruneUndetermined removes views until no result stream is left whose
// content the property statement does not determine (see resolve).
func pruneUndetermined(c Case) Case {
	for {
		bad := -1
		for _, r := range resolveAll(c, 0) {
			for _, s := range r.streams {
				if s.undetermined && s.blame >= 0 && (bad < 0 || s.blame > bad) {
					bad = s.blame
				}
			}
		}
		if bad < 0 {
			return c
		}
		c.Views = append(append([]View{}, c.Views[:bad]...), c.Views[bad+1:]...)
	}
}

// genLimit: few instruments, at most one filter view, large pools and long
// measurement runs: the limiter boundary.
func genLimit(t *rapid.T) Case {
	c := Case{Env: genEnv(t), Readers: genReaders(t)}
	c.Selectors = genSelectors(t, len(c.Readers))
	c.Reuse = genReuse(t, len(c.Readers))
	c.Insts = genInsts(t, 2)
	c.Views = []View{}
	if rapid.IntRange(0, 2).Draw(t, "filtered") == 0 {
		v := View{NameMode: nmPattern, Pattern: "*", Keys: []string{}}
		genFilter(t, &v)
		c.Views = append(c.Views, v)
	}
	c.Pool = genPool(t, 30, parseLimit(c.Env))
	c.MultiCB = rapid.IntRange(0, 3).Draw(t, "multicb") == 0
	genCycles(t, &c, 40, 14)
	return normalize(pruneUndetermined(normalize(c)))
}

// genViewsCase: up to four instruments and up to six views of every shape.
func genViewsCase(t *rapid.T) Case {
	c := Case{Env: genEnv(t), Readers: genReaders(t)}
	c.Selectors = genSelectors(t, len(c.Readers))
	c.Reuse = genReuse(t, len(c.Readers))
	c.Insts = genInsts(t, 4)
	c.Views = genViews(t, &c, 5)
	if c.Views == nil {
		c.Views = []View{}
	}
	c.Pool = genPool(t, 12, parseLimit(c.Env))
	c.MultiCB = rapid.IntRange(0, 3).Draw(t, "multicb") == 0
	genCycles(t, &c, 16, 8)
	return normalize(pruneUndetermined(normalize(c)))
}
