package c12

// Wide sub-check of C12: the same histories / oracle as limit_model, with
// pools and limits of the sizes the documentation talks about (its example is
// a limit of 2000): hundreds to a few thousand distinct attribute sets swept
// in different orders cycle after cycle, with the limit just below, at and
// just above the number of distinct sets.

import (
	"math"
	"testing"

	"go.opentelemetry.io/otel/verif/internal/vk"
	"pgregory.net/rapid"
)

func gcd(a, b int) int {
	for b != 0 {
		a, b = b, a%b
	}
	return a
}

// genWide: n distinct sets {id=i, g=i mod G} with n on a log scale between 31
// and 2500; optionally a view keeping only g (G streams) or removing g (n
// streams, same sets as without g); the limit relative to the number of
// distinct filtered sets; every cycle sweeps a generated share of the pool
// from a generated start with a generated stride.
func genWide(t *rapid.T) Case {
	c := Case{Readers: genReaders(t), Views: []View{}}
	c.Reuse = genReuse(t, len(c.Readers))
	if rapid.IntRange(0, 3).Draw(t, "with_selector") == 0 {
		c.Selectors = genSelectors(t, len(c.Readers))
	}
	c.Insts = genInsts(t, 2)
	// log scale: a band first (rapid prefers small values inside a range)
	band := rapid.SampledFrom([][2]float64{{31, 100}, {100, 300}, {300, 1000}, {1000, 2500}}).Draw(t, "size_band")
	n := int(math.Round(band[0] * math.Pow(band[1]/band[0], float64(rapid.IntRange(0, 1000).Draw(t, "size"))/1000)))
	if rapid.IntRange(0, 5).Draw(t, "size_corner") == 0 {
		n = rapid.SampledFrom([]int{127, 128, 129, 255, 256, 257, 1023, 1024, 1025, 2000, 2001}).Draw(t, "n")
	}
	g := rapid.SampledFrom([]int{1, 3, 7, 50, 200, n/2 + 1, n}).Draw(t, "groups")
	if g > n {
		g = n
	}
	distinct := n
	switch rapid.IntRange(0, 3).Draw(t, "filter") {
	case 0:
		c.Views = append(c.Views, View{NameMode: nmPattern, Pattern: "*", Filter: 1, Keys: []string{"g"}})
		distinct = g
	case 1:
		c.Views = append(c.Views, View{NameMode: nmPattern, Pattern: "*", Filter: 2, Keys: []string{"g"}})
	}
	l := distinct + rapid.SampledFrom([]int{-1, 0, 0, 1, 1, 2, 10}).Draw(t, "limit_offset")
	switch rapid.IntRange(0, 7).Draw(t, "limit_shape") {
	case 0:
		l = distinct/2 + 1
	case 1:
		l = rapid.SampledFrom([]int{100, 128, 256, 1000, 2000}).Draw(t, "limit")
	case 2:
		l = 0
	}
	if l >= 1 {
		c.Env = spellLimit(t, l)
	} else if rapid.Bool().Draw(t, "unset") {
		c.Env = "-1"
	}
	c.Pool = make([][]vk.KV, n)
	for i := range c.Pool {
		c.Pool[i] = []vk.KV{{K: "id", T: "int", I: int64(i)}, {K: "g", T: "int", I: int64(i % g)}}
	}
	c.MultiCB = rapid.IntRange(0, 3).Draw(t, "multicb") == 0
	ncy := rapid.IntRange(3, 4).Draw(t, "ncycles")
	for cy := 0; cy < ncy; cy++ {
		cyc := Cycle{Ops: []Op{}, Obs: []Op{}}
		for i, in := range c.Insts {
			// how much of the pool this instrument sees in this cycle
			m := n
			switch rapid.IntRange(0, 4).Draw(t, "share") {
			case 0:
				m = n / 2
			case 1:
				m = rapid.IntRange(0, n).Draw(t, "m")
			}
			start := rapid.IntRange(0, n-1).Draw(t, "start")
			stride := rapid.IntRange(1, n-1).Draw(t, "stride")
			for gcd(stride, n) != 1 {
				stride++
			}
			again := rapid.IntRange(0, 2).Draw(t, "second_pass") == 0 && !observable(in.Kind)
			for pass := 0; pass < 2; pass++ {
				if pass == 1 && !again {
					break
				}
				for j := 0; j < m; j++ {
					op := Op{Inst: i, Set: (start + j*stride) % n, K: int64(1 + (j+cy)%7)}
					if !nonNegative(in.Kind) && j%5 == 0 {
						op.K = -op.K
					}
					op.H = in.Again != 0 && j%2 == 1
					if observable(in.Kind) {
						cyc.Obs = append(cyc.Obs, op)
					} else {
						cyc.Ops = append(cyc.Ops, op)
					}
				}
			}
		}
		for range c.Readers {
			cyc.Collect = append(cyc.Collect, cy == ncy-1 || rapid.IntRange(0, 5).Draw(t, "collect") != 0)
		}
		c.Cycles = append(c.Cycles, cyc)
	}
	return normalize(pruneUndetermined(normalize(c)))
}

func runWide(c Case) ([]vk.Violation, vk.Info) {
	vs, info := run(c)
	n := len(c.Pool)
	switch {
	case n >= 1024:
		info.Class("pool>=1024")
	case n >= 256:
		info.Class("pool_256..1023")
	case n >= 100:
		info.Class("pool_100..255")
	default:
		info.Class("pool<100")
	}
	l := parseLimit(c.Env)
	info.ClassIf(l >= 100 && l <= 5000, "limit_100..5000")
	over := false
	for _, cl := range info.Classes {
		over = over || cl == "overflow_delta" || cl == "overflow_cumulative"
	}
	info.ClassIf(l >= 100 && over, "limit>=100_with_overflow")
	info.ClassIf(l >= 1000 && over, "limit>=1000_with_overflow")
	return vs, info
}

func TestLimitWide(t *testing.T) {
	vk.Run(t, vk.Spec[Case]{
		Property: "C12", Check: "limit_wide",
		Rule: "1-2 instruments of any kind / number type; pool of n distinct sets {id=i, g=i mod G}, n log-uniform in 31..2500 or next to 128 / 256 / 1024 / 2000; optionally one wildcard view keeping only g or removing g; limit = (number of distinct filtered sets) + {-1,0,1,2,10}, half of it, a round number, or none, in any spelling; 3-4 cycles, each sweeping a generated share of the pool per instrument from a generated start with a generated stride (sometimes twice), then Collect on one or two ManualReaders (delta / cumulative / mixed, fresh or reused ResourceMetrics); oracle = limit_model's; " +
			"non-trivial = in some stream more than L distinct filtered sets arrive within one lifetime, or the filter merges >= 2 distinct sets; distinct = distinct case encodings",
		Quick: 100, Thorough: 2000,
		Gen: genWide, Run: runWide,
	})
	t.Log(statLine())
}
