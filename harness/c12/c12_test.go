// Package c12 decides property C12 (cardinality limits and attribute filters
// conserve every measurement) by running generated measurement histories
// through a real MeterProvider (views, one or two ManualReaders, the
// experimental OTEL_GO_X_CARDINALITY_LIMIT) and comparing every collection
// with a reference model written from the property statement.
//
// Readings of the statement chosen where it is silent or ambiguous:
//
//   - "the first L-1 distinct sets" are counted within the lifetime of the
//     stream's set table: from one collection to the next for delta
//     temporality and for asynchronous sum / last-value streams ("only
//     observations made in the callback are exported"), from creation on for
//     cumulative synchronous streams (and for histograms of observations).
//   - the limit and the filter act on the FILTERED set; a filtered set equal to
//     {otel.metric.overflow=true} and the explicit use of that set by the
//     program are the same stream as the overflow stream.
//   - a delta reader of an asynchronous sum reports, per reported (post filter,
//     post limit) stream, this cycle's aggregate minus what the immediately
//     preceding collection of that reader reported for it (0 if absent).
//   - last-value streams: "total" is replaced by "last value per reported set;
//     the overflow point holds the last overflowing value".
//   - histograms of instruments that may record negative values carry no sum
//     (documented); only their count is compared.
//   - a metric with zero data points and an absent metric are the same.
//   - a stream's aggregation is the view's if the view names one, where
//     AggregationDefault{} means DefaultAggregationSelector(kind) whatever the
//     reader selects ("ensures the default is used"); otherwise what the
//     reader's aggregation selector returns for the kind (nil and
//     AggregationDefault{} = the default); a Drop selected by a reader removes
//     the stream for that reader only. Selector answers the SDK rejects for a
//     kind (sum for gauges, last value for non-gauges) are not generated.
//   - a result stream is identified by (case-insensitive name, unit, kind,
//     number type). Two (view, instrument) pairs with one identity but
//     different aggregation / filter, and two identities that would look the
//     same in the output, are NOT generated (and not asserted when replayed):
//     the statement does not say which definition wins.
//   - "a cardinality limit L" is configured through OTEL_GO_X_CARDINALITY_LIMIT,
//     documented as "the integer limit value" / "The value must be an integer
//     value. All other values are ignored. If the value set is less than or
//     equal to 0, no limit will be applied": an optional sign followed by
//     decimal digits is that integer whatever the number of leading zeros
//     (010 is ten); a value no reading takes for an integer (abc, 1.5, 5x) means
//     no limit. Spellings the documentation leaves open (0x10, 1_000, 1e3, 2.0,
//     surrounding blanks) are not generated.
//   - an instrument requested twice from one meter (identically, or with its
//     name in another case: names are case-insensitive) is ONE instrument: one
//     stream, one set table, one limit; measurements made through either
//     handle are counted once. Only generated for synchronous instruments.
//   - "one collection" is what a Collect call leaves in the ResourceMetrics it
//     was given, also when the caller passes the same ResourceMetrics again.
//
// Sub-checks: limit_model, views_model (this file), limit_wide (wide_test.go:
// hundreds to thousands of sets, limits next to the number of sets),
// limit_concurrent (conc_test.go), config_lent (hostile_test.go: two providers
// configured from caller-owned buffers that are re-used after the calls
// returned; the views_model oracle per provider).
package c12

import (
	"context"
	"fmt"
	"os"
	"sort"
	"strings"
	"testing"

	"go.opentelemetry.io/otel/attribute"
	"go.opentelemetry.io/otel/metric"
	sdkmetric "go.opentelemetry.io/otel/sdk/metric"
	"go.opentelemetry.io/otel/sdk/metric/metricdata"
	"go.opentelemetry.io/otel/sdk/resource"
	"go.opentelemetry.io/otel/verif/internal/vk"
)

const envKey = "OTEL_GO_X_CARDINALITY_LIMIT"

// ---------------------------------------------------------------------
// reading a collected ResourceMetrics

type gotPoint struct {
	key   string
	val   float64
	count uint64
	sum   float64
	// histograms
	min, max       float64
	hasMin, hasMax bool
	zero           uint64    // exponential
	bounds         []float64 // explicit
	buckets        []uint64  // explicit
}

type gotMetric struct {
	name, unit string
	matchKey   string
	agg        int
	pts        []gotPoint
}

func renderSet(s attribute.Set) string {
	parts := make([]string, 0, s.Len())
	it := s.Iter()
	for it.Next() {
		kv := it.Attribute()
		parts = append(parts, fmt.Sprintf("%q=%s", string(kv.Key), vk.ValueKey(kv.Value)))
	}
	sort.Strings(parts)
	return "{" + strings.Join(parts, ",") + "}"
}

func numPts[N int64 | float64](dps []metricdata.DataPoint[N]) []gotPoint {
	out := make([]gotPoint, len(dps))
	for i, d := range dps {
		out[i] = gotPoint{key: renderSet(d.Attributes), val: float64(d.Value)}
	}
	return out
}

func histPts[N int64 | float64](dps []metricdata.HistogramDataPoint[N]) []gotPoint {
	out := make([]gotPoint, len(dps))
	for i, d := range dps {
		out[i] = gotPoint{key: renderSet(d.Attributes), count: d.Count, sum: float64(d.Sum),
			bounds: append([]float64{}, d.Bounds...), buckets: append([]uint64{}, d.BucketCounts...)}
		if v, ok := d.Min.Value(); ok {
			out[i].min, out[i].hasMin = float64(v), true
		}
		if v, ok := d.Max.Value(); ok {
			out[i].max, out[i].hasMax = float64(v), true
		}
	}
	return out
}

func expoPts[N int64 | float64](dps []metricdata.ExponentialHistogramDataPoint[N]) []gotPoint {
	out := make([]gotPoint, len(dps))
	for i, d := range dps {
		out[i] = gotPoint{key: renderSet(d.Attributes), count: d.Count, sum: float64(d.Sum), zero: d.ZeroCount}
		if v, ok := d.Min.Value(); ok {
			out[i].min, out[i].hasMin = float64(v), true
		}
		if v, ok := d.Max.Value(); ok {
			out[i].max, out[i].hasMax = float64(v), true
		}
	}
	return out
}

func readMetrics(rm *metricdata.ResourceMetrics) ([]gotMetric, error) {
	var out []gotMetric
	for _, sm := range rm.ScopeMetrics {
		for _, m := range sm.Metrics {
			g := gotMetric{name: m.Name, unit: m.Unit}
			float, mono := false, false
			switch d := m.Data.(type) {
			case metricdata.Sum[int64]:
				g.agg, g.pts, mono = aSum, numPts(d.DataPoints), d.IsMonotonic
			case metricdata.Sum[float64]:
				g.agg, g.pts, mono, float = aSum, numPts(d.DataPoints), d.IsMonotonic, true
			case metricdata.Gauge[int64]:
				g.agg, g.pts = aLast, numPts(d.DataPoints)
			case metricdata.Gauge[float64]:
				g.agg, g.pts, float = aLast, numPts(d.DataPoints), true
			case metricdata.Histogram[int64]:
				g.agg, g.pts = aHist, histPts(d.DataPoints)
			case metricdata.Histogram[float64]:
				g.agg, g.pts, float = aHist, histPts(d.DataPoints), true
			case metricdata.ExponentialHistogram[int64]:
				g.agg, g.pts = aExpo, expoPts(d.DataPoints)
			case metricdata.ExponentialHistogram[float64]:
				g.agg, g.pts, float = aExpo, expoPts(d.DataPoints), true
			default:
				return nil, fmt.Errorf("metric %q has unexpected data type %T", m.Name, m.Data)
			}
			g.matchKey = mkMatchKey(m.Name, m.Unit, g.agg, float, mono)
			out = append(out, g)
		}
	}
	return out, nil
}

// ---------------------------------------------------------------------
// driving the SDK

var sdkKinds = []sdkmetric.InstrumentKind{
	sdkmetric.InstrumentKindCounter, sdkmetric.InstrumentKindUpDownCounter, sdkmetric.InstrumentKindHistogram,
	sdkmetric.InstrumentKindGauge, sdkmetric.InstrumentKindObservableCounter,
	sdkmetric.InstrumentKindObservableUpDownCounter, sdkmetric.InstrumentKindObservableGauge,
}

func harnessKind(k sdkmetric.InstrumentKind) int {
	for i, x := range sdkKinds {
		if x == k {
			return i
		}
	}
	return -1
}

func temporalitySelector(mode int) sdkmetric.TemporalitySelector {
	return func(k sdkmetric.InstrumentKind) metricdata.Temporality {
		if deltaFor(mode, harnessKind(k)) {
			return metricdata.DeltaTemporality
		}
		return metricdata.CumulativeTemporality
	}
}

func aggregationSelector(sel []int) sdkmetric.AggregationSelector {
	return func(k sdkmetric.InstrumentKind) sdkmetric.Aggregation {
		hk := harnessKind(k)
		if hk < 0 {
			return nil
		}
		switch sel[hk] {
		case raNil:
			return nil
		case raAggDefault:
			return sdkmetric.AggregationDefault{}
		case raDrop:
			return sdkmetric.AggregationDrop{}
		case raExpo:
			return sdkmetric.AggregationBase2ExponentialHistogram{MaxSize: 160, MaxScale: 20}
		case raHist2:
			return sdkmetric.AggregationExplicitBucketHistogram{Boundaries: append([]float64{}, boundsTable[2]...)}
		case raHist3:
			return sdkmetric.AggregationExplicitBucketHistogram{Boundaries: append([]float64{}, boundsTable[3]...)}
		case raSum:
			return sdkmetric.AggregationSum{}
		case raLast:
			return sdkmetric.AggregationLastValue{}
		}
		return sdkmetric.DefaultAggregationSelector(k)
	}
}

func buildView(v View) sdkmetric.View {
	var crit sdkmetric.Instrument
	switch v.NameMode {
	case nmExact:
		crit.Name = instName(v.Target)
	case nmPattern:
		crit.Name = v.Pattern
	}
	if v.ByKind {
		crit.Kind = sdkKinds[v.Kind]
	}
	if v.ByUnit {
		crit.Unit = "By"
	}
	mask := sdkmetric.Stream{Name: v.Rename, Unit: v.Unit}
	switch v.Agg {
	case vaDrop:
		mask.Aggregation = sdkmetric.AggregationDrop{}
	case vaSum:
		mask.Aggregation = sdkmetric.AggregationSum{}
	case vaLast:
		mask.Aggregation = sdkmetric.AggregationLastValue{}
	case vaHist:
		mask.Aggregation = sdkmetric.AggregationExplicitBucketHistogram{Boundaries: append([]float64{}, boundsTable[v.Bounds]...)}
	case vaExpo:
		mask.Aggregation = sdkmetric.AggregationBase2ExponentialHistogram{MaxSize: 160, MaxScale: 20}
	case vaDefault:
		mask.Aggregation = sdkmetric.AggregationDefault{}
	}
	ks := make([]attribute.Key, len(v.Keys))
	for i, k := range v.Keys {
		ks[i] = attribute.Key(k)
	}
	switch v.Filter {
	case 1:
		mask.AttributeFilter = attribute.NewAllowKeysFilter(ks...)
	case 2:
		mask.AttributeFilter = attribute.NewDenyKeysFilter(ks...)
	case 3, 4, 5:
		// a hand-written filter deciding on key AND value (pure, no state)
		f := v.fspec()
		mask.AttributeFilter = func(kv attribute.KeyValue) bool {
			return f.keepPair(string(kv.Key), vk.ValueKey(kv.Value))
		}
	}
	return sdkmetric.NewView(crit, mask)
}

type syncInst struct {
	addI func(context.Context, int64, ...metric.AddOption)
	addF func(context.Context, float64, ...metric.AddOption)
	recI func(context.Context, int64, ...metric.RecordOption)
	recF func(context.Context, float64, ...metric.RecordOption)
}

// newSync asks the meter for a synchronous instrument.
func newSync(meter metric.Meter, name string, in Inst) (s syncInst, err error) {
	switch {
	case in.Kind == kCounter && !in.Float:
		var x metric.Int64Counter
		if x, err = meter.Int64Counter(name, metric.WithUnit(in.Unit)); x != nil {
			s.addI = x.Add
		}
	case in.Kind == kCounter:
		var x metric.Float64Counter
		if x, err = meter.Float64Counter(name, metric.WithUnit(in.Unit)); x != nil {
			s.addF = x.Add
		}
	case in.Kind == kUpDown && !in.Float:
		var x metric.Int64UpDownCounter
		if x, err = meter.Int64UpDownCounter(name, metric.WithUnit(in.Unit)); x != nil {
			s.addI = x.Add
		}
	case in.Kind == kUpDown:
		var x metric.Float64UpDownCounter
		if x, err = meter.Float64UpDownCounter(name, metric.WithUnit(in.Unit)); x != nil {
			s.addF = x.Add
		}
	case in.Kind == kHist && !in.Float:
		var x metric.Int64Histogram
		if x, err = meter.Int64Histogram(name, metric.WithUnit(in.Unit)); x != nil {
			s.recI = x.Record
		}
	case in.Kind == kHist:
		var x metric.Float64Histogram
		if x, err = meter.Float64Histogram(name, metric.WithUnit(in.Unit)); x != nil {
			s.recF = x.Record
		}
	case in.Kind == kGauge && !in.Float:
		var x metric.Int64Gauge
		if x, err = meter.Int64Gauge(name, metric.WithUnit(in.Unit)); x != nil {
			s.recI = x.Record
		}
	case in.Kind == kGauge:
		var x metric.Float64Gauge
		if x, err = meter.Float64Gauge(name, metric.WithUnit(in.Unit)); x != nil {
			s.recF = x.Record
		}
	}
	return s, err
}

func run(c Case) ([]vk.Violation, vk.Info) { return runWith(c, nil) }

// runWith runs the history of c and compares every collection with the
// model. pre == nil: the provider is built here, every argument in fresh
// memory; otherwise (config_lent, hostile_test.go) the provider and its readers
// were configured beforehand from memory the caller went on using.
func runWith(c Case, pre *prebuilt) ([]vk.Violation, vk.Info) {
	c = normalize(c)
	var vs []vk.Violation
	var info vk.Info
	bad := func(kind, format string, a ...any) {
		if len(vs) < 12 {
			vs = append(vs, vk.V(kind, format, a...))
		}
	}

	// The limit is read from the environment when an instrument's aggregators
	// are created; cases run one after the other in this process.
	old, had := os.LookupEnv(envKey)
	if c.Env == "" {
		os.Unsetenv(envKey)
	} else {
		os.Setenv(envKey, c.Env)
	}
	defer func() {
		if had {
			os.Setenv(envKey, old)
		} else {
			os.Unsetenv(envKey)
		}
	}()
	limit := parseLimit(c.Env)

	ctx := context.Background()
	sets := make([]attribute.Set, len(c.Pool))
	rawKeys := make([]string, len(c.Pool))
	for i, kvs := range c.Pool {
		sets[i] = attribute.NewSet(vk.ToAttrs(kvs)...)
		rawKeys[i] = renderKVs(kvs)
	}

	var readers []*sdkmetric.ManualReader
	var mp *sdkmetric.MeterProvider
	if pre != nil {
		mp, readers = pre.mp, pre.readers
	} else {
		readers = make([]*sdkmetric.ManualReader, len(c.Readers))
		opts := []sdkmetric.Option{sdkmetric.WithResource(resource.Empty())}
		for i, mode := range c.Readers {
			ro := []sdkmetric.ManualReaderOption{sdkmetric.WithTemporalitySelector(temporalitySelector(mode))}
			if i < len(c.Selectors) && len(c.Selectors[i]) == nKinds {
				ro = append(ro, sdkmetric.WithAggregationSelector(aggregationSelector(c.Selectors[i])))
			}
			readers[i] = sdkmetric.NewManualReader(ro...)
			opts = append(opts, sdkmetric.WithReader(readers[i]))
		}
		for _, v := range c.Views {
			opts = append(opts, sdkmetric.WithView(buildView(v)))
		}
		mp = sdkmetric.NewMeterProvider(opts...)
	}
	defer func() { _ = mp.Shutdown(ctx) }()
	// how a measurement names its attribute set
	setOpt := func(i int) metric.MeasurementOption { return metric.WithAttributeSet(sets[i]) }
	if pre != nil && pre.attrOpt != nil {
		setOpt = func(i int) metric.MeasurementOption { return pre.attrOpt(i, c.Pool[i], sets[i]) }
	}
	meter := mp.Meter("c12")

	var cur *Cycle // the cycle whose observations callbacks report
	observeI := func(idx int, f func(int64, metric.MeasurementOption)) {
		if cur == nil {
			return
		}
		for _, op := range cur.Obs {
			if op.Inst == idx {
				f(op.K, setOpt(op.Set))
			}
		}
	}
	observeF := func(idx int, f func(float64, metric.MeasurementOption)) {
		if cur == nil {
			return
		}
		for _, op := range cur.Obs {
			if op.Inst == idx {
				f(opValue(op, true), setOpt(op.Set))
			}
		}
	}

	syncs := make([]syncInst, len(c.Insts))
	obsI := map[int]metric.Int64Observable{}
	obsF := map[int]metric.Float64Observable{}
	var allObs []metric.Observable
	for i, in := range c.Insts {
		i := i
		name := instName(i)
		var err error
		expectErr := false
		for _, v := range c.Views {
			if v.Incompat && v.matches(i, in) && !aggCompatible(v.Agg, in.Kind) {
				expectErr = true
			}
		}
		switch {
		case in.Kind == kCounter && !in.Float:
			var x metric.Int64Counter
			x, err = meter.Int64Counter(name, metric.WithUnit(in.Unit))
			if err == nil || expectErr {
				syncs[i].addI = x.Add
			}
		case in.Kind == kCounter:
			var x metric.Float64Counter
			x, err = meter.Float64Counter(name, metric.WithUnit(in.Unit))
			if err == nil || expectErr {
				syncs[i].addF = x.Add
			}
		case in.Kind == kUpDown && !in.Float:
			var x metric.Int64UpDownCounter
			x, err = meter.Int64UpDownCounter(name, metric.WithUnit(in.Unit))
			if err == nil || expectErr {
				syncs[i].addI = x.Add
			}
		case in.Kind == kUpDown:
			var x metric.Float64UpDownCounter
			x, err = meter.Float64UpDownCounter(name, metric.WithUnit(in.Unit))
			if err == nil || expectErr {
				syncs[i].addF = x.Add
			}
		case in.Kind == kHist && !in.Float:
			var x metric.Int64Histogram
			x, err = meter.Int64Histogram(name, metric.WithUnit(in.Unit))
			if err == nil || expectErr {
				syncs[i].recI = x.Record
			}
		case in.Kind == kHist:
			var x metric.Float64Histogram
			x, err = meter.Float64Histogram(name, metric.WithUnit(in.Unit))
			if err == nil || expectErr {
				syncs[i].recF = x.Record
			}
		case in.Kind == kGauge && !in.Float:
			var x metric.Int64Gauge
			x, err = meter.Int64Gauge(name, metric.WithUnit(in.Unit))
			if err == nil || expectErr {
				syncs[i].recI = x.Record
			}
		case in.Kind == kGauge:
			var x metric.Float64Gauge
			x, err = meter.Float64Gauge(name, metric.WithUnit(in.Unit))
			if err == nil || expectErr {
				syncs[i].recF = x.Record
			}
		case !in.Float:
			cb := func(_ context.Context, o metric.Int64Observer) error {
				observeI(i, func(v int64, s metric.MeasurementOption) { o.Observe(v, s) })
				return nil
			}
			var x metric.Int64Observable
			switch in.Kind {
			case kOCounter:
				o := []metric.Int64ObservableCounterOption{metric.WithUnit(in.Unit)}
				if !c.MultiCB {
					o = append(o, metric.WithInt64Callback(cb))
				}
				x, err = meter.Int64ObservableCounter(name, o...)
			case kOUpDown:
				o := []metric.Int64ObservableUpDownCounterOption{metric.WithUnit(in.Unit)}
				if !c.MultiCB {
					o = append(o, metric.WithInt64Callback(cb))
				}
				x, err = meter.Int64ObservableUpDownCounter(name, o...)
			default:
				o := []metric.Int64ObservableGaugeOption{metric.WithUnit(in.Unit)}
				if !c.MultiCB {
					o = append(o, metric.WithInt64Callback(cb))
				}
				x, err = meter.Int64ObservableGauge(name, o...)
			}
			obsI[i] = x
			allObs = append(allObs, x)
		default:
			cb := func(_ context.Context, o metric.Float64Observer) error {
				observeF(i, func(v float64, s metric.MeasurementOption) { o.Observe(v, s) })
				return nil
			}
			var x metric.Float64Observable
			switch in.Kind {
			case kOCounter:
				o := []metric.Float64ObservableCounterOption{metric.WithUnit(in.Unit)}
				if !c.MultiCB {
					o = append(o, metric.WithFloat64Callback(cb))
				}
				x, err = meter.Float64ObservableCounter(name, o...)
			case kOUpDown:
				o := []metric.Float64ObservableUpDownCounterOption{metric.WithUnit(in.Unit)}
				if !c.MultiCB {
					o = append(o, metric.WithFloat64Callback(cb))
				}
				x, err = meter.Float64ObservableUpDownCounter(name, o...)
			default:
				o := []metric.Float64ObservableGaugeOption{metric.WithUnit(in.Unit)}
				if !c.MultiCB {
					o = append(o, metric.WithFloat64Callback(cb))
				}
				x, err = meter.Float64ObservableGauge(name, o...)
			}
			obsF[i] = x
			allObs = append(allObs, x)
		}
		if err != nil && !expectErr {
			bad("setup_error", "creating %s %s: %v", kindNames[in.Kind], name, err)
			return vs, info
		}
		if err == nil && expectErr {
			bad("incompatible_view_not_reported", "creating %s %s reported no error although a matching view asks for an incompatible aggregation", kindNames[in.Kind], name)
		}
		if expectErr {
			info.Class("instrument_with_incompatible_view")
		}
	}
	// second handles of instruments the program requests twice
	syncs2 := make([]syncInst, len(c.Insts))
	for i, in := range c.Insts {
		if in.Again == 0 || observable(in.Kind) {
			continue
		}
		name := instName(i)
		if in.Again == 2 {
			name = strings.ToUpper(name)
		}
		expectErr := false
		for _, v := range c.Views {
			if v.Incompat && v.matches(i, in) && !aggCompatible(v.Agg, in.Kind) {
				expectErr = true
			}
		}
		s2, err := newSync(meter, name, in)
		if err != nil && !expectErr {
			bad("setup_error", "requesting %s %s a second time: %v", kindNames[in.Kind], name, err)
			return vs, info
		}
		syncs2[i] = s2
		info.Class(fmt.Sprintf("instrument_requested_twice/%d", in.Again))
	}
	if c.MultiCB && len(allObs) > 0 {
		reg, err := meter.RegisterCallback(func(_ context.Context, o metric.Observer) error {
			for i := range c.Insts {
				if x, ok := obsI[i]; ok {
					observeI(i, func(v int64, s metric.MeasurementOption) { o.ObserveInt64(x, v, s) })
				}
				if x, ok := obsF[i]; ok {
					observeF(i, func(v float64, s metric.MeasurementOption) { o.ObserveFloat64(x, v, s) })
				}
			}
			return nil
		}, allObs...)
		if err != nil {
			bad("setup_error", "RegisterCallback: %v", err)
			return vs, info
		}
		defer func() { _ = reg.Unregister() }()
	}

	if pre != nil && pre.afterSetup != nil {
		pre.afterSetup()
	}
	models := resolveAll(c, limit)

	// ---- history ----
	collections := 0
	var retainedRM []*metricdata.ResourceMetrics
	var retainedFP, retainedAt []string
	skippedCollect, secondHandleUsed := false, false
	reused := make([]*metricdata.ResourceMetrics, len(readers))
	for ci := range c.Cycles {
		cy := &c.Cycles[ci]
		for _, op := range cy.Ops {
			in := c.Insts[op.Inst]
			s := syncs[op.Inst]
			if op.H && in.Again != 0 {
				s = syncs2[op.Inst]
				secondHandleUsed = true
			}
			o := setOpt(op.Set)
			switch {
			case s.addI != nil:
				s.addI(ctx, op.K, o)
			case s.addF != nil:
				s.addF(ctx, opValue(op, true), o)
			case s.recI != nil:
				s.recI(ctx, op.K, o)
			case s.recF != nil:
				s.recF(ctx, opValue(op, true), o)
			}
			for _, m := range models {
				for _, st := range m.feeds[op.Inst] {
					st.measure(op.Set, c.Pool[op.Set], rawKeys[op.Set], opValue(op, in.Float))
				}
			}
		}
		cur = cy
		for r, rd := range readers {
			if !cy.Collect[r] {
				skippedCollect = true
				continue
			}
			m := models[r]
			// the callbacks of this reader's pipeline run now: instruments in
			// creation order, each reporting its observations in order.
			for i, in := range c.Insts {
				if !observable(in.Kind) {
					continue
				}
				for _, op := range cy.Obs {
					if op.Inst != i {
						continue
					}
					for _, st := range m.feeds[i] {
						st.measure(op.Set, c.Pool[op.Set], rawKeys[op.Set], opValue(op, in.Float))
					}
				}
			}
			// each collection gets its own ResourceMetrics, which is kept: what
			// a Collect returned must not change when more is measured/collected
			// ... unless the reader reuses one ResourceMetrics for all its
			// collections: then each Collect must replace what the last one left
			rmp := &metricdata.ResourceMetrics{}
			reuse := r < len(c.Reuse) && c.Reuse[r]
			if reuse {
				if reused[r] == nil {
					reused[r] = rmp
				}
				rmp = reused[r]
			}
			if err := rd.Collect(ctx, rmp); err != nil {
				bad("setup_error", "cycle %d reader %d: Collect: %v", ci, r, err)
				return vs, info
			}
			rm := *rmp
			if !reuse {
				retainedRM = append(retainedRM, rmp)
				retainedFP = append(retainedFP, fmt.Sprintf("%+v", rmp.ScopeMetrics))
				retainedAt = append(retainedAt, fmt.Sprintf("cycle %d reader %d", ci, r))
			}
			collections++
			got, err := readMetrics(&rm)
			if err != nil {
				bad("setup_error", "cycle %d reader %d: %v", ci, r, err)
				return vs, info
			}
			compare(fmt.Sprintf("cycle %d reader %d(mode %d)", ci, r, c.Readers[r]), m, got, limit, bad)
		}
	}

	for i, rmp := range retainedRM {
		if now := fmt.Sprintf("%+v", rmp.ScopeMetrics); now != retainedFP[i] {
			bad("collected_data_changed_later", "the data returned by Collect in %s changed after later measurements / collections:\nat collection time: %s\nnow:                %s", retainedAt[i], retainedFP[i], now)
			break
		}
	}

	// ---- classification ----
	overflow, merge, multiView := false, false, false
	for mi, m := range models {
		for i := range c.Insts {
			n, live := 0, 0
			for _, v := range c.Views {
				if v.matches(i, c.Insts[i]) {
					n++
					if v.Agg != vaDrop {
						live++
					}
				}
			}
			if n >= 2 {
				multiView = true
			}
			info.ClassIf(len(m.feeds[i]) >= 2, "instrument_feeds_>=2_streams")
			info.ClassIf(live > len(m.feeds[i]) && len(m.feeds[i]) > 0, "matching_views_give_identical_stream(counted once)")
			info.ClassIf(n >= 1 && len(m.feeds[i]) == 0, "instrument_fully_dropped")
		}
		for _, s := range m.streams {
			if s.undetermined {
				info.Class("undetermined_stream(not asserted)")
				continue
			}
			if s.agg.kind == aDrop {
				info.ClassIf(!s.readerChosen, "drop_view")
				info.ClassIf(s.readerChosen, "reader_selector_drops_stream")
				continue
			}
			info.ClassIf(s.readerChosen, "reader_selector_reaggregates_stream/"+aggNames[s.agg.kind])
			info.ClassIf(s.explicitDefault, "view_explicit_default_overrides_reader_selector")
			info.ClassIf(s.explicitDefault && s.scopeEver, "view_explicit_default_overrides_reader_selector(with measurements)")
			for _, src := range s.sources {
				ra := c.selectorOf(mi, c.Insts[src].Kind)
				info.ClassIf(s.explicitDefault && ra == raDrop && s.scopeEver, "view_explicit_default_vs_reader_drop(with measurements)")
				info.ClassIf(s.explicitDefault && ra != raDrop && s.scopeEver, "view_explicit_default_vs_reader_other_aggregation(with measurements)")
			}
			for _, cl := range s.classes {
				info.Class(cl)
			}
			overflow = overflow || s.sawOverflow
			merge = merge || s.sawMerge
			info.ClassIf(s.sawOverflow, "overflow/"+aggNames[s.agg.kind])
			info.ClassIf(s.sawOverflow && s.delta, "overflow_delta")
			info.ClassIf(s.sawOverflow && !s.delta, "overflow_cumulative")
			info.ClassIf(s.sawOverflow && s.precomputed(), "overflow_precomputed")
			info.ClassIf(s.sawMerge, "filter_merges_sets")
			if s.f.valueDependent() {
				both := false
				for k := range s.vfKept {
					both = both || s.vfDropped[k]
				}
				info.Class("value_dependent_filter")
				info.ClassIf(both, "value_dependent_filter_keeps_and_drops_values_of_one_key")
				info.ClassIf(both && s.sawOverflow, "value_dependent_filter_both_sides_and_overflow")
				info.ClassIf(both && s.sawMerge, "value_dependent_filter_both_sides_and_merge")
			}
			info.ClassIf(s.sawMerge && s.sawOverflow, "filter_merge_and_overflow")
			info.ClassIf(s.explicitOvf && limit > 0, "explicit_overflow_set_with_limit")
			info.ClassIf(s.ovfSlot, "explicit_overflow_set_among_first_L-1")
			info.ClassIf(s.filteredToOvf && limit > 0, "filtered_set_equals_overflow_set")
			info.ClassIf(s.flipped, "set_identified_in_one_lifetime_overflown_in_another")
			info.ClassIf(len(s.sources) >= 2, "instruments_merged_into_one_stream")
			info.ClassIf(s.view >= 0 && c.Views[s.view].Rename != "", "renamed_stream")
			info.ClassIf(s.agg.kind == aHist && s.kind != kHist, "reaggregated_to_histogram")
			info.ClassIf(s.agg.kind == aExpo, "reaggregated_to_exponential")
			info.ClassIf(s.agg.kind == aSum && s.kind == kHist, "histogram_reaggregated_to_sum")
			info.ClassIf(s.precomputed() && s.delta && s.agg.kind == aSum, "precomputed_sum_delta")
		}
		names := map[string]int{}
		for _, s := range m.streams {
			if s.agg.kind != aDrop {
				names[strings.ToLower(s.name)]++
			}
		}
		for _, n := range names {
			info.ClassIf(n >= 2, "one_name_distinct_identities")
		}
	}
	for _, in := range c.Insts {
		info.Class("kind/" + kindNames[in.Kind])
	}
	for _, v := range c.Views {
		n := 0
		for i, in := range c.Insts {
			if v.matches(i, in) {
				n++
			}
		}
		info.ClassIf(n == 0, "view_matches_nothing")
		info.ClassIf(n >= 2, "view_matches_several_instruments")
		info.ClassIf(v.NameMode == nmPattern && v.Pattern != "*" && n > 0, "view_by_wildcard_pattern")
		info.ClassIf(n > 0 && (v.ByKind || v.ByUnit) && v.NameMode != nmNone, "view_by_combined_criteria")
		info.ClassIf(n > 0 && v.Unit != "", "view_changes_unit")
	}
	switch {
	case limit <= 0:
		info.Class("limit/unlimited")
	case limit <= 12:
		info.Class(fmt.Sprintf("limit/%d", limit))
	case limit <= 33:
		info.Class("limit/13..33")
	default:
		info.Class("limit/>33(never reached)")
	}
	sp := envSpelling(c.Env)
	info.Class("limit_spelling/" + sp)
	info.ClassIf(limit > 0 && sp != "canonical" && overflow, "limit_spelling/"+sp+"/with_overflow")
	info.ClassIf(limit >= 8 && limit <= 33 && overflow, "limit_8..33_with_overflow")
	info.ClassIf(len(c.Readers) == 2, "two_readers")
	info.ClassIf(len(c.Selectors) > 0, "reader_aggregation_selector")
	if len(models) == 2 {
		for id, a := range models[0].byID {
			if b := models[1].byID[id]; b != nil && (a.agg.kind == aDrop) != (b.agg.kind == aDrop) && (a.readerChosen || b.readerChosen) {
				info.Class("stream_dropped_for_one_reader_only")
			}
			if b := models[1].byID[id]; b != nil && a.agg.kind != aDrop && b.agg.kind != aDrop && a.agg != b.agg {
				info.Class("stream_aggregated_differently_per_reader")
			}
		}
	}
	typed := false
	for _, set := range c.Pool {
		for _, kv := range set {
			typed = typed || kv.T == "float" || len(kv.T) > 4 || (kv.K == "zz" && kv.T == "str")
		}
	}
	info.ClassIf(typed, "pool_with_float/slice/type-only_near_miss_values")
	info.ClassIf(skippedCollect, "reader_skips_a_cycle")
	info.ClassIf(secondHandleUsed, "measurements_through_both_handles_of_one_instrument")
	info.ClassIf(len(c.Reuse) > 0, "reader_reuses_one_ResourceMetrics")
	info.ClassIf(len(c.Reuse) > 0 && overflow, "reader_reuses_one_ResourceMetrics/with_overflow")
	info.ClassIf(c.MultiCB && len(allObs) > 0, "multi_instrument_callback")
	info.ClassIf(collections >= 3, "collections>=3")
	info.NonTrivial = overflow || merge || multiView
	info.Classes = uniq(info.Classes)
	return vs, info
}

func uniq(in []string) []string {
	seen := map[string]bool{}
	var out []string
	for _, s := range in {
		if !seen[s] {
			seen[s] = true
			out = append(out, s)
		}
	}
	return out
}

// compare evaluates one collection of one reader against the model.
func compare(where string, m *readerModel, got []gotMetric, limit int, bad func(kind, format string, a ...any)) {
	byKey := map[string][]gotMetric{}
	for _, g := range got {
		byKey[g.matchKey] = append(byKey[g.matchKey], g)
	}
	expectedKeys := map[string]bool{}
	skipNames := map[string]bool{}
	for _, s := range m.streams {
		if s.undetermined {
			skipNames[strings.ToLower(s.name)] = true
		}
	}
	for _, s := range m.streams {
		if s.agg.kind == aDrop {
			continue
		}
		exp, scopeSum, scopeCount := s.collect() // always: advances the model
		if s.undetermined || skipNames[strings.ToLower(s.name)] {
			continue
		}
		expectedKeys[s.matchKey] = true
		gs := byKey[s.matchKey]
		desc := fmt.Sprintf("%s: stream %q (%s of %s, sources %v, filter %s, limit %d)", where, s.name, aggNames[s.agg.kind], kindNames[s.kind], s.sources, s.fsig, limit)
		if len(gs) > 1 {
			bad("stream_duplicated", "%s: reported %d times in one collection", desc, len(gs))
			continue
		}
		var pts []gotPoint
		if len(gs) == 1 {
			pts = gs[0].pts
		}
		if len(pts) == 0 {
			if len(exp) > 0 {
				bad("stream_missing", "%s: not reported, model has %d points %s", desc, len(exp), firstFew(keysOf(exp)))
			}
			continue
		}
		if limit > 0 && len(pts) > limit {
			bad("too_many_points", "%s: %d data points", desc, len(pts))
		}
		gotBy := map[string]gotPoint{}
		dup := false
		for _, p := range pts {
			if _, ok := gotBy[p.key]; ok {
				bad("duplicate_attribute_set", "%s: attribute set %s reported twice", desc, p.key)
				dup = true
			}
			gotBy[p.key] = p
		}
		if dup {
			continue
		}
		// conservation, from totals that never looked at attributes
		switch {
		case s.agg.kind == aSum && !(s.precomputed() && s.delta):
			var tot float64
			for _, p := range pts {
				tot += p.val
			}
			if !feq(tot, scopeSum) {
				bad("conservation", "%s: reported points add up to %v, the measurements in scope to %v", desc, tot, scopeSum)
			}
		case s.agg.kind == aHist || s.agg.kind == aExpo:
			var cnt uint64
			var tot float64
			for _, p := range pts {
				cnt += p.count
				tot += p.sum
			}
			if cnt != scopeCount {
				bad("conservation", "%s: reported counts add up to %d, %d measurements in scope", desc, cnt, scopeCount)
			}
			if !s.noSum() && !feq(tot, scopeSum) {
				bad("conservation", "%s: reported sums add up to %v, the measurements in scope to %v", desc, tot, scopeSum)
			}
		}
		// the statement's rule, point by point
		var missing, extra []string
		for k := range exp {
			if _, ok := gotBy[k]; !ok {
				missing = append(missing, k)
			}
		}
		for k := range gotBy {
			if _, ok := exp[k]; !ok {
				extra = append(extra, k)
			}
		}
		if len(missing)+len(extra) > 0 {
			sort.Strings(missing)
			sort.Strings(extra)
			bad("attribute_sets", "%s: reported sets differ from the rule: missing %s, unexpected %s", desc, firstFew(missing), firstFew(extra))
			continue
		}
		for _, k := range keysOf(exp) {
			e, g := exp[k], gotBy[k]
			switch s.agg.kind {
			case aSum, aLast:
				if !feq(g.val, e.val) {
					bad("point_value", "%s: set %s reports %v, rule gives %v", desc, k, g.val, e.val)
				}
			default:
				diffs, cls := checkHistPoint(s.agg, s.noSum(), g, e.f, k == overflowKey)
				for _, d := range diffs {
					bad("point_value", "%s: set %s reports %s", desc, k, d)
				}
				s.classes = append(s.classes, cls...)
			}
		}
	}
	for _, g := range got {
		if expectedKeys[g.matchKey] || skipNames[strings.ToLower(g.name)] || len(g.pts) == 0 {
			continue
		}
		if m.dropped[strings.ToLower(g.name)] {
			bad("drop_exported", "%s: metric %q (%s) is reported although its only definition uses the drop aggregation", where, g.name, g.matchKey)
		} else {
			bad("unexpected_stream", "%s: metric %q (%s) is reported but no view/instrument produces it", where, g.name, g.matchKey)
		}
	}
}

// firstFew renders a (sorted) list, cut after eight entries.
func firstFew(l []string) string {
	if len(l) <= 8 {
		return fmt.Sprint(l)
	}
	return fmt.Sprintf("%v ... (%d in all)", l[:8], len(l))
}

func keysOf(m map[string]expPoint) []string {
	out := make([]string, 0, len(m))
	for k := range m {
		out = append(out, k)
	}
	sort.Strings(out)
	return out
}

const ruleCommon = "history = >=3 cycles of synchronous measurements / callback observations over a pool of attribute sets (structured a,b,c sets, the overflow set itself and near misses), then Collect on one or two ManualReaders (delta / cumulative / mixed; a reader may skip a cycle; about half of the readers carry an aggregation selector answering per kind with the default / nil / AggregationDefault / drop / exponential / other buckets / sum / last value as far as the kind accepts it); limit from the environment: unset, or an integer L (mostly 1,2,3,5,10, any of 1..12, sometimes 8..33, rarely unreachable) written plainly / zero-padded / with a plus sign, rarely a non-positive integer in any spelling or a value that is no integer (both: no limit); pool sizes biased to L-1, L, L+1; exactly summable values k*2^e; " +
	"non-trivial = in some stream more than L distinct filtered sets arrive within one lifetime, or an attribute filter merges >= 2 distinct sets, or >= 2 views match one instrument; distinct = distinct case encodings"

func TestLimitModel(t *testing.T) {
	vk.Run(t, vk.Spec[Case]{
		Property: "C12", Check: "limit_model",
		Rule:  "1-2 instruments of any kind / number type, optionally one wildcard allow/deny-key filter view, pools of up to 30 sets, up to 40 measurements and 14 observations per cycle; " + ruleCommon,
		Quick: 13000, Thorough: 200000,
		Gen: genLimit, Run: run,
	})
	t.Log(statLine())
}

func TestViewsModel(t *testing.T) {
	vk.Run(t, vk.Spec[Case]{
		Property: "C12", Check: "views_model",
		Rule:  "1-4 instruments (often twins differing in one identifying field), 0-6 views selected by exact name / wildcard pattern / kind / unit / combinations: attribute filters, renames (name, unit), re-aggregations (sum<->histogram, exponential, explicit AggregationDefault{} - biased towards instruments whose kind a reader re-aggregates or drops), drop, several views per instrument, verbatim duplicate views, two instruments renamed to one name (same or different identity), kind/unit-wide renames; conflicting duplicate definitions of one stream are removed; pools of up to 12 sets; " + ruleCommon,
		Quick: 13000, Thorough: 200000,
		Gen: genViewsCase, Run: run,
	})
	t.Log(statLine())
}
