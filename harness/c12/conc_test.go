package c12

// Concurrent sub-check of C12: goroutines released together each record the
// FIRST measurement of their own new attribute set while few (0, 1, 2, ...)
// identity slots are left under a cardinality limit. The oracle is
// schedule-independent: it does not predict which racing sets win the last
// slots, it checks what every linearisation of the statement's rule implies.

import (
	"context"
	"fmt"
	"math"
	"os"
	"runtime"
	"sort"
	"strconv"
	"testing"

	"go.opentelemetry.io/otel/attribute"
	"go.opentelemetry.io/otel/metric"
	sdkmetric "go.opentelemetry.io/otel/sdk/metric"
	"go.opentelemetry.io/otel/sdk/metric/exemplar"
	"go.opentelemetry.io/otel/sdk/metric/metricdata"
	"go.opentelemetry.io/otel/sdk/resource"
	"go.opentelemetry.io/otel/verif/internal/vk"
	"pgregory.net/rapid"
)

// CInst is one synchronous instrument "inst<index>" with one exact-name view.
type CInst struct {
	Kind   int  `json:"kind"` // kCounter, kUpDown, kHist, kGauge
	Float  bool `json:"float"`
	Agg    int  `json:"agg"`    // vaNone, vaHist, vaExpo, vaSum (histogram only)
	Bounds int  `json:"bounds"` // vaHist
}

// CRound: Prefill new sets are recorded one after the other, then
// len(Perturb) goroutines are released together; goroutine g perturbs the
// schedule (vk.Perturb), records the first measurement of its own new set on
// every instrument and then Extra[g] more measurements of the same set;
// after all returned, the readers whose flag is set collect.
type CRound struct {
	Prefill int    `json:"prefill"`
	Perturb []int  `json:"perturb"`
	Extra   []int  `json:"extra"`
	Collect []bool `json:"collect"`
	// NF[g] / PreNF[p]: the FIRST measurement of racer g's / of the p-th
	// prefilled set is non-finite on the float64 instruments: 0 finite,
	// 1 +Inf, 2 NaN, 3 -Inf (+Inf where negative values are not allowed).
	NF    []int `json:"nf,omitempty"`
	PreNF []int `json:"pre_nf,omitempty"`
}

// ConcCase is one generated concurrent program.
type ConcCase struct {
	Env     string   `json:"env"`     // the limit 1..12 in any spelling of the integer
	Readers []int    `json:"readers"` // temporality modes as in Case
	Insts   []CInst  `json:"insts"`
	Rounds  []CRound `json:"rounds"`
	// ResHook perturbs the schedule whenever the SDK asks for the exemplar
	// reservoir of a new attribute set (Stream.ExemplarReservoirProviderSelector,
	// public API): 0 = the default selector is left alone, otherwise the
	// default provider is wrapped with vk.Perturb(ResHook).
	ResHook int `json:"res_hook"`
	Runs    int `json:"runs"` // the program is executed this often (fresh SDK objects each time)
}

func normalizeConc(c ConcCase) ConcCase {
	o := ConcCase{ResHook: ((c.ResHook % 4) + 4) % 4, Runs: c.Runs}
	if o.Runs < 1 {
		o.Runs = 1
	}
	if o.Runs > 8 {
		o.Runs = 8
	}
	l := parseLimit(c.Env)
	if l < 1 {
		l = 1
	}
	if l > 12 {
		l = 12
	}
	o.Env = strconv.Itoa(l)
	if parseLimit(c.Env) == l && len(c.Env) <= 8 {
		o.Env = c.Env // any spelling of the integer l (zero-padded, plus sign)
	}
	for _, m := range c.Readers {
		if len(o.Readers) < 2 {
			o.Readers = append(o.Readers, ((m%3)+3)%3)
		}
	}
	if len(o.Readers) == 0 {
		o.Readers = []int{0}
	}
	for _, in := range c.Insts {
		in.Kind = ((in.Kind % 4) + 4) % 4
		switch in.Agg {
		case vaNone, vaHist, vaExpo:
		case vaSum:
			if in.Kind != kHist {
				in.Agg = vaNone
			}
		default:
			in.Agg = vaNone
		}
		in.Bounds = ((in.Bounds % len(boundsTable)) + len(boundsTable)) % len(boundsTable)
		if len(o.Insts) < 4 {
			o.Insts = append(o.Insts, in)
		}
	}
	if len(o.Insts) == 0 {
		o.Insts = []CInst{{}}
	}
	for _, r := range c.Rounds {
		n := CRound{Prefill: r.Prefill}
		if n.Prefill < 0 {
			n.Prefill = 0
		}
		if n.Prefill > 12 {
			n.Prefill = 12
		}
		for g, p := range r.Perturb {
			if g >= 8 {
				break
			}
			n.Perturb = append(n.Perturb, ((p%5)+5)%5)
			e := 0
			if g < len(r.Extra) {
				e = ((r.Extra[g] % 3) + 3) % 3
			}
			n.Extra = append(n.Extra, e)
		}
		anyNF := false
		for _, x := range append(append([]int{}, r.NF...), r.PreNF...) {
			anyNF = anyNF || x%4 != 0
		}
		if anyNF {
			for g := range n.Perturb {
				x := 0
				if g < len(r.NF) {
					x = ((r.NF[g] % 4) + 4) % 4
				}
				n.NF = append(n.NF, x)
			}
			for p := 0; p < n.Prefill; p++ {
				x := 0
				if p < len(r.PreNF) {
					x = ((r.PreNF[p] % 4) + 4) % 4
				}
				n.PreNF = append(n.PreNF, x)
			}
		}
		if n.Perturb == nil {
			n.Perturb, n.Extra = []int{}, []int{}
		}
		for i := range o.Readers {
			n.Collect = append(n.Collect, i >= len(r.Collect) || r.Collect[i])
		}
		if len(o.Rounds) < 8 {
			o.Rounds = append(o.Rounds, n)
		}
	}
	if len(o.Rounds) == 0 {
		o.Rounds = []CRound{{Perturb: []int{}, Extra: []int{}, Collect: make([]bool, len(o.Readers))}}
	}
	// the last round always collects everywhere
	last := &o.Rounds[len(o.Rounds)-1]
	for i := range last.Collect {
		last.Collect[i] = true
	}
	return o
}

func genConc(t *rapid.T) ConcCase {
	l := rapid.SampledFrom([]int{1, 2, 2, 3, 3, 4, 5, 6, 2, 3, 4, 8, 9, 10}).Draw(t, "limit")
	c := ConcCase{Env: spellLimit(t, l), Readers: genReaders(t), Runs: 2}
	c.ResHook = rapid.SampledFrom([]int{0, 0, 0, 1, 1, 1, 1, 2}).Draw(t, "res_hook")
	ni := rapid.IntRange(1, 3).Draw(t, "ninst")
	for i := 0; i < ni; i++ {
		in := CInst{Kind: rapid.SampledFrom([]int{kCounter, kUpDown, kHist, kHist, kGauge}).Draw(t, "kind"), Float: rapid.Bool().Draw(t, "float")}
		aggs := []int{vaNone, vaNone, vaHist, vaExpo}
		if in.Kind == kHist {
			aggs = append(aggs, vaSum)
		}
		in.Agg = rapid.SampledFrom(aggs).Draw(t, "agg")
		if in.Agg == vaHist {
			in.Bounds = rapid.IntRange(0, len(boundsTable)-1).Draw(t, "bounds")
		}
		c.Insts = append(c.Insts, in)
	}
	// occupancy of a table that is never reset / reset whenever reader 0 collects
	occCum, occDelta := 0, 0
	nonFinite := rapid.IntRange(0, 2).Draw(t, "use_nonfinite") == 0
	nr := rapid.IntRange(2, 5).Draw(t, "rounds")
	for r := 0; r < nr; r++ {
		free := rapid.SampledFrom([]int{0, 1, 1, 1, 2, 2, 3}).Draw(t, "free_slots")
		occ := occDelta
		if rapid.Bool().Draw(t, "target_cumulative") {
			occ = occCum
		}
		pre := (l - 1) - free - occ
		if pre < 0 {
			pre = 0
		}
		g := rapid.IntRange(2, 8).Draw(t, "goroutines")
		rd := CRound{Prefill: pre}
		for i := 0; i < g; i++ {
			rd.Perturb = append(rd.Perturb, rapid.SampledFrom([]int{0, 0, 0, 0, 1, 1, 1, 2}).Draw(t, "perturb"))
			rd.Extra = append(rd.Extra, rapid.SampledFrom([]int{0, 0, 1, 2}).Draw(t, "extra"))
		}
		if nonFinite {
			nfGen := rapid.SampledFrom([]int{0, 0, 0, 0, 0, 1, 2, 3})
			for i := 0; i < g; i++ {
				rd.NF = append(rd.NF, nfGen.Draw(t, "nf"))
			}
			for i := 0; i < pre; i++ {
				rd.PreNF = append(rd.PreNF, nfGen.Draw(t, "pre_nf"))
			}
		}
		for range c.Readers {
			rd.Collect = append(rd.Collect, r == nr-1 || rapid.IntRange(0, 3).Draw(t, "collect") != 0)
		}
		occCum += pre + g
		occDelta += pre + g
		if rd.Collect[0] {
			occDelta = 0
		}
		c.Rounds = append(c.Rounds, rd)
	}
	return normalizeConc(c)
}

// ---------------------------------------------------------------------
// what was measured (schedule independent)

type cset struct {
	id    int
	key   string
	phase int // sets with a smaller phase were first measured strictly before
	fold      // its measurements, in the order its (single) goroutine made them
}

// cstream is one (reader, instrument) stream.
type cstream struct {
	inst       int
	agg        effAgg
	delta      bool
	life       map[int]*cset // sets measured in the current lifetime
	identified map[int]bool  // cumulative streams: sets seen with their own identity so far
}

func concValue(in CInst, setID, j int) float64 {
	k := 1 + (setID*7+j*3)%9
	if in.Kind == kUpDown || in.Kind == kGauge {
		k -= 4
	}
	if in.Float {
		return float64(k) / 4
	}
	return float64(k)
}

// concValueNF is concValue, except that the first measurement of a set may
// be non-finite on float64 instruments.
func concValueNF(in CInst, setID, j int, nfs []int, idx int) float64 {
	if j == 0 && in.Float && idx < len(nfs) {
		switch nfs[idx] {
		case 1:
			return math.Inf(1)
		case 2:
			return math.NaN()
		case 3:
			if in.Kind == kCounter || in.Kind == kHist {
				return math.Inf(1)
			}
			return math.Inf(-1)
		}
	}
	return concValue(in, setID, j)
}

func resHookSelector(kind int) sdkmetric.ExemplarReservoirProviderSelector {
	return func(agg sdkmetric.Aggregation) exemplar.ReservoirProvider {
		p := sdkmetric.DefaultExemplarReservoirProviderSelector(agg)
		return func(a attribute.Set) exemplar.Reservoir {
			vk.Perturb(kind)
			return p(a)
		}
	}
}

func concOnce(c ConcCase, run int, info *vk.Info, bad func(kind, format string, a ...any)) {
	limit := parseLimit(c.Env)
	ctx := context.Background()
	readers := make([]*sdkmetric.ManualReader, len(c.Readers))
	opts := []sdkmetric.Option{sdkmetric.WithResource(resource.Empty())}
	for i, mode := range c.Readers {
		readers[i] = sdkmetric.NewManualReader(sdkmetric.WithTemporalitySelector(temporalitySelector(mode)))
		opts = append(opts, sdkmetric.WithReader(readers[i]))
	}
	for i, in := range c.Insts {
		mask := sdkmetric.Stream{}
		switch in.Agg {
		case vaHist:
			mask.Aggregation = sdkmetric.AggregationExplicitBucketHistogram{Boundaries: append([]float64{}, boundsTable[in.Bounds]...)}
		case vaExpo:
			mask.Aggregation = sdkmetric.AggregationBase2ExponentialHistogram{MaxSize: 160, MaxScale: 20}
		case vaSum:
			mask.Aggregation = sdkmetric.AggregationSum{}
		}
		if c.ResHook != 0 {
			mask.ExemplarReservoirProviderSelector = resHookSelector(c.ResHook)
		}
		opts = append(opts, sdkmetric.WithView(sdkmetric.NewView(sdkmetric.Instrument{Name: instName(i)}, mask)))
	}
	mp := sdkmetric.NewMeterProvider(opts...)
	defer func() { _ = mp.Shutdown(ctx) }()
	meter := mp.Meter("c12")

	rec := make([]func(v float64, o metric.MeasurementOption), len(c.Insts))
	for i, in := range c.Insts {
		var err error
		name := instName(i)
		switch {
		case in.Kind == kCounter && !in.Float:
			var x metric.Int64Counter
			if x, err = meter.Int64Counter(name); err == nil {
				rec[i] = func(v float64, o metric.MeasurementOption) { x.Add(ctx, int64(v), o) }
			}
		case in.Kind == kCounter:
			var x metric.Float64Counter
			if x, err = meter.Float64Counter(name); err == nil {
				rec[i] = func(v float64, o metric.MeasurementOption) { x.Add(ctx, v, o) }
			}
		case in.Kind == kUpDown && !in.Float:
			var x metric.Int64UpDownCounter
			if x, err = meter.Int64UpDownCounter(name); err == nil {
				rec[i] = func(v float64, o metric.MeasurementOption) { x.Add(ctx, int64(v), o) }
			}
		case in.Kind == kUpDown:
			var x metric.Float64UpDownCounter
			if x, err = meter.Float64UpDownCounter(name); err == nil {
				rec[i] = func(v float64, o metric.MeasurementOption) { x.Add(ctx, v, o) }
			}
		case in.Kind == kHist && !in.Float:
			var x metric.Int64Histogram
			if x, err = meter.Int64Histogram(name); err == nil {
				rec[i] = func(v float64, o metric.MeasurementOption) { x.Record(ctx, int64(v), o) }
			}
		case in.Kind == kHist:
			var x metric.Float64Histogram
			if x, err = meter.Float64Histogram(name); err == nil {
				rec[i] = func(v float64, o metric.MeasurementOption) { x.Record(ctx, v, o) }
			}
		case !in.Float:
			var x metric.Int64Gauge
			if x, err = meter.Int64Gauge(name); err == nil {
				rec[i] = func(v float64, o metric.MeasurementOption) { x.Record(ctx, int64(v), o) }
			}
		default:
			var x metric.Float64Gauge
			if x, err = meter.Float64Gauge(name); err == nil {
				rec[i] = func(v float64, o metric.MeasurementOption) { x.Record(ctx, v, o) }
			}
		}
		if err != nil {
			bad("setup_error", "creating %s %s: %v", kindNames[in.Kind], name, err)
			return
		}
	}

	// streams[reader][instrument]
	streams := make([][]*cstream, len(c.Readers))
	for r, mode := range c.Readers {
		for i, in := range c.Insts {
			streams[r] = append(streams[r], &cstream{inst: i, agg: effective(in.Agg, in.Bounds, in.Kind, raDefault),
				delta: deltaFor(mode, in.Kind), life: map[int]*cset{}, identified: map[int]bool{}})
		}
	}

	nextSet, phase := 0, 0
	newSet := func() (int, attribute.Set, string) {
		id := nextSet
		nextSet++
		kv := []vk.KV{{K: "id", T: "int", I: int64(id)}}
		return id, attribute.NewSet(vk.ToAttrs(kv)...), renderKVs(kv)
	}
	// note books a measurement in the model (single-threaded: before / after the race)
	note := func(id int, key string, ph int, i int, v float64) {
		for r := range streams {
			st := streams[r][i]
			if nonFiniteValue(v) {
				if st.agg.kind == aExpo {
					// pinned: ignored by the exponential aggregation (no point, no slot, no count)
					info.Class("non_finite_ignored_by_exponential_histogram(pinned)")
					continue
				}
				info.Class("non_finite_measurement/" + aggNames[st.agg.kind])
				if st.life[id] == nil {
					info.Class("set_whose_first_measurement_is_non_finite")
				}
			}
			s := st.life[id]
			if s == nil {
				s = &cset{id: id, key: key, phase: ph}
				st.life[id] = s
			}
			s.add(v)
		}
	}

	for ri, rd := range c.Rounds {
		for p := 0; p < rd.Prefill; p++ {
			id, set, key := newSet()
			phase++
			for i, in := range c.Insts {
				v := concValueNF(in, id, 0, rd.PreNF, p)
				rec[i](v, metric.WithAttributeSet(set))
				note(id, key, phase, i, v)
			}
		}
		// slots left in each stream when the race starts
		g := len(rd.Perturb)
		if g > 0 {
			for r := range streams {
				for _, st := range streams[r] {
					left := limit - 1 - len(st.life)
					switch {
					case left <= 0:
						info.Class("race_with_0_slots_left")
					case left < g:
						info.Class(fmt.Sprintf("race_with_%d_slots_left(fewer_than_racers)", min(left, 3)))
					default:
						info.Class("race_with_enough_slots")
					}
				}
			}
			phase++
			ids := make([]int, g)
			sets := make([]attribute.Set, g)
			keys := make([]string, g)
			for i := range ids {
				ids[i], sets[i], keys[i] = newSet()
			}
			vk.Parallel(g, func(gi int) {
				vk.Perturb(rd.Perturb[gi])
				o := metric.WithAttributeSet(sets[gi])
				for j := 0; j <= rd.Extra[gi]; j++ {
					for i, in := range c.Insts {
						rec[i](concValueNF(in, ids[gi], j, rd.NF, gi), o)
					}
				}
			})
			for gi := range ids {
				for j := 0; j <= rd.Extra[gi]; j++ {
					for i, in := range c.Insts {
						note(ids[gi], keys[gi], phase, i, concValueNF(in, ids[gi], j, rd.NF, gi))
					}
				}
			}
		}
		for r, reader := range readers {
			if !rd.Collect[r] {
				continue
			}
			var rm metricdata.ResourceMetrics
			if err := reader.Collect(ctx, &rm); err != nil {
				bad("setup_error", "round %d reader %d: Collect: %v", ri, r, err)
				return
			}
			got, err := readMetrics(&rm)
			if err != nil {
				bad("setup_error", "round %d reader %d: %v", ri, r, err)
				return
			}
			byName := map[string][]gotMetric{}
			for _, m := range got {
				byName[m.name] = append(byName[m.name], m)
			}
			for i, st := range streams[r] {
				where := fmt.Sprintf("run %d round %d reader %d(mode %d) %s (%s of %s, limit %d)", run, ri, r, c.Readers[r], instName(i), aggNames[st.agg.kind], kindNames[c.Insts[i].Kind], limit)
				concCompare(where, st, c.Insts[i], byName[instName(i)], limit, info, bad)
				if st.delta {
					st.life = map[int]*cset{}
				}
			}
		}
	}
}

// concCompare checks one collected stream against what every linearisation
// of the statement's rule implies.
func concCompare(where string, st *cstream, in CInst, gs []gotMetric, limit int, info *vk.Info, bad func(kind, format string, a ...any)) {
	if len(gs) > 1 {
		bad("stream_duplicated", "%s: reported %d times", where, len(gs))
		return
	}
	var pts []gotPoint
	if len(gs) == 1 {
		pts = gs[0].pts
		if gs[0].agg != st.agg.kind {
			bad("unexpected_stream", "%s: reported as %s", where, aggNames[gs[0].agg])
			return
		}
	}
	n := len(st.life)
	if len(pts) == 0 {
		if n > 0 {
			bad("stream_missing", "%s: not reported, %d sets were measured", where, n)
		}
		return
	}
	// clause 1: never more than L attribute sets in one collection
	if len(pts) > limit {
		bad("too_many_points", "%s: %d data points (%d distinct sets were measured in this lifetime)", where, len(pts), n)
	}
	byKey := map[string]*cset{}
	for _, s := range st.life {
		byKey[s.key] = s
	}
	noSum := in.Kind == kUpDown || in.Kind == kGauge
	var ovf *gotPoint
	ident := map[int]bool{}
	seen := map[string]bool{}
	var totVal, totSum float64
	var totCount uint64
	for pi := range pts {
		p := pts[pi]
		if seen[p.key] {
			bad("duplicate_attribute_set", "%s: attribute set %s reported twice", where, p.key)
			return
		}
		seen[p.key] = true
		totVal += p.val
		totSum += p.sum
		totCount += p.count
		if p.key == overflowKey {
			ovf = &pts[pi]
			continue
		}
		s := byKey[p.key]
		if s == nil {
			bad("attribute_sets", "%s: reports set %s which was not measured in this lifetime", where, p.key)
			continue
		}
		ident[s.id] = true
		// clause 3: an identified point carries exactly the measurements of its set
		switch st.agg.kind {
		case aSum:
			if !feq(p.val, s.sum) {
				bad("point_value", "%s: set %s reports %v, its measurements add up to %v", where, p.key, p.val, s.sum)
			}
		case aLast:
			if !feq(p.val, s.last) {
				bad("point_value", "%s: set %s reports %v, its last measurement is %v", where, p.key, p.val, s.last)
			}
		default:
			diffs, cls := checkHistPoint(st.agg, noSum, p, &s.fold, false)
			for _, d := range diffs {
				bad("point_value", "%s: set %s reports %s", where, p.key, d)
			}
			for _, cl := range cls {
				info.Class(cl)
			}
		}
	}
	// clause 2: conservation over all reported points
	var allSum float64
	var allCount uint64
	for _, s := range st.life {
		allSum += s.sum
		allCount += s.count
	}
	switch st.agg.kind {
	case aSum:
		if !feq(totVal, allSum) {
			bad("conservation", "%s: reported points add up to %v, the measurements in scope to %v", where, totVal, allSum)
		}
	case aHist, aExpo:
		if totCount != allCount || (!noSum && !feq(totSum, allSum)) {
			bad("conservation", "%s: reported count %d sum %v, measured count %d sum %v", where, totCount, totSum, allCount, allSum)
		}
	}
	// clause 4: the first L-1 distinct sets keep their identity, the rest is
	// folded into the overflow set. Whatever the interleaving: exactly
	// min(L-1, n) sets are identified, a set first measured strictly before
	// another one never loses against it, and the overflow point exists iff
	// some set is not identified.
	want := limit - 1
	if n < want {
		want = n
	}
	if len(ident) != want {
		bad("identified_sets", "%s: %d sets keep their identity, the rule gives %d (limit %d, %d distinct sets measured)", where, len(ident), want, limit, n)
	}
	maxIdent, minOvf := -1, int(^uint(0)>>1)
	var ovfFold fold // everything folded into the overflow point (interleaving unknown)
	for _, s := range st.life {
		if ident[s.id] {
			if s.phase > maxIdent {
				maxIdent = s.phase
			}
		} else {
			if s.phase < minOvf {
				minOvf = s.phase
			}
			ovfFold.merge(&s.fold)
		}
	}
	if len(ident) < n && minOvf < maxIdent {
		bad("first_sets_lose_identity", "%s: a set first measured in phase %d is folded into the overflow set while a set first measured later (phase %d) keeps its identity", where, minOvf, maxIdent)
	}
	if (ovf != nil) != (len(ident) < n) {
		bad("overflow_point", "%s: overflow point present=%v although %d of %d measured sets are reported with their identity", where, ovf != nil, len(ident), n)
	}
	if ovf != nil && st.agg.kind == aLast && ovfFold.vals[ovf.val] == 0 && !(math.IsNaN(ovf.val) && ovfFold.nan > 0) {
		bad("overflow_point", "%s: overflow point holds %v, which no overflowing measurement recorded", where, ovf.val)
	}
	if ovf != nil && ovfFold.count > 0 {
		// the overflow point carries exactly the measurements of the sets that
		// are not reported with their identity
		switch st.agg.kind {
		case aSum:
			if !feq(ovf.val, ovfFold.sum) {
				bad("overflow_point", "%s: overflow point reports %v, the measurements of the folded sets add up to %v", where, ovf.val, ovfFold.sum)
			}
		case aHist, aExpo:
			diffs, cls := checkHistPoint(st.agg, noSum, *ovf, &ovfFold, true)
			for _, d := range diffs {
				bad("overflow_point", "%s: overflow point reports %s", where, d)
			}
			for _, cl := range cls {
				info.Class(cl)
			}
		}
	}
	if !st.delta {
		// cumulative: the table is never reset, identities are for life
		var lost []int
		for id := range st.identified {
			if !ident[id] {
				lost = append(lost, id)
			}
		}
		if len(lost) > 0 {
			sort.Ints(lost)
			bad("identity_lost", "%s: sets %v were reported with their identity earlier and are not any more", where, lost)
		}
		for id := range ident {
			st.identified[id] = true
		}
	}
	info.ClassIf(ovf != nil, "overflow/"+aggNames[st.agg.kind])
	info.ClassIf(ovf != nil && st.delta, "overflow_delta")
	info.ClassIf(ovf != nil && !st.delta, "overflow_cumulative")
	info.ClassIf(len(pts) == limit, "exactly_L_points")
}

func runConc(c ConcCase) ([]vk.Violation, vk.Info) {
	c = normalizeConc(c)
	var vs []vk.Violation
	var info vk.Info
	bad := func(kind, format string, a ...any) {
		if len(vs) < 8 {
			vs = append(vs, vk.V(kind, format, a...))
		}
	}
	old, had := os.LookupEnv(envKey)
	os.Setenv(envKey, c.Env)
	defer func() {
		if had {
			os.Setenv(envKey, old)
		} else {
			os.Unsetenv(envKey)
		}
	}()
	for run := 0; run < c.Runs && len(vs) == 0; run++ {
		concOnce(c, run, &info, bad)
	}
	racers := 0
	for _, r := range c.Rounds {
		if len(r.Perturb) > racers {
			racers = len(r.Perturb)
		}
	}
	for _, in := range c.Insts {
		info.Class("kind/" + kindNames[in.Kind] + "/" + aggNames[effective(in.Agg, in.Bounds, in.Kind, raDefault).kind])
	}
	info.Class("limit/" + strconv.Itoa(parseLimit(c.Env)))
	info.Class("limit_spelling/" + envSpelling(c.Env))
	info.ClassIf(c.ResHook != 0, "reservoir_creation_perturbed")
	info.ClassIf(len(c.Readers) == 2, "two_readers")
	info.ClassIf(runtime.GOMAXPROCS(0) >= 2, "gomaxprocs>=2")
	info.Classes = uniq(info.Classes)
	nt := false
	for _, cl := range info.Classes {
		if len(cl) > 10 && cl[:10] == "race_with_" && cl != "race_with_enough_slots" && cl != "race_with_0_slots_left" {
			nt = true
		}
	}
	info.NonTrivial = nt && racers >= 2
	return vs, info
}

func TestLimitConcurrent(t *testing.T) {
	vk.Run(t, vk.Spec[ConcCase]{
		Property: "C12", Check: "limit_concurrent",
		Rule: "limit 1..6 (sometimes 8..10), written plainly / zero-padded / with a plus sign; 1-3 synchronous instruments (counter, up-down counter, histogram, gauge; int64/float64; default, explicit-bucket, exponential or sum aggregation); one or two ManualReaders (delta / cumulative / mixed); 2-5 rounds: a generated number of new sets is recorded sequentially so that 0..3 identity slots are left, then 2-8 goroutines released together (generated schedule perturbations, optionally also at exemplar-reservoir creation) each record the first (and 0-2 more) measurements of their OWN new set on every instrument, then Collect (a reader may skip); each program runs twice; " +
			"oracle per stream and collection: <= L points, conservation of value/count/sum, every identified point == the measurements of its set, exactly min(L-1, n) sets identified, no set loses against a set first measured strictly later, overflow point iff needed, cumulative identities are for life; which racing set wins a slot is not asserted; " +
			"non-trivial = some round starts its race with at least one but fewer free identity slots than racing goroutines; distinct = distinct case encodings",
		Quick: 2000, Thorough: 40000,
		Gen: genConc, Run: runConc,
		Repeat: 200,
	})
	t.Log(statLine())
}
