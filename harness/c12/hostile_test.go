package c12

// Sub-check config_lent: the configuring caller owns its memory and goes on
// using it.
//
// Two MeterProviders A and B (two complete views_model cases: instruments,
// views, readers, pools, histories) are configured one after the other from
// the SAME buffers, before either creates an instrument:
//
//   - the keys of every allow / deny filter are written into one key buffer,
//     spread into attribute.NewAllowKeysFilter / NewDenyKeysFilter (keys...)
//     and overwritten as soon as the constructor returned (key lists of 0..12
//     keys: around every small-list fast path);
//   - the boundaries of every explicit-bucket aggregation (of a view, of a
//     reader's aggregation selector) live in one float buffer, overwritten
//     after NewView returned / on the selector's next call / after the
//     instruments exist;
//   - the views are placed in one view buffer and handed to WithView in
//     generated groups, each group either a sub-slice of the buffer (with the
//     spare capacity behind it) or fresh memory; the Option list and the
//     ManualReaderOption lists are lent the same way. After NewMeterProvider
//     (NewManualReader) RETURNED the buffers are overwritten: first with B's
//     configuration, after B's construction with decoys (a view dropping every
//     instrument, options adding such views);
//   - optionally every measurement names its attributes by
//     metric.WithAttributes(buf...) from one attribute buffer that is
//     overwritten between building the option and making the measurement.
//
// Nothing is overwritten between WithView(...) and NewMeterProvider: an Option
// is documented to take effect when the provider is built. Then both
// providers run their histories (either first) and every collection of each is
// compared with ITS OWN model exactly as in views_model: what a provider
// reports follows the configuration it was given when it was built.
//
// No clause is added to the oracle: the assertions are those of views_model
// (runWith / compare), evaluated for a provider whose configuration arguments
// were re-used by the caller afterwards.

import (
	"fmt"
	"os"
	"testing"

	"go.opentelemetry.io/otel/attribute"
	"go.opentelemetry.io/otel/metric"
	sdkmetric "go.opentelemetry.io/otel/sdk/metric"
	"go.opentelemetry.io/otel/sdk/resource"
	"go.opentelemetry.io/otel/verif/internal/vk"
	"pgregory.net/rapid"
)

// HCase is one generated input of config_lent.
type HCase struct {
	A Case `json:"a"`
	B Case `json:"b"` // B.Env is A.Env (the variable is process-wide)
	// GroupsA / GroupsB: the views of the provider are handed over in
	// consecutive groups, one WithView option per group; |g| is the size of the
	// group (0 = WithView() without arguments), g > 0: a sub-slice of the shared
	// view buffer, g < 0: fresh memory of exactly that size. Views left over form
	// one last lent group.
	GroupsA []int `json:"groups_a"`
	GroupsB []int `json:"groups_b"`
	// Spare: capacity of every shared buffer beyond the largest content.
	Spare int `json:"spare"`
	// AttrMode: 0 every measurement uses WithAttributeSet; 1 every measurement
	// uses WithAttributes(lent buffer...); 2 sets with an even pool index do.
	AttrMode int `json:"attr_mode"`
	// BFirst: B creates its instruments and runs its history before A.
	BFirst bool `json:"b_first"`
}

// prebuilt is a provider configured before runWith starts.
type prebuilt struct {
	mp      *sdkmetric.MeterProvider
	readers []*sdkmetric.ManualReader
	// attrOpt builds the attribute option of one measurement (nil: WithAttributeSet)
	attrOpt func(idx int, kvs []vk.KV, set attribute.Set) metric.MeasurementOption
	// afterSetup runs when all instruments have been created
	afterSetup func()
}

// lender holds the caller's buffers. Every slice has len == cap.
type lender struct {
	views  []sdkmetric.View
	keys   []attribute.Key
	bounds []float64
	opts   []sdkmetric.Option
	ropts  []sdkmetric.ManualReaderOption
	attrs  []attribute.KeyValue

	lentViews, lentKeyFilters, lentBounds, lentSelectorBounds int
	spareBehindFirstGroup                                     bool
}

func decoyView() sdkmetric.View {
	return sdkmetric.NewView(sdkmetric.Instrument{Name: "*"}, sdkmetric.Stream{Aggregation: sdkmetric.AggregationDrop{}})
}

func (l *lender) scribbleViews() {
	for i := range l.views {
		l.views[i] = decoyView()
	}
}

func (l *lender) scribbleOpts() {
	for i := range l.opts {
		l.opts[i] = sdkmetric.WithView(decoyView())
	}
}

func (l *lender) scribbleReaderOpts() {
	for i := range l.ropts {
		l.ropts[i] = sdkmetric.WithAggregationSelector(func(sdkmetric.InstrumentKind) sdkmetric.Aggregation {
			return sdkmetric.AggregationDrop{}
		})
	}
}

func (l *lender) scribbleBounds() {
	for i := range l.bounds {
		l.bounds[i] = 1e9 + float64(i)
	}
}

// scribbleKeys overwrites the key buffer with keys the filter just built was
// NOT given (cyclically), so that a filter still reading the buffer decides
// differently on the attributes the pools use.
func (l *lender) scribbleKeys(given []string) {
	var other []attribute.Key
	for _, k := range filterKeys {
		in := false
		for _, g := range given {
			in = in || g == k
		}
		if !in {
			other = append(other, attribute.Key(k))
		}
	}
	if len(other) == 0 {
		other = []attribute.Key{"decoy"}
	}
	for i := range l.keys {
		l.keys[i] = other[i%len(other)]
	}
}

func (l *lender) scribbleAttrs() {
	for i := range l.attrs {
		l.attrs[i] = attribute.Int(fmt.Sprintf("decoy%d", i), i)
	}
}

// lendBounds writes b into the bounds buffer and returns that part of it.
func (l *lender) lendBounds(b []float64) []float64 {
	if len(b) > len(l.bounds) {
		return append([]float64{}, b...)
	}
	out := l.bounds[:len(b)]
	copy(out, b)
	return out
}

// buildViewLent is buildView with the key list and the boundaries lent.
func (l *lender) buildViewLent(v View) sdkmetric.View {
	var crit sdkmetric.Instrument
	switch v.NameMode {
	case nmExact:
		crit.Name = instName(v.Target)
	case nmPattern:
		crit.Name = v.Pattern
	}
	if v.ByKind {
		crit.Kind = sdkKinds[v.Kind]
	}
	if v.ByUnit {
		crit.Unit = "By"
	}
	mask := sdkmetric.Stream{Name: v.Rename, Unit: v.Unit}
	switch v.Agg {
	case vaDrop:
		mask.Aggregation = sdkmetric.AggregationDrop{}
	case vaSum:
		mask.Aggregation = sdkmetric.AggregationSum{}
	case vaLast:
		mask.Aggregation = sdkmetric.AggregationLastValue{}
	case vaHist:
		mask.Aggregation = sdkmetric.AggregationExplicitBucketHistogram{Boundaries: l.lendBounds(boundsTable[v.Bounds])}
		l.lentBounds++
	case vaExpo:
		mask.Aggregation = sdkmetric.AggregationBase2ExponentialHistogram{MaxSize: 160, MaxScale: 20}
	case vaDefault:
		mask.Aggregation = sdkmetric.AggregationDefault{}
	}
	switch v.Filter {
	case 1, 2:
		ks := l.keys[:len(v.Keys)]
		for i, k := range v.Keys {
			ks[i] = attribute.Key(k)
		}
		if v.Filter == 1 {
			mask.AttributeFilter = attribute.NewAllowKeysFilter(ks...)
		} else {
			mask.AttributeFilter = attribute.NewDenyKeysFilter(ks...)
		}
		l.scribbleKeys(v.Keys) // the constructor has returned
		l.lentKeyFilters++
	case 3, 4, 5:
		f := v.fspec()
		mask.AttributeFilter = func(kv attribute.KeyValue) bool {
			return f.keepPair(string(kv.Key), vk.ValueKey(kv.Value))
		}
	}
	out := sdkmetric.NewView(crit, mask)
	l.scribbleBounds() // NewView has returned
	return out
}

// lentSelector is aggregationSelector with explicit boundaries handed out
// from the shared bounds buffer (overwritten by the next answer).
func (l *lender) lentSelector(sel []int) sdkmetric.AggregationSelector {
	plain := aggregationSelector(sel)
	return func(k sdkmetric.InstrumentKind) sdkmetric.Aggregation {
		a := plain(k)
		if h, ok := a.(sdkmetric.AggregationExplicitBucketHistogram); ok {
			l.scribbleBounds()
			h.Boundaries = l.lendBounds(h.Boundaries)
			l.lentSelectorBounds++
			return h
		}
		return a
	}
}

// fixGroups makes groups a partition of n views.
func fixGroups(groups []int, n int) []int {
	out := []int{}
	left := n
	for _, g := range groups {
		if len(out) >= 8 {
			break
		}
		size := g
		if size < 0 {
			size = -size
		}
		if size > left {
			size = left
		}
		if g < 0 {
			out = append(out, -size)
		} else {
			out = append(out, size)
		}
		left -= size
	}
	if left > 0 {
		out = append(out, left)
	}
	return out
}

// build configures one provider from the lender's buffers.
func (l *lender) build(c Case, groups []int) *prebuilt {
	p := &prebuilt{readers: make([]*sdkmetric.ManualReader, len(c.Readers))}
	for i, mode := range c.Readers {
		ro := l.ropts[:0]
		ro = append(ro, sdkmetric.WithTemporalitySelector(temporalitySelector(mode)))
		if i < len(c.Selectors) && len(c.Selectors[i]) == nKinds {
			ro = append(ro, sdkmetric.WithAggregationSelector(l.lentSelector(c.Selectors[i])))
		}
		p.readers[i] = sdkmetric.NewManualReader(ro...)
		l.scribbleReaderOpts() // NewManualReader has returned
	}
	opts := l.opts[:0]
	opts = append(opts, sdkmetric.WithResource(resource.Empty()))
	for _, r := range p.readers {
		opts = append(opts, sdkmetric.WithReader(r))
	}
	for i, v := range c.Views {
		l.views[i] = l.buildViewLent(v)
	}
	lo := 0
	for gi, g := range groups {
		size := g
		if size < 0 {
			size = -size
		}
		hi := lo + size
		if g < 0 || (g == 0 && gi%2 == 1) {
			fresh := make([]sdkmetric.View, size)
			copy(fresh, l.views[lo:hi])
			opts = append(opts, sdkmetric.WithView(fresh...))
		} else {
			opts = append(opts, sdkmetric.WithView(l.views[lo:hi]...))
			l.lentViews += size
			if gi == 0 && size > 0 && hi < len(l.views) {
				l.spareBehindFirstGroup = true
			}
		}
		lo = hi
	}
	p.mp = sdkmetric.NewMeterProvider(opts...)
	// NewMeterProvider has returned: the caller re-uses its memory
	l.scribbleViews()
	l.scribbleOpts()
	l.scribbleKeys(nil)
	l.scribbleBounds()
	p.afterSetup = func() { l.scribbleBounds() }
	return p
}

func maxInt(a, b int) int {
	if a > b {
		return a
	}
	return b
}

func normalizeH(h HCase) HCase {
	h.A = normalize(h.A)
	h.B = normalize(h.B)
	h.B.Env = h.A.Env
	h.GroupsA = fixGroups(h.GroupsA, len(h.A.Views))
	h.GroupsB = fixGroups(h.GroupsB, len(h.B.Views))
	if h.Spare < 0 {
		h.Spare = 0
	}
	if h.Spare > 8 {
		h.Spare = 8
	}
	h.AttrMode = ((h.AttrMode % 3) + 3) % 3
	return h
}

func runHostile(h HCase) ([]vk.Violation, vk.Info) {
	h = normalizeH(h)
	nViews, nKeys, nAttrs := 0, 0, 0
	for _, c := range []Case{h.A, h.B} {
		nViews = maxInt(nViews, len(c.Views))
		for _, v := range c.Views {
			nKeys = maxInt(nKeys, len(v.Keys))
		}
		for _, s := range c.Pool {
			nAttrs = maxInt(nAttrs, len(s))
		}
	}
	l := &lender{
		views:  make([]sdkmetric.View, nViews+h.Spare),
		keys:   make([]attribute.Key, nKeys+h.Spare),
		bounds: make([]float64, 24+h.Spare),
		opts:   make([]sdkmetric.Option, 3+8+1+h.Spare),
		ropts:  make([]sdkmetric.ManualReaderOption, 2+h.Spare),
		attrs:  make([]attribute.KeyValue, nAttrs+h.Spare),
	}
	l.scribbleViews()
	l.scribbleOpts()
	l.scribbleReaderOpts()
	l.scribbleKeys(nil)
	l.scribbleBounds()
	l.scribbleAttrs()

	// the providers read nothing from the environment while they are built
	// (the limit is read when an instrument is created: runWith sets it), but
	// keep the variable as the case says during construction as well.
	old, had := os.LookupEnv(envKey)
	if h.A.Env == "" {
		os.Unsetenv(envKey)
	} else {
		os.Setenv(envKey, h.A.Env)
	}
	pa := l.build(h.A, h.GroupsA)
	lentA, keysA := l.lentViews, l.lentKeyFilters
	spareA := l.spareBehindFirstGroup
	pb := l.build(h.B, h.GroupsB)
	if had {
		os.Setenv(envKey, old)
	} else {
		os.Unsetenv(envKey)
	}

	lentAttrs := 0
	attrOpt := func(idx int, kvs []vk.KV, set attribute.Set) metric.MeasurementOption {
		if h.AttrMode == 0 || (h.AttrMode == 2 && idx%2 == 1) {
			return metric.WithAttributeSet(set)
		}
		buf := l.attrs[:len(kvs)]
		copy(buf, vk.ToAttrs(kvs))
		o := metric.WithAttributes(buf...)
		l.scribbleAttrs() // WithAttributes has returned
		lentAttrs++
		return o
	}
	pa.attrOpt, pb.attrOpt = attrOpt, attrOpt

	var vs []vk.Violation
	var info vk.Info
	runOne := func(tag string, c Case, p *prebuilt) {
		v, i := runWith(c, p)
		for _, x := range v {
			x.Msg = "provider " + tag + " (configured from buffers the caller re-used after the provider was built): " + x.Msg
			vs = append(vs, x)
		}
		info.Classes = append(info.Classes, i.Classes...)
	}
	if h.BFirst {
		runOne("B", h.B, pb)
		runOne("A", h.A, pa)
	} else {
		runOne("A", h.A, pa)
		runOne("B", h.B, pb)
	}

	maxKeys := 0
	for _, c := range []Case{h.A, h.B} {
		for _, v := range c.Views {
			if v.Filter == 1 || v.Filter == 2 {
				maxKeys = maxInt(maxKeys, len(v.Keys))
				switch n := len(v.Keys); {
				case n == 0:
					info.Class("lent/key_filter_0_keys")
				case n <= 3:
					info.Class("lent/key_filter_1..3_keys")
				case n <= 7:
					info.Class("lent/key_filter_4..7_keys")
				case n <= 9:
					info.Class(fmt.Sprintf("lent/key_filter_%d_keys", n))
				default:
					info.Class("lent/key_filter_>=10_keys")
				}
			}
		}
	}
	info.ClassIf(lentA > 0, "lent/views_of_A_in_shared_buffer")
	info.ClassIf(l.lentViews > lentA, "lent/views_of_B_in_shared_buffer")
	info.ClassIf(spareA, "lent/first_WithView_group_of_A_has_spare_capacity")
	info.ClassIf(len(h.GroupsA) >= 2, "lent/A_several_WithView_options")
	mixed := false
	for _, g := range h.GroupsA {
		mixed = mixed || g < 0
	}
	info.ClassIf(mixed && lentA > 0, "lent/A_mixes_lent_and_fresh_WithView_groups")
	info.ClassIf(keysA > 0, "lent/key_filter_of_A")
	info.ClassIf(l.lentKeyFilters >= 2, "lent/key_buffer_used_for_>=2_filters")
	info.ClassIf(l.lentBounds > 0, "lent/view_boundaries")
	info.ClassIf(l.lentSelectorBounds > 0, "lent/selector_boundaries")
	info.ClassIf(lentAttrs > 0, "lent/measurement_attributes")
	info.Class(fmt.Sprintf("lent/spare_capacity_%d", h.Spare))
	info.ClassIf(h.BFirst, "lent/B_creates_instruments_first")
	// non-trivial: the caller's later writes hit memory that A's configuration
	// was read from
	info.NonTrivial = lentA > 0 || keysA > 0
	info.Classes = uniq(info.Classes)
	return vs, info
}

// padKeys widens the key lists of allow / deny filters with keys no pool
// uses: the filter's meaning is unchanged, its size is not (0..12 keys).
func padKeys(t *rapid.T, c *Case) {
	for i := range c.Views {
		v := &c.Views[i]
		if (v.Filter != 1 && v.Filter != 2) || rapid.IntRange(0, 2).Draw(t, "pad") != 0 {
			continue
		}
		want := rapid.SampledFrom([]int{4, 6, 7, 8, 8, 9, 9, 10, 12}).Draw(t, "nkeys")
		front := rapid.Bool().Draw(t, "pad_front")
		for n := 0; len(v.Keys) < want; n++ {
			if front {
				v.Keys = append([]string{fmt.Sprintf("0pad%d", n)}, v.Keys...)
			} else {
				v.Keys = append(v.Keys, fmt.Sprintf("pad%d", n))
			}
		}
	}
}

func genGroups(t *rapid.T, n int) []int {
	out := []int{}
	left := n
	switch rapid.IntRange(0, 3).Draw(t, "grouping") {
	case 0: // everything in one lent WithView
		return []int{n}
	case 1: // a lent first group, the rest one by one in fresh memory (literal arguments)
		if n >= 1 {
			first := rapid.IntRange(1, n).Draw(t, "first")
			out = append(out, first)
			for i := first; i < n; i++ {
				out = append(out, -1)
			}
			return out
		}
	}
	for left > 0 && len(out) < 7 {
		size := rapid.IntRange(0, left).Draw(t, "gsize")
		if rapid.IntRange(0, 3).Draw(t, "gfresh") == 0 {
			out = append(out, -size)
		} else {
			out = append(out, size)
		}
		left -= size
	}
	return out
}

func genHostileSide(t *rapid.T, env string) Case {
	c := Case{Env: env, Readers: genReaders(t)}
	c.Selectors = genSelectors(t, len(c.Readers))
	c.Reuse = genReuse(t, len(c.Readers))
	c.Insts = genInsts(t, 3)
	c.Views = genViews(t, &c, 4)
	if len(c.Views) == 0 {
		// a provider without views lends nothing: give it a filter view
		v := View{NameMode: nmPattern, Pattern: "*", Keys: []string{}}
		genFilter(t, &v)
		c.Views = []View{v}
	}
	padKeys(t, &c)
	c.Pool = genPool(t, 10, parseLimit(c.Env))
	c.MultiCB = rapid.IntRange(0, 3).Draw(t, "multicb") == 0
	genCycles(t, &c, 12, 6)
	return normalize(pruneUndetermined(normalize(c)))
}

func genHostile(t *rapid.T) HCase {
	env := genEnv(t)
	h := HCase{A: genHostileSide(t, env), B: genHostileSide(t, env)}
	h.GroupsA = genGroups(t, len(h.A.Views))
	h.GroupsB = genGroups(t, len(h.B.Views))
	h.Spare = rapid.SampledFrom([]int{0, 1, 1, 2, 4, 8}).Draw(t, "spare")
	h.AttrMode = rapid.SampledFrom([]int{0, 0, 1, 2}).Draw(t, "attr_mode")
	h.BFirst = rapid.IntRange(0, 3).Draw(t, "b_first") == 0
	return normalizeH(h)
}

func TestConfigLent(t *testing.T) {
	vk.Run(t, vk.Spec[HCase]{
		Property: "C12", Check: "config_lent",
		Rule: "two providers A and B, each a views_model case (1-3 instruments, 1-5 views, pools of up to 10 sets, >=3 cycles), configured one after the other from ONE set of caller-owned buffers before either creates an instrument: allow/deny key lists (0-12 keys, padded with unused keys around the sizes 8/9/10) spread from a key buffer overwritten right after the filter constructor returned; explicit boundaries of views and reader selectors from a float buffer overwritten after NewView / at the selector's next answer / after instrument creation; views placed in a view buffer and handed to WithView in generated groups (sub-slices with spare capacity 0-8 behind them, or fresh memory; one or several WithView options, also empty ones), Option and ManualReaderOption lists lent likewise; after NewMeterProvider returned the buffers are overwritten with B's configuration, then with decoys (views dropping everything); optionally every measurement is made with WithAttributes(buffer...) and the buffer overwritten before the measurement; either provider runs first; each provider is compared with its own model as in views_model; " +
			"non-trivial = at least one view of A was handed over inside the shared view buffer or one allow/deny filter of A was built from the shared key buffer; distinct = distinct case encodings",
		Quick: 4000, Thorough: 60000,
		Gen: genHostile, Run: runHostile,
	})
}
