package c20

// Three loopback collectors A/B/C. Each one listens on an HTTP port and on a
// gRPC port (all six bound to distinct ephemeral ports of 127.0.0.1), is
// started once per process and only records what it receives:
// who got the request, URL path, header values, Content-Encoding /
// grpc-encoding and, for gRPC, the time left until the deadline the client
// transmitted. Requests carry a per-case marker inside the payload (span name,
// metric name, log body) so that a late request of an earlier case can never
// be attributed to the case that is running.

import (
	"bytes"
	"compress/gzip"
	"context"
	"fmt"
	"io"
	"net"
	"net/http"
	"regexp"
	"strconv"
	"sync"
	"sync/atomic"
	"time"

	collogpb "go.opentelemetry.io/proto/otlp/collector/logs/v1"
	colmetricpb "go.opentelemetry.io/proto/otlp/collector/metrics/v1"
	coltracepb "go.opentelemetry.io/proto/otlp/collector/trace/v1"
	"google.golang.org/grpc"
	_ "google.golang.org/grpc/encoding/gzip" // server side decompressor
	"google.golang.org/grpc/metadata"
	"google.golang.org/grpc/stats"
	"google.golang.org/grpc/status"
	"google.golang.org/protobuf/proto"
)

// request is one observed export request.
type request struct {
	Coll     int // 0,1,2 = A,B,C
	GRPC     bool
	Signal   string // gRPC: traces | metrics | logs (by service); HTTP: ""
	Path     string // HTTP only
	Header   map[string][]string
	Encoding string // Content-Encoding / grpc-encoding ("" = identity)
	Deadline time.Duration
	HasDL    bool
	Nonce    int64
}

const hdrKey = "x-verif-src"

var nonceRe = regexp.MustCompile(`verifcase-(\d+)-`)

type collectors struct {
	once     sync.Once
	err      error
	httpAddr [3]string
	grpcAddr [3]string

	mu   sync.Mutex
	reqs []request

	// httpDelay is how long an HTTP collector waits before it answers (it
	// returns earlier when the client goes away).
	httpDelay atomic.Int64
	// grpcDelay: the same for the gRPC services (they hold the call until the
	// delay has passed or the call's context is done).
	grpcDelay atomic.Int64
}

// holdGRPC returns the status a server gives to a call whose deadline passed
// (or that was cancelled) while it was being held: answering OK at the very
// moment the propagated deadline expires would race with the client's own
// timer.
func (c *collectors) holdGRPC(ctx context.Context) error {
	if d := time.Duration(c.grpcDelay.Load()); d > 0 {
		t := time.NewTimer(d)
		select {
		case <-t.C:
		case <-ctx.Done():
			t.Stop()
			return status.FromContextError(ctx.Err()).Err()
		}
	}
	return nil
}

var colls collectors

var nonceCtr atomic.Int64

func nextNonce() int64 { return nonceCtr.Add(1) }

func marker(n int64) string { return fmt.Sprintf("verifcase-%d-", n) }

func findNonce(b []byte) int64 {
	m := nonceRe.FindSubmatch(b)
	if m == nil {
		return -1
	}
	n, _ := strconv.ParseInt(string(m[1]), 10, 64)
	return n
}

func (c *collectors) record(r request) {
	c.mu.Lock()
	c.reqs = append(c.reqs, r)
	c.mu.Unlock()
}

// take returns the requests that carry the nonce and forgets everything
// recorded so far.
func (c *collectors) take(nonce int64) []request {
	c.mu.Lock()
	defer c.mu.Unlock()
	var out []request
	for _, r := range c.reqs {
		if r.Nonce == nonce {
			out = append(out, r)
		}
	}
	c.reqs = nil
	return out
}

func (c *collectors) start() error {
	c.once.Do(func() {
		for i := 0; i < 3; i++ {
			i := i
			hl, err := net.Listen("tcp", "127.0.0.1:0")
			if err != nil {
				c.err = err
				return
			}
			c.httpAddr[i] = hl.Addr().String()
			srv := &http.Server{Handler: http.HandlerFunc(func(w http.ResponseWriter, r *http.Request) { c.serveHTTP(i, w, r) })}
			go func() { _ = srv.Serve(hl) }()

			gl, err := net.Listen("tcp", "127.0.0.1:0")
			if err != nil {
				c.err = err
				return
			}
			c.grpcAddr[i] = gl.Addr().String()
			gs := grpc.NewServer(grpc.StatsHandler(statsH{}))
			coltracepb.RegisterTraceServiceServer(gs, &traceSvc{c: c, i: i})
			colmetricpb.RegisterMetricsServiceServer(gs, &metricSvc{c: c, i: i})
			collogpb.RegisterLogsServiceServer(gs, &logSvc{c: c, i: i})
			go func() { _ = gs.Serve(gl) }()
		}
	})
	return c.err
}

func (c *collectors) serveHTTP(i int, w http.ResponseWriter, r *http.Request) {
	body, _ := io.ReadAll(r.Body)
	enc := r.Header.Get("Content-Encoding")
	plain := body
	if enc == "gzip" {
		if zr, err := gzip.NewReader(bytes.NewReader(body)); err == nil {
			if b, err := io.ReadAll(zr); err == nil {
				plain = b
			}
		}
	}
	h := map[string][]string{}
	for k, v := range r.Header {
		h[http.CanonicalHeaderKey(k)] = append([]string{}, v...)
	}
	c.record(request{Coll: i, Path: r.URL.EscapedPath(), Header: h, Encoding: enc, Nonce: findNonce(plain)})
	if d := time.Duration(c.httpDelay.Load()); d > 0 {
		t := time.NewTimer(d)
		select {
		case <-t.C:
		case <-r.Context().Done():
			t.Stop()
		}
	}
	w.WriteHeader(http.StatusOK)
}

// ---- gRPC ----

type rpcKey struct{}

type rpcInfo struct {
	mu          sync.Mutex
	compression string
}

type statsH struct{}

func (statsH) TagRPC(ctx context.Context, _ *stats.RPCTagInfo) context.Context {
	return context.WithValue(ctx, rpcKey{}, &rpcInfo{})
}

func (statsH) HandleRPC(ctx context.Context, s stats.RPCStats) {
	if h, ok := s.(*stats.InHeader); ok {
		if ri, _ := ctx.Value(rpcKey{}).(*rpcInfo); ri != nil {
			ri.mu.Lock()
			ri.compression = h.Compression
			ri.mu.Unlock()
		}
	}
}
func (statsH) TagConn(ctx context.Context, _ *stats.ConnTagInfo) context.Context { return ctx }
func (statsH) HandleConn(context.Context, stats.ConnStats)                       {}

func (c *collectors) recordGRPC(ctx context.Context, i int, signal string, msg proto.Message) {
	r := request{Coll: i, GRPC: true, Signal: signal, Header: map[string][]string{}}
	if md, ok := metadata.FromIncomingContext(ctx); ok {
		for k, v := range md {
			r.Header[http.CanonicalHeaderKey(k)] = append([]string{}, v...)
		}
	}
	if ri, _ := ctx.Value(rpcKey{}).(*rpcInfo); ri != nil {
		ri.mu.Lock()
		r.Encoding = ri.compression
		ri.mu.Unlock()
	}
	if r.Encoding == "identity" {
		r.Encoding = ""
	}
	if dl, ok := ctx.Deadline(); ok {
		r.HasDL, r.Deadline = true, time.Until(dl)
	}
	b, _ := proto.Marshal(msg)
	r.Nonce = findNonce(b)
	c.record(r)
}

type traceSvc struct {
	coltracepb.UnimplementedTraceServiceServer
	c *collectors
	i int
}

func (s *traceSvc) Export(ctx context.Context, req *coltracepb.ExportTraceServiceRequest) (*coltracepb.ExportTraceServiceResponse, error) {
	s.c.recordGRPC(ctx, s.i, "traces", req)
	if err := s.c.holdGRPC(ctx); err != nil {
		return nil, err
	}
	return &coltracepb.ExportTraceServiceResponse{}, nil
}

type metricSvc struct {
	colmetricpb.UnimplementedMetricsServiceServer
	c *collectors
	i int
}

func (s *metricSvc) Export(ctx context.Context, req *colmetricpb.ExportMetricsServiceRequest) (*colmetricpb.ExportMetricsServiceResponse, error) {
	s.c.recordGRPC(ctx, s.i, "metrics", req)
	if err := s.c.holdGRPC(ctx); err != nil {
		return nil, err
	}
	return &colmetricpb.ExportMetricsServiceResponse{}, nil
}

type logSvc struct {
	collogpb.UnimplementedLogsServiceServer
	c *collectors
	i int
}

func (s *logSvc) Export(ctx context.Context, req *collogpb.ExportLogsServiceRequest) (*collogpb.ExportLogsServiceResponse, error) {
	s.c.recordGRPC(ctx, s.i, "logs", req)
	if err := s.c.holdGRPC(ctx); err != nil {
		return nil, err
	}
	return &collogpb.ExportLogsServiceResponse{}, nil
}
