package c20

// Family B (check "sdk_env"): SDK components configured by environment
// variables and options.
//
//	bsp         OTEL_BSP_SCHEDULE_DELAY / _EXPORT_TIMEOUT / _MAX_QUEUE_SIZE / _MAX_EXPORT_BATCH_SIZE
//	            vs WithBatchTimeout / WithExportTimeout / WithMaxQueueSize / WithMaxExportBatchSize
//	blrp        OTEL_BLRP_* vs the sdk/log BatchProcessor options
//	span_limits OTEL_SPAN_ATTRIBUTE_COUNT_LIMIT, OTEL_SPAN_ATTRIBUTE_VALUE_LENGTH_LIMIT (generic fallbacks
//	            OTEL_ATTRIBUTE_COUNT_LIMIT, OTEL_ATTRIBUTE_VALUE_LENGTH_LIMIT), OTEL_SPAN_EVENT_COUNT_LIMIT,
//	            OTEL_SPAN_LINK_COUNT_LIMIT, OTEL_EVENT_ATTRIBUTE_COUNT_LIMIT, OTEL_LINK_ATTRIBUTE_COUNT_LIMIT
//	            vs WithSpanLimits / WithRawSpanLimits
//	log_limits  OTEL_LOGRECORD_ATTRIBUTE_COUNT_LIMIT / _VALUE_LENGTH_LIMIT vs the LoggerProvider options
//	sampler     OTEL_TRACES_SAMPLER / OTEL_TRACES_SAMPLER_ARG vs WithSampler
//
// Every source is absent, valid or invalid; environment texts come from
// {number, "", "abc", "-1", "0", 20-digit number, " 5 ", "1e3", "NaN",
// MaxInt64 (sizes of the span processor only)}.
//
// The oracle is the observable behaviour of the constructed component and
// must follow option > environment (> generic variable) > default. What an
// unusable value means is taken from the sources:
//
//   - sdk/internal/env: "IntEnvOr returns the int value of the environment
//     variable if it exists, it is not empty, and the value is an int.
//     Otherwise, defaultValue"; firstInt: "the first matching environment
//     variable ...; if the value is not an integer or no match is found,
//     defaultValue" - for OTEL_SPAN_ATTRIBUTE_* a non-integer specific
//     variable therefore gives the default, NOT the generic variable; the
//     statement only says "ignored in favour of defaults", so both the default
//     and the generic variable's value are accepted there.
//   - NewBatchSpanProcessor (after ef8231f): negative sizes fall back to the
//     defaults. Size 0, non-positive durations and MaxInt64 sizes have no
//     documented meaning: only "no panic, no hang" is asserted.
//   - sdk/log batch options: "The default value is also used when the
//     provided value is less than one" (implemented as: the option is
//     cleared, then the environment is consulted): default or environment
//     value accepted. Environment values below one: default.
//   - SpanLimits: "Setting this to zero means no ... will be recorded.
//     Setting this to a negative value means no limit is applied";
//     NewSpanLimits sets the limits "to the value their corresponding
//     environment variable holds"; WithSpanLimits: "If any field of sl is zero
//     or negative it will be replaced with the default value";
//     WithRawSpanLimits: "used as-is".
//   - sdk/log WithAttributeCountLimit / WithAttributeValueLengthLimit: negative
//     = no limit; count limit 0 is not asserted (known finding
//     log_count_limit_zero of C17).
//   - WithSampler: "overrides the Sampler configured through the environment
//     ... if the environment contains invalid/unsupported configuration, the
//     TracerProvider will use a ParentBased(AlwaysSample) Sampler by
//     default"; samplerFromEnv: a ratio sampler whose argument cannot be
//     used gets ratio 1.0. Both are accepted for a bad argument. Sampler names
//     are matched after lower-casing and trimming by the implementation;
//     for such spellings the named sampler and the default are accepted.
//     The TracerProvider does not expose its Sampler, so the sampler is
//     judged by its decisions on 16 spread trace ids and on children of
//     sampled / unsampled remote parents, compared with the decisions of the
//     expected sampler built through the public constructors.
//
// Not generated: queue sizes that would make the constructor allocate the
// machine's memory (the log BatchProcessor allocates its ring eagerly, so
// OTEL_BLRP_MAX_QUEUE_SIZE=9223372036854775807 never returns).
//
// Timing: a schedule delay of 20 ms (10 ms for logs) must lead to an export
// within 3 s for the span processor (its default is 5 s) and within 10 s for
// the log processor; a schedule delay of one hour or the default must not
// export within 100 ms (a timer cannot fire early, so this cannot fail on a
// correct tree). Export timeouts are read from the deadline of the context
// handed to the exporter: (T/2, T] for T in {5 s, 30 s default, 120 s, 600 s}.

import (
	"context"
	"encoding/binary"
	"fmt"
	"math"
	"strconv"
	"strings"
	"sync"
	"testing"
	"time"

	"go.opentelemetry.io/otel/attribute"
	"go.opentelemetry.io/otel/log"
	sdklog "go.opentelemetry.io/otel/sdk/log"
	sdktrace "go.opentelemetry.io/otel/sdk/trace"
	"go.opentelemetry.io/otel/sdk/trace/tracetest"
	"go.opentelemetry.io/otel/trace"
	"go.opentelemetry.io/otel/verif/internal/vk"
	"pgregory.net/rapid"
)

// SDKSrc is one source of an integer setting.
type SDKSrc struct {
	State int    `json:"state"` // 0 absent, 1 valid, 2 invalid
	N     int64  `json:"n"`     // valid: the number (option: the option argument, also when invalid)
	Raw   string `json:"raw"`   // environment text (valid: decimal N)
	Kind  string `json:"kind"`  // invalid environment text: unset | unparsable | negative | zero | maxint
}

// SDKCase is one configuration of one component.
type SDKCase struct {
	Comp    string `json:"comp"`
	Setting string `json:"setting"`
	Opt     SDKSrc `json:"opt"`
	Env     SDKSrc `json:"env"`
	Gen     SDKSrc `json:"gen"`        // OTEL_ATTRIBUTE_* (span attribute count / value length only)
	RawOpt  bool   `json:"raw_limits"` // span limits: WithRawSpanLimits instead of WithSpanLimits
	// sampler cases
	OptSampler string `json:"opt_sampler,omitempty"` // sampler spec, "nil" when invalid
	EnvSampler string `json:"env_sampler,omitempty"` // text of OTEL_TRACES_SAMPLER
	EnvSKind   string `json:"env_sampler_kind,omitempty"`
	Arg        SDKSrc `json:"arg"` // OTEL_TRACES_SAMPLER_ARG: Raw text, Kind: ok | bad | padded
	// mixed cases (Setting == "mixed"): every setting of the component
	Mix []MixItem `json:"mix,omitempty"`
}

type envText struct{ raw, kind string }

var badInts = []envText{
	{"", "unset"}, {"abc", "unparsable"}, {"-1", "negative"}, {"0", "zero"},
	{"99999999999999999999", "unparsable"}, {" 5 ", "unparsable"}, {"1e3", "unparsable"}, {"NaN", "unparsable"},
	// set but blank: not empty, not an integer
	{" ", "unparsable"}, {"\t", "unparsable"},
}

var maxIntText = envText{"9223372036854775807", "maxint"}

type settingDef struct {
	comp, name string
	env, gen   string // variable names
	def        int64  // documented default
	valid      []int64
	hasGen     bool
	weight     int
}

const hourMs = 3600000

var settingDefs = []settingDef{
	{"bsp", "batch_size", "OTEL_BSP_MAX_EXPORT_BATCH_SIZE", "", 512, nil, false, 6},
	{"bsp", "queue_size", "OTEL_BSP_MAX_QUEUE_SIZE", "", 2048, nil, false, 6},
	{"bsp", "schedule_delay", "OTEL_BSP_SCHEDULE_DELAY", "", 5000, []int64{20, hourMs}, false, 2},
	{"bsp", "export_timeout", "OTEL_BSP_EXPORT_TIMEOUT", "", 30000, []int64{5000, 120000, 600000}, false, 4},
	{"blrp", "batch_size", "OTEL_BLRP_MAX_EXPORT_BATCH_SIZE", "", 512, nil, false, 6},
	{"blrp", "queue_size", "OTEL_BLRP_MAX_QUEUE_SIZE", "", 2048, []int64{3, 7, 12, 20, 33}, false, 5},
	{"blrp", "schedule_delay", "OTEL_BLRP_SCHEDULE_DELAY", "", 1000, []int64{10, hourMs}, false, 2},
	{"blrp", "export_timeout", "OTEL_BLRP_EXPORT_TIMEOUT", "", 30000, []int64{5000, 120000, 600000}, false, 4},
	{"span_limits", "attr_count", "OTEL_SPAN_ATTRIBUTE_COUNT_LIMIT", "OTEL_ATTRIBUTE_COUNT_LIMIT", 128, nil, true, 9},
	{"span_limits", "attr_len", "OTEL_SPAN_ATTRIBUTE_VALUE_LENGTH_LIMIT", "OTEL_ATTRIBUTE_VALUE_LENGTH_LIMIT", -1, nil, true, 9},
	{"span_limits", "event_count", "OTEL_SPAN_EVENT_COUNT_LIMIT", "", 128, nil, false, 4},
	{"span_limits", "link_count", "OTEL_SPAN_LINK_COUNT_LIMIT", "", 128, nil, false, 4},
	{"span_limits", "event_attr_count", "OTEL_EVENT_ATTRIBUTE_COUNT_LIMIT", "", 128, nil, false, 4},
	{"span_limits", "link_attr_count", "OTEL_LINK_ATTRIBUTE_COUNT_LIMIT", "", 128, nil, false, 4},
	{"log_limits", "attr_count", "OTEL_LOGRECORD_ATTRIBUTE_COUNT_LIMIT", "", 128, nil, false, 6},
	{"log_limits", "attr_len", "OTEL_LOGRECORD_ATTRIBUTE_VALUE_LENGTH_LIMIT", "", -1, nil, false, 6},
	{"sampler", "sampler", "OTEL_TRACES_SAMPLER", "", 0, nil, false, 14},
	// all settings of the component at once, see sdk_mixed_test.go
	{"log_limits", "mixed", "", "", 0, nil, false, 8},
	{"span_limits", "mixed", "", "", 0, nil, false, 6},
	{"bsp", "mixed", "", "", 0, nil, false, 5},
	{"blrp", "mixed", "", "", 0, nil, false, 5},
}

func defOf(comp, setting string) settingDef {
	for _, d := range settingDefs {
		if d.comp == comp && d.name == setting {
			return d
		}
	}
	panic("harness bug: no setting " + comp + "/" + setting)
}

var samplerSpecs = []string{"always_on", "always_off", "traceidratio:0.25", "traceidratio:0.5", "traceidratio:0", "parentbased_always_on", "parentbased_always_off", "parentbased_traceidratio:0.25", "parentbased_traceidratio:0.75"}

var envSamplerNames = []envText{
	{"always_on", "ok"}, {"always_off", "ok"}, {"traceidratio", "ok"}, {"parentbased_always_on", "ok"},
	{"parentbased_always_off", "ok"}, {"parentbased_traceidratio", "ok"},
	{"ALWAYS_OFF", "spelling"}, {" always_off ", "spelling"}, {"ParentBased_TraceIdRatio", "spelling"},
	{"", "bad"}, {" ", "bad"}, {"\t", "bad"}, {"abc", "bad"}, {"jaeger_remote", "bad"}, {"xray", "bad"}, {"parentbased_jaeger_remote", "bad"}, {"always_off,always_on", "bad"},
}

var samplerArgs = []envText{
	{"0.25", "ok"}, {"0.5", "ok"}, {"0.75", "ok"}, {"0", "ok"}, {"1", "ok"}, {"1e-1", "ok"},
	{"abc", "bad"}, {"-1", "bad"}, {"2", "bad"}, {"NaN", "bad"}, {"", "bad"}, {"1e3", "bad"}, {"0,5", "bad"}, {" ", "bad"},
	{" 0.5 ", "padded"},
}

func genSDK(t *rapid.T) SDKCase {
	total := 0
	for _, d := range settingDefs {
		total += d.weight
	}
	pick := uniform(t, total, "setting")
	var d settingDef
	for _, x := range settingDefs {
		if pick < x.weight {
			d = x
			break
		}
		pick -= x.weight
	}
	c := SDKCase{Comp: d.comp, Setting: d.name}
	if d.name == "mixed" {
		genMixed(t, &c)
		return c
	}
	if d.comp == "sampler" {
		st := uniform(t, 27, "states")
		c.Opt.State, c.Env.State, c.Arg.State = st%3, (st/3)%3, st/9
		c.OptSampler = rapid.SampledFrom(samplerSpecs).Draw(t, "opt_sampler")
		if c.Opt.State == invalid {
			c.OptSampler = "nil"
		}
		names := envSamplerNames[:6]
		if c.Env.State == invalid {
			names = envSamplerNames[6:]
		}
		n := rapid.SampledFrom(names).Draw(t, "env_sampler")
		c.EnvSampler, c.EnvSKind = n.raw, n.kind
		args := samplerArgs[:6]
		if c.Arg.State == invalid {
			args = samplerArgs[6:]
		}
		a := rapid.SampledFrom(args).Draw(t, "arg")
		c.Arg.Raw, c.Arg.Kind = a.raw, a.kind
		return c
	}
	nstates := 9
	if d.hasGen {
		nstates = 27
	}
	st := uniform(t, nstates, "states")
	c.Opt.State, c.Env.State, c.Gen.State = st%3, (st/3)%3, st/9
	c.RawOpt = rapid.Bool().Draw(t, "raw_limits")
	validGen := rapid.Int64Range(1, 40)
	if d.valid != nil {
		validGen = rapid.SampledFrom(d.valid)
	}
	// distinct valid numbers for the three sources
	used := map[int64]bool{}
	draw := func(label string) int64 {
		for i := 0; ; i++ {
			n := validGen.Draw(t, label)
			if !used[n] || i > 20 {
				used[n] = true
				return n
			}
		}
	}
	sizes := d.comp == "bsp" && (d.name == "batch_size" || d.name == "queue_size")
	srcs := []*SDKSrc{&c.Opt, &c.Env}
	if d.hasGen {
		srcs = append(srcs, &c.Gen)
	}
	for _, s := range srcs {
		s.N = draw("n")
		s.Raw = spellInt(t, s.N)
		bads := badInts
		if sizes {
			bads = append(append([]envText{}, badInts...), maxIntText)
		}
		b := rapid.SampledFrom(bads).Draw(t, "bad")
		if s.State == invalid {
			s.Raw, s.Kind = b.raw, b.kind
		}
	}
	if c.Opt.State == invalid {
		// option arguments that are out of range
		opts := []int64{-1, 0, -7}
		if sizes {
			opts = append(opts, math.MaxInt64)
		}
		c.Opt.N = rapid.SampledFrom(opts).Draw(t, "bad_opt")
		c.Opt.Raw, c.Opt.Kind = "", ""
	}
	return c
}

// spellInt draws a decimal spelling of n for an environment variable: plain,
// or with leading zeros ("0512" is the decimal integer 512 for every integer
// setting; it is not octal and not unparsable).
func spellInt(t *rapid.T, n int64) string {
	pad := rapid.SampledFrom([]int{0, 0, 0, 1, 2, 5}).Draw(t, "leading_zeros")
	if n < 0 {
		return strconv.FormatInt(n, 10)
	}
	return strings.Repeat("0", pad) + strconv.FormatInt(n, 10)
}

// ---------------------------------------------------------------------
// oracle for the integer settings

const (
	unlimited = int64(-1) // effective limit "no limit"
)

// accept is the set of acceptable effective values; nil = nothing asserted
// about the value (only no panic / no hang).
type accept []int64

func (a accept) has(n int64) bool {
	for _, x := range a {
		if x == n {
			return true
		}
	}
	return false
}

func union(a, b accept) accept {
	if a == nil || b == nil {
		return nil
	}
	out := append(accept{}, a...)
	for _, x := range b {
		if !out.has(x) {
			out = append(out, x)
		}
	}
	return out
}

// bspNonPositive documents the effective value 0 of the span processor's
// durations. Nothing is documented for a non-positive BatchTimeout /
// ExportTimeout; the pinned code gives them these meanings, which are what
// an application gets and what is asserted (recorded in the assumptions):
//
//   - ExportTimeout <= 0: exportSpans only wraps the context "if
//     bsp.o.ExportTimeout > 0" - the processor imposes no deadline; the
//     exporter gets the caller's / a background context, never an expired one.
//   - BatchTimeout <= 0: the timer is always due; a span is exported as soon as
//     the worker gets to it (asserted like a short delay: within 3 s).
//
// The log processor documents "the default value is also used when the
// provided value is less than one" and clears environment values below one,
// so it never has an effective 0.
const bspNonPositive = 0

// envMeaning: what an environment text stands for. decides=false: the
// variable counts as unset and the next source is consulted. A nil accept
// with decides=true: the value has no documented meaning, nothing asserted.
func envMeaning(c SDKCase, s SDKSrc) (a accept, decides bool) {
	d := defOf(c.Comp, c.Setting)
	def := accept{d.def}
	if s.State == absent {
		return nil, false
	}
	if s.State == valid {
		return accept{s.N}, true
	}
	if s.Kind == "unset" {
		return nil, false
	}
	switch c.Comp {
	case "bsp":
		switch s.Kind {
		case "unparsable":
			return def, true
		case "negative":
			if c.Setting == "batch_size" || c.Setting == "queue_size" {
				return def, true
			}
			return accept{0}, true // durations: see bspNonPositive
		case "zero":
			if c.Setting == "schedule_delay" || c.Setting == "export_timeout" {
				return accept{0}, true
			}
			return nil, true
		default: // maxint
			return nil, true
		}
	case "blrp":
		return def, true
	case "span_limits":
		switch s.Kind {
		case "unparsable":
			return def, true
		case "negative":
			return accept{unlimited}, true
		case "zero":
			return accept{0}, true
		}
	case "log_limits":
		switch s.Kind {
		case "unparsable":
			return def, true
		case "negative":
			return accept{unlimited}, true
		case "zero":
			if c.Setting == "attr_count" {
				return nil, true // C17 known finding log_count_limit_zero
			}
			return accept{0}, true
		}
	}
	panic("harness bug: envMeaning " + c.Comp + " " + s.Kind)
}

// envResolve: environment (specific, then generic) and default.
func envResolve(c SDKCase) accept {
	d := defOf(c.Comp, c.Setting)
	lower := accept{d.def}
	genDecides := false
	if d.hasGen {
		if g, ok := envMeaning(c, c.Gen); ok {
			lower, genDecides = g, true
		}
	}
	a, decides := envMeaning(c, c.Env)
	if !decides {
		return lower
	}
	if genDecides && c.Env.State == invalid && c.Env.Kind == "unparsable" {
		// documented (firstInt): the default; "ignored" may also be read as
		// "the generic variable applies"
		return union(a, lower)
	}
	return a
}

func normLimit(n int64) int64 {
	if n < 0 {
		return unlimited
	}
	return n
}

// resolve gives the acceptable effective values of the case.
func resolve(c SDKCase) accept {
	d := defOf(c.Comp, c.Setting)
	env := envResolve(c)
	limits := c.Comp == "span_limits" || c.Comp == "log_limits"
	if limits && env != nil {
		for i := range env {
			env[i] = normLimit(env[i])
		}
	}
	switch c.Opt.State {
	case absent:
		return env
	case valid:
		return accept{c.Opt.N}
	}
	n := c.Opt.N
	switch c.Comp {
	case "bsp":
		if c.Setting == "schedule_delay" || c.Setting == "export_timeout" {
			return accept{0} // non-positive duration, see bspNonPositive
		}
		if n < 0 {
			return accept{d.def}
		}
		return nil
	case "blrp":
		return union(accept{d.def}, env)
	case "span_limits":
		if c.RawOpt {
			return accept{normLimit(n)}
		}
		return accept{normLimit(d.def)}
	case "log_limits":
		if n == 0 && c.Setting == "attr_count" {
			return nil
		}
		return accept{normLimit(n)}
	}
	return nil
}

// ---------------------------------------------------------------------
// recording exporters

type spanRec struct {
	mu        sync.Mutex
	batches   []int
	deadlines []time.Duration // -1 = no deadline
	refused   int             // items handed over with a context that was already done
	refusedBy error
	gate      chan struct{} // first export blocks until closed (nil = never blocks)
	entered   chan struct{}
	once      sync.Once
	first     chan struct{}
}

func newSpanRec(gated bool) *spanRec {
	r := &spanRec{entered: make(chan struct{}), first: make(chan struct{})}
	if gated {
		r.gate = make(chan struct{})
	}
	return r
}

// note is the body of a well-behaved exporter: like a network exporter it
// honours the context it is given (an export whose context is already done
// fails with the context's error and delivers nothing) and records the
// deadline it was given.
func (r *spanRec) note(ctx context.Context, n int) error {
	dl := time.Duration(-1)
	if d, ok := ctx.Deadline(); ok {
		dl = time.Until(d)
	}
	if err := ctx.Err(); err != nil {
		r.mu.Lock()
		r.deadlines = append(r.deadlines, dl)
		r.refused += n
		r.refusedBy = err
		r.mu.Unlock()
		return err
	}
	r.mu.Lock()
	r.batches = append(r.batches, n)
	r.deadlines = append(r.deadlines, dl)
	r.mu.Unlock()
	isFirst := false
	r.once.Do(func() { isFirst = true; close(r.first) })
	if isFirst && r.gate != nil {
		close(r.entered)
		<-r.gate
	}
	return nil
}

func (r *spanRec) ExportSpans(ctx context.Context, ss []sdktrace.ReadOnlySpan) error {
	return r.note(ctx, len(ss))
}

func (r *spanRec) refusals() (int, error) {
	r.mu.Lock()
	defer r.mu.Unlock()
	return r.refused, r.refusedBy
}
func (r *spanRec) Shutdown(context.Context) error { return nil }

func (r *spanRec) stats() (max, total int, dls []time.Duration) {
	r.mu.Lock()
	defer r.mu.Unlock()
	for _, b := range r.batches {
		if b > max {
			max = b
		}
		total += b
	}
	return max, total, append([]time.Duration{}, r.deadlines...)
}

type logRec struct{ spanRec }

func (r *logRec) Export(ctx context.Context, rs []sdklog.Record) error {
	return r.note(ctx, len(rs))
}
func (r *logRec) ForceFlush(context.Context) error { return nil }

// longCtx bounds ForceFlush / Shutdown: 90 s, far beyond anything a healthy
// component needs, below the 120 s watchdog of vk.
func longCtx() (context.Context, context.CancelFunc) {
	return context.WithTimeout(context.Background(), 90*time.Second)
}

// noDeadlineCtx is used where the deadline the component itself puts on the
// export context is what is being observed (hangs are left to the watchdog).
func noDeadlineCtx() (context.Context, context.CancelFunc) {
	return context.WithCancel(context.Background())
}

// ---------------------------------------------------------------------

type sdkRun struct {
	vs   []vk.Violation
	info *vk.Info
	c    SDKCase
}

func (r *sdkRun) bad(kind string, format string, a ...any) {
	r.vs = append(r.vs, vk.V(kind, "%s/%s: %s", r.c.Comp, r.c.Setting, fmt.Sprintf(format, a...)))
}

func (r *sdkRun) checkDone(what string, err error) {
	if err != nil && (err == context.DeadlineExceeded || strings.Contains(err.Error(), "deadline exceeded")) {
		r.bad("hang", "%s did not finish within 90 s: %v", what, err)
	}
}

// flushed judges ForceFlush / Shutdown of a batch processor whose exporter is
// healthy (never fails unless it is handed a context that is already done):
// both must return nil, also for the values that have no documented meaning.
func (r *sdkRun) flushed(what string, err error, timeoutCtx bool) {
	switch {
	case err == nil:
	case timeoutCtx && (err == context.DeadlineExceeded || strings.Contains(err.Error(), "deadline exceeded")):
		r.bad("hang", "%s did not finish within 90 s: %v", what, err)
	default:
		r.bad("flush_error", "%s returned %q although the exporter is healthy (%s)", what, err.Error(), describeSDK(r.c))
	}
}

// live: no export may be attempted with a context that is already done.
func (r *sdkRun) live(rec *spanRec) {
	if refused, by := rec.refusals(); refused > 0 {
		r.bad("export_context_already_done", "%d items were handed to the exporter with a context that was already done (%v) (%s)", refused, by, describeSDK(r.c))
	}
}

// delivered: everything ended / emitted before ForceFlush must have reached
// the exporter, with a context that was still live.
func (r *sdkRun) delivered(rec *spanRec, emitted int) {
	_, total, _ := rec.stats()
	r.live(rec)
	if total != emitted {
		r.bad("not_delivered", "%d items ended before ForceFlush and Shutdown (nothing can be dropped in this configuration), %d delivered to the exporter (%s)", emitted, total, describeSDK(r.c))
	}
}

func describeSDK(c SDKCase) string {
	d := defOf(c.Comp, c.Setting)
	s := fmt.Sprintf("option %s", srcText(c.Opt, true))
	s += fmt.Sprintf(", %s %s", d.env, srcText(c.Env, false))
	if d.hasGen {
		s += fmt.Sprintf(", %s %s", d.gen, srcText(c.Gen, false))
	}
	return s
}

func srcText(s SDKSrc, opt bool) string {
	if s.State == absent {
		return "absent"
	}
	if opt {
		return strconv.FormatInt(s.N, 10)
	}
	return strconv.Quote(s.Raw)
}

func runSDK(c SDKCase) ([]vk.Violation, vk.Info) {
	var info vk.Info
	r := &sdkRun{info: &info, c: c}
	d := defOf(c.Comp, c.Setting)

	info.Class("comp/" + c.Comp + "/" + c.Setting)
	if c.Setting == "mixed" {
		env := &envSetter{}
		defer env.restore()
		runMixed(r, env)
		return r.vs, info
	}
	if c.Comp == "sampler" {
		info.NonTrivial = c.Opt.State != absent && c.Env.State != absent
		info.Class("sampler_states/o" + stateNames[c.Opt.State] + "e" + stateNames[c.Env.State] + "a" + stateNames[c.Arg.State])
		env := &envSetter{}
		defer env.restore()
		runSampler(r, env)
		return r.vs, info
	}
	providing := 0
	for _, s := range []SDKSrc{c.Opt, c.Env, c.Gen} {
		if s.State != absent {
			providing++
		}
	}
	info.NonTrivial = providing >= 2
	key := "o" + stateNames[c.Opt.State] + "e" + stateNames[c.Env.State]
	if d.hasGen {
		key += "g" + stateNames[c.Gen.State]
	}
	info.Class("states/" + key)
	for _, s := range []SDKSrc{c.Env, c.Gen} {
		if s.State == invalid {
			info.Class("env_text/" + strconv.Quote(s.Raw))
		}
		info.ClassIf(s.State == valid && len(s.Raw) > 1 && s.Raw[0] == '0', "env_number_spelling/leading_zeros")
		info.ClassIf(s.State == valid && len(s.Raw) > 1 && s.Raw[0] == '0', "env_number_spelling/leading_zeros/"+c.Comp+"/"+c.Setting)
	}
	if c.Opt.State == invalid {
		info.Class("bad_option/" + strconv.FormatInt(c.Opt.N, 10))
	}
	acc := resolve(c)
	info.ClassIf(acc == nil, "value_not_asserted(no documented meaning)")
	info.ClassIf(len(acc) > 1, "two_readings_accepted")

	env := &envSetter{}
	defer env.restore()
	if c.Env.State != absent {
		env.set(d.env, c.Env.Raw)
	}
	if d.hasGen && c.Gen.State != absent {
		env.set(d.gen, c.Gen.Raw)
	}
	switch c.Comp {
	case "bsp":
		runBSP(r, acc)
	case "blrp":
		runBLRP(r, acc)
	case "span_limits":
		runSpanLimits(r, acc)
	case "log_limits":
		runLogLimits(r, acc)
	}
	return r.vs, info
}

// ---- batch span processor ----

func runBSP(r *sdkRun, acc accept) {
	c := r.c
	var opts []sdktrace.BatchSpanProcessorOption
	focusOpt := func(o sdktrace.BatchSpanProcessorOption) {
		if c.Opt.State != absent {
			opts = append(opts, o)
		}
	}
	gated := false
	switch c.Setting {
	case "batch_size":
		opts = append(opts, sdktrace.WithBatchTimeout(time.Hour), sdktrace.WithBlocking())
		focusOpt(sdktrace.WithMaxExportBatchSize(int(c.Opt.N)))
	case "queue_size":
		opts = append(opts, sdktrace.WithBatchTimeout(time.Hour), sdktrace.WithMaxExportBatchSize(1))
		focusOpt(sdktrace.WithMaxQueueSize(int(c.Opt.N)))
		gated = acc != nil
		if !gated {
			// no asserted capacity (0, ...): block instead of dropping, so that
			// "everything is delivered" is a fair demand
			opts = append(opts, sdktrace.WithBlocking())
		}
	case "schedule_delay":
		focusOpt(sdktrace.WithBatchTimeout(time.Duration(c.Opt.N) * time.Millisecond))
	case "export_timeout":
		opts = append(opts, sdktrace.WithBatchTimeout(time.Hour))
		focusOpt(sdktrace.WithExportTimeout(time.Duration(c.Opt.N) * time.Millisecond))
	}
	rec := newSpanRec(gated)
	bsp := sdktrace.NewBatchSpanProcessor(rec, opts...)
	tp := sdktrace.NewTracerProvider(sdktrace.WithSpanProcessor(bsp), sdktrace.WithSampler(sdktrace.AlwaysSample()))
	tr := tp.Tracer("c20")
	emit := func(n int) {
		for i := 0; i < n; i++ {
			_, sp := tr.Start(context.Background(), "s")
			sp.End()
		}
	}
	finish := func() {
		ctx, cancel := longCtx()
		if c.Setting == "export_timeout" {
			ctx, cancel = noDeadlineCtx()
		}
		defer cancel()
		r.flushed("ForceFlush", tp.ForceFlush(ctx), c.Setting != "export_timeout")
		r.flushed("Shutdown", tp.Shutdown(ctx), c.Setting != "export_timeout")
	}
	if acc == nil {
		emit(3)
		finish()
		r.delivered(rec, 3)
		return
	}
	var hi int64
	for _, a := range acc {
		if a > hi {
			hi = a
		}
	}
	switch c.Setting {
	case "batch_size":
		emit(int(hi) + 3)
		finish()
		max, _, _ := rec.stats()
		r.delivered(rec, int(hi)+3)
		if !acc.has(int64(max)) {
			r.bad("bsp_batch_size", "largest batch handed to the exporter has %d spans, expected a maximal batch size of %v (%s)", max, acc, describeSDK(c))
		}
	case "queue_size":
		emit(1)
		select {
		case <-rec.entered:
		case <-time.After(2 * time.Minute):
			r.bad("hang", "the first span never reached the exporter")
			close(rec.gate)
			finish()
			return
		}
		emit(int(hi) + 5)
		close(rec.gate)
		finish()
		r.live(rec)
		_, total, _ := rec.stats()
		if !acc.has(int64(total - 1)) {
			r.bad("bsp_queue_size", "with the exporter blocked, %d of %d ended spans were kept (queue capacity), expected %v (%s)", total-1, hi+5, acc, describeSDK(c))
		}
	case "schedule_delay":
		emit(1)
		want := acc[0]
		if want <= 100 {
			select {
			case <-rec.first:
			case <-time.After(3 * time.Second):
				r.bad("bsp_schedule_delay", "schedule delay %d ms expected but no export within 3 s (%s)", want, describeSDK(c))
			}
		} else {
			select {
			case <-rec.first:
				r.bad("bsp_schedule_delay", "schedule delay %d ms expected but a single span was exported within 100 ms (%s)", want, describeSDK(c))
			case <-time.After(100 * time.Millisecond):
			}
		}
		finish()
		r.delivered(rec, 1)
	case "export_timeout":
		emit(1)
		finish()
		r.delivered(rec, 1)
		_, _, dls := rec.stats()
		if len(dls) == 0 {
			r.bad("harness_assumption", "no export observed")
			return
		}
		checkDeadline(r, "bsp_export_timeout", dls[0], acc)
	}
}

func checkDeadline(r *sdkRun, kind string, got time.Duration, acc accept) {
	for _, a := range acc {
		if a == bspNonPositive {
			if got < 0 { // no deadline imposed by the processor
				return
			}
			continue
		}
		t := time.Duration(a) * time.Millisecond
		if got > t/2 && got <= t {
			return
		}
	}
	obs := got.String()
	if got < 0 {
		obs = "no deadline"
	}
	r.bad(kind, "the exporter's context has %s left, expected an export timeout of %v ms (0 = no deadline from the processor) (%s)", obs, acc, describeSDK(r.c))
}

// ---- log batch processor ----

func runBLRP(r *sdkRun, acc accept) {
	c := r.c
	var opts []sdklog.BatchProcessorOption
	focusOpt := func(o sdklog.BatchProcessorOption) {
		if c.Opt.State != absent {
			opts = append(opts, o)
		}
	}
	gated := false
	switch c.Setting {
	case "batch_size":
		opts = append(opts, sdklog.WithExportInterval(time.Hour))
		focusOpt(sdklog.WithExportMaxBatchSize(int(c.Opt.N)))
	case "queue_size":
		opts = append(opts, sdklog.WithExportInterval(time.Hour), sdklog.WithExportMaxBatchSize(1))
		focusOpt(sdklog.WithMaxQueueSize(int(c.Opt.N)))
		gated = acc != nil
	case "schedule_delay":
		focusOpt(sdklog.WithExportInterval(time.Duration(c.Opt.N) * time.Millisecond))
	case "export_timeout":
		opts = append(opts, sdklog.WithExportInterval(time.Hour))
		focusOpt(sdklog.WithExportTimeout(time.Duration(c.Opt.N) * time.Millisecond))
	}
	rec := &logRec{*newSpanRec(gated)}
	bp := sdklog.NewBatchProcessor(rec, opts...)
	lp := sdklog.NewLoggerProvider(sdklog.WithProcessor(bp))
	lg := lp.Logger("c20")
	emit := func(n int) {
		for i := 0; i < n; i++ {
			var rr log.Record
			rr.SetBody(log.StringValue("r"))
			lg.Emit(context.Background(), rr)
		}
	}
	finish := func() {
		ctx, cancel := longCtx()
		if c.Setting == "export_timeout" {
			ctx, cancel = noDeadlineCtx()
		}
		defer cancel()
		r.flushed("ForceFlush", lp.ForceFlush(ctx), c.Setting != "export_timeout")
		r.flushed("Shutdown", lp.Shutdown(ctx), c.Setting != "export_timeout")
	}
	if acc == nil {
		emit(3)
		finish()
		r.delivered(&rec.spanRec, 3)
		return
	}
	var hi int64
	for _, a := range acc {
		if a > hi {
			hi = a
		}
	}
	switch c.Setting {
	case "batch_size":
		emit(int(hi) + 3)
		finish()
		max, _, _ := rec.stats()
		r.delivered(&rec.spanRec, int(hi)+3)
		if !acc.has(int64(max)) {
			r.bad("blrp_batch_size", "largest batch handed to the exporter has %d records, expected a maximal batch size of %v (%s)", max, acc, describeSDK(c))
		}
	case "queue_size":
		emit(1)
		select {
		case <-rec.entered:
		case <-time.After(2 * time.Minute):
			r.bad("hang", "the first record never reached the exporter")
			close(rec.gate)
			finish()
			return
		}
		emit(int(hi) + 10)
		close(rec.gate)
		finish()
		r.live(&rec.spanRec)
		_, total, _ := rec.stats()
		// one record is inside the blocked exporter, at most one more sits in
		// the export buffer: capacity+1 <= total <= capacity+2
		ok := false
		for _, a := range acc {
			if int64(total) == a+1 || int64(total) == a+2 {
				ok = true
			}
		}
		if !ok {
			r.bad("blrp_queue_size", "with the exporter blocked, %d of %d emitted records were exported in the end; expected queue capacity %v (+1 exporting, +0..1 buffered) (%s)", total, hi+11, acc, describeSDK(c))
		}
	case "schedule_delay":
		emit(1)
		short := false
		for _, a := range acc {
			if a <= 100 {
				short = true
			}
		}
		if short && len(acc) > 1 {
			finish() // option below one with a short interval in the environment: either reading
			r.delivered(&rec.spanRec, 1)
			return
		}
		if short {
			select {
			case <-rec.first:
			case <-time.After(10 * time.Second):
				r.bad("blrp_schedule_delay", "export interval %v ms expected but no export within 10 s (%s)", acc, describeSDK(c))
			}
		} else {
			select {
			case <-rec.first:
				r.bad("blrp_schedule_delay", "export interval %v ms expected but a single record was exported within 100 ms (%s)", acc, describeSDK(c))
			case <-time.After(100 * time.Millisecond):
			}
		}
		finish()
		r.delivered(&rec.spanRec, 1)
	case "export_timeout":
		emit(1)
		finish()
		r.delivered(&rec.spanRec, 1)
		_, _, dls := rec.stats()
		if len(dls) == 0 {
			r.bad("harness_assumption", "no export observed")
			return
		}
		checkDeadline(r, "blrp_export_timeout", dls[0], acc)
	}
}

// ---- span limits ----

const manyItems = 140 // above every default of 128
const longValue = 300

func capOf(limit int64, n int) int {
	if limit < 0 || int64(n) < limit {
		return n
	}
	return int(limit)
}

func manyAttrs(n int) []attribute.KeyValue {
	out := make([]attribute.KeyValue, n)
	for i := range out {
		out[i] = attribute.Int(fmt.Sprintf("k%03d", i), i)
	}
	return out
}

func runSpanLimits(r *sdkRun, acc accept) {
	c := r.c
	var opts []sdktrace.TracerProviderOption
	if c.Opt.State != absent {
		sl := sdktrace.SpanLimits{
			AttributeValueLengthLimit: 1000, AttributeCountLimit: 1000, EventCountLimit: 1000,
			LinkCountLimit: 1000, AttributePerEventCountLimit: 1000, AttributePerLinkCountLimit: 1000,
		}
		n := int(c.Opt.N)
		switch c.Setting {
		case "attr_count":
			sl.AttributeCountLimit = n
		case "attr_len":
			sl.AttributeValueLengthLimit = n
		case "event_count":
			sl.EventCountLimit = n
		case "link_count":
			sl.LinkCountLimit = n
		case "event_attr_count":
			sl.AttributePerEventCountLimit = n
		case "link_attr_count":
			sl.AttributePerLinkCountLimit = n
		}
		if c.RawOpt {
			opts = append(opts, sdktrace.WithRawSpanLimits(sl))
		} else {
			opts = append(opts, sdktrace.WithSpanLimits(sl))
		}
	}
	exp := tracetest.NewInMemoryExporter()
	opts = append(opts, sdktrace.WithSyncer(exp), sdktrace.WithSampler(sdktrace.AlwaysSample()))
	tp := sdktrace.NewTracerProvider(opts...)
	_, sp := tp.Tracer("c20").Start(context.Background(), "s")
	sc := trace.NewSpanContext(trace.SpanContextConfig{TraceID: trace.TraceID{1}, SpanID: trace.SpanID{2}})
	switch c.Setting {
	case "attr_count":
		sp.SetAttributes(manyAttrs(manyItems)...)
	case "attr_len":
		sp.SetAttributes(attribute.String("long", strings.Repeat("x", longValue)))
	case "event_count":
		for i := 0; i < manyItems; i++ {
			sp.AddEvent("e")
		}
	case "link_count":
		for i := 0; i < manyItems; i++ {
			sp.AddLink(trace.Link{SpanContext: sc})
		}
	case "event_attr_count":
		sp.AddEvent("e", trace.WithAttributes(manyAttrs(manyItems)...))
	case "link_attr_count":
		sp.AddLink(trace.Link{SpanContext: sc, Attributes: manyAttrs(manyItems)})
	}
	sp.End()
	ctx, cancel := longCtx()
	defer cancel()
	r.checkDone("ForceFlush", tp.ForceFlush(ctx))
	spans := exp.GetSpans()
	r.checkDone("Shutdown", tp.Shutdown(ctx))
	if acc == nil {
		return
	}
	if len(spans) != 1 {
		r.bad("harness_assumption", "%d spans exported", len(spans))
		return
	}
	s := spans[0]
	got, n := -1, manyItems
	switch c.Setting {
	case "attr_count":
		got = len(s.Attributes)
	case "attr_len":
		n = longValue
		got = 0
		if len(s.Attributes) == 1 {
			got = len(s.Attributes[0].Value.AsString())
		}
	case "event_count":
		got = len(s.Events)
	case "link_count":
		got = len(s.Links)
	case "event_attr_count":
		if len(s.Events) == 1 {
			got = len(s.Events[0].Attributes)
		}
	case "link_attr_count":
		if len(s.Links) == 1 {
			got = len(s.Links[0].Attributes)
		}
	}
	for _, a := range acc {
		if got == capOf(a, n) {
			return
		}
	}
	r.bad("span_limit", "%d of %d kept, expected an effective limit of %v (-1 = unlimited) (%s, raw limits %v)", got, n, acc, describeSDK(c), c.RawOpt)
}

// ---- log record limits ----

type logCapture struct {
	mu   sync.Mutex
	recs []sdklog.Record
}

func (p *logCapture) OnEmit(_ context.Context, r *sdklog.Record) error {
	p.mu.Lock()
	p.recs = append(p.recs, r.Clone())
	p.mu.Unlock()
	return nil
}
func (p *logCapture) Shutdown(context.Context) error   { return nil }
func (p *logCapture) ForceFlush(context.Context) error { return nil }

func runLogLimits(r *sdkRun, acc accept) {
	c := r.c
	cap := &logCapture{}
	opts := []sdklog.LoggerProviderOption{sdklog.WithProcessor(cap)}
	if c.Opt.State != absent {
		if c.Setting == "attr_count" {
			opts = append(opts, sdklog.WithAttributeCountLimit(int(c.Opt.N)))
		} else {
			opts = append(opts, sdklog.WithAttributeValueLengthLimit(int(c.Opt.N)))
		}
	}
	lp := sdklog.NewLoggerProvider(opts...)
	var rr log.Record
	rr.SetBody(log.StringValue("r"))
	n := manyItems
	if c.Setting == "attr_count" {
		kvs := make([]log.KeyValue, manyItems)
		for i := range kvs {
			kvs[i] = log.Int(fmt.Sprintf("k%03d", i), i)
		}
		rr.AddAttributes(kvs...)
	} else {
		n = longValue
		rr.AddAttributes(log.String("long", strings.Repeat("x", longValue)))
	}
	lp.Logger("c20").Emit(context.Background(), rr)
	ctx, cancel := longCtx()
	defer cancel()
	r.checkDone("ForceFlush", lp.ForceFlush(ctx))
	r.checkDone("Shutdown", lp.Shutdown(ctx))
	if acc == nil {
		return
	}
	if len(cap.recs) != 1 {
		r.bad("harness_assumption", "%d records reached the processor", len(cap.recs))
		return
	}
	rec := cap.recs[0]
	got := rec.AttributesLen()
	if c.Setting == "attr_len" {
		got = -1
		rec.WalkAttributes(func(kv log.KeyValue) bool {
			got = len(kv.Value.AsString())
			return false
		})
	}
	for _, a := range acc {
		if got == capOf(a, n) {
			return
		}
	}
	r.bad("log_limit", "%d of %d kept, expected an effective limit of %v (-1 = unlimited) (%s)", got, n, acc, describeSDK(c))
}

// ---- sampler ----

func samplerOf(spec string) sdktrace.Sampler {
	name, arg, _ := strings.Cut(spec, ":")
	ratio := 1.0
	if arg != "" {
		ratio, _ = strconv.ParseFloat(arg, 64)
	}
	switch name {
	case "always_on":
		return sdktrace.AlwaysSample()
	case "always_off":
		return sdktrace.NeverSample()
	case "traceidratio":
		return sdktrace.TraceIDRatioBased(ratio)
	case "parentbased_always_on":
		return sdktrace.ParentBased(sdktrace.AlwaysSample())
	case "parentbased_always_off":
		return sdktrace.ParentBased(sdktrace.NeverSample())
	case "parentbased_traceidratio":
		return sdktrace.ParentBased(sdktrace.TraceIDRatioBased(ratio))
	}
	panic("harness bug: sampler spec " + spec)
}

const defaultSampler = "parentbased_always_on"

// envSamplerAccept: the sampler specs the environment may stand for; nil =
// the environment does not configure a sampler.
func envSamplerAccept(c SDKCase) []string {
	if c.Env.State == absent {
		return nil
	}
	name := c.EnvSampler
	var acc []string
	if c.EnvSKind == "bad" {
		return []string{defaultSampler}
	}
	if c.EnvSKind == "spelling" {
		acc = append(acc, defaultSampler)
		name = strings.ToLower(strings.TrimSpace(name))
	}
	if name != "traceidratio" && name != "parentbased_traceidratio" {
		return append(acc, name)
	}
	switch {
	case c.Arg.State == absent:
		acc = append(acc, name+":1")
	case c.Arg.Kind == "ok":
		acc = append(acc, name+":"+c.Arg.Raw)
	case c.Arg.Kind == "padded":
		acc = append(acc, name+":"+strings.TrimSpace(c.Arg.Raw), name+":1", defaultSampler)
	default:
		acc = append(acc, name+":1", defaultSampler)
	}
	return acc
}

type fixedIDs struct {
	mu  sync.Mutex
	ids []trace.TraceID
	n   uint64
}

func (g *fixedIDs) NewIDs(context.Context) (trace.TraceID, trace.SpanID) {
	g.mu.Lock()
	defer g.mu.Unlock()
	id := g.ids[int(g.n)%len(g.ids)]
	g.n++
	var sid trace.SpanID
	binary.BigEndian.PutUint64(sid[:], g.n)
	return id, sid
}

func (g *fixedIDs) NewSpanID(context.Context, trace.TraceID) trace.SpanID {
	g.mu.Lock()
	defer g.mu.Unlock()
	g.n++
	var sid trace.SpanID
	binary.BigEndian.PutUint64(sid[:], g.n)
	return sid
}

func probeIDs() []trace.TraceID {
	ids := make([]trace.TraceID, 16)
	for k := range ids {
		var id trace.TraceID
		id[0] = 0xaa
		binary.BigEndian.PutUint64(id[8:], uint64(k)<<60|uint64(0x0123456789abcde))
		ids[k] = id
	}
	return ids
}

func runSampler(r *sdkRun, env *envSetter) {
	c := r.c
	if c.Env.State != absent {
		env.set("OTEL_TRACES_SAMPLER", c.EnvSampler)
	}
	if c.Arg.State != absent {
		env.set("OTEL_TRACES_SAMPLER_ARG", c.Arg.Raw)
	}
	r.info.ClassIf(c.Env.State != absent, "env_sampler/"+strconv.Quote(c.EnvSampler))
	r.info.ClassIf(c.Arg.State != absent, "env_arg/"+strconv.Quote(c.Arg.Raw))

	envAcc := envSamplerAccept(c)
	var acc []string
	switch c.Opt.State {
	case valid:
		acc = []string{c.OptSampler}
	case invalid: // WithSampler(nil): undocumented, treated like "no option" or default
		acc = append(append([]string{}, envAcc...), defaultSampler)
	default:
		acc = envAcc
		if acc == nil {
			acc = []string{defaultSampler}
		}
	}

	ids := probeIDs()
	gen := &fixedIDs{ids: ids}
	exp := tracetest.NewInMemoryExporter()
	opts := []sdktrace.TracerProviderOption{sdktrace.WithIDGenerator(gen), sdktrace.WithSyncer(exp)}
	switch c.Opt.State {
	case valid:
		opts = append(opts, sdktrace.WithSampler(samplerOf(c.OptSampler)))
	case invalid:
		opts = append(opts, sdktrace.WithSampler(nil))
	}
	tp := sdktrace.NewTracerProvider(opts...)
	tr := tp.Tracer("c20")

	type probe struct {
		name   string
		parent context.Context
		id     trace.TraceID
	}
	var probes []probe
	for k, id := range ids {
		probes = append(probes, probe{fmt.Sprintf("root#%d", k), context.Background(), id})
	}
	for _, sampled := range []bool{true, false} {
		for _, k := range []int{1, 9, 14} {
			flags := trace.TraceFlags(0)
			if sampled {
				flags = trace.FlagsSampled
			}
			psc := trace.NewSpanContext(trace.SpanContextConfig{TraceID: ids[k], SpanID: trace.SpanID{7}, TraceFlags: flags, Remote: true})
			probes = append(probes, probe{fmt.Sprintf("child(sampled=%v)#%d", sampled, k), trace.ContextWithRemoteSpanContext(context.Background(), psc), ids[k]})
		}
	}
	got := make([]bool, len(probes))
	for i, p := range probes {
		_, sp := tr.Start(p.parent, "probe")
		got[i] = sp.SpanContext().IsSampled()
		sp.End()
	}
	ctx, cancel := longCtx()
	defer cancel()
	r.checkDone("ForceFlush", tp.ForceFlush(ctx))
	r.checkDone("Shutdown", tp.Shutdown(ctx))

	render := func(b []bool) string {
		var sb strings.Builder
		for _, x := range b {
			if x {
				sb.WriteByte('1')
			} else {
				sb.WriteByte('0')
			}
		}
		return sb.String()
	}
	var wants []string
	for _, spec := range acc {
		s := samplerOf(spec)
		want := make([]bool, len(probes))
		for i, p := range probes {
			res := s.ShouldSample(sdktrace.SamplingParameters{ParentContext: p.parent, TraceID: p.id, Name: "probe", Kind: trace.SpanKindInternal})
			want[i] = res.Decision == sdktrace.RecordAndSample
		}
		if render(want) == render(got) {
			return
		}
		wants = append(wants, spec+"="+render(want))
	}
	r.bad("sampler", "decisions %s (16 root trace ids, 3 children of sampled, 3 of unsampled remote parents) match none of the acceptable samplers %v; WithSampler %s, OTEL_TRACES_SAMPLER %s, OTEL_TRACES_SAMPLER_ARG %s",
		render(got), wants, map[int]string{absent: "absent", valid: c.OptSampler, invalid: "nil"}[c.Opt.State], srcText(SDKSrc{State: c.Env.State, Raw: c.EnvSampler}, false), srcText(c.Arg, false))
}

// ---------------------------------------------------------------------

func knownSDK() map[string]func(SDKCase, vk.Violation) bool {
	return map[string]func(SDKCase, vk.Violation) bool{
		// NewBatchSpanProcessor with a size of MaxInt64 (option, or queue size
		// through the environment): makechan / makeslice panic.
		"bsp_maxint_size_panics": func(c SDKCase, v vk.Violation) bool {
			if v.Kind != "panic" || c.Comp != "bsp" || (c.Setting != "batch_size" && c.Setting != "queue_size") {
				return false
			}
			if c.Opt.State == invalid && c.Opt.N == math.MaxInt64 {
				return true
			}
			return c.Setting == "queue_size" && c.Opt.State == absent && c.Env.State == invalid && c.Env.Kind == "maxint"
		},
	}
}

func TestSDKEnv(t *testing.T) {
	vk.Run(t, vk.Spec[SDKCase]{
		Property: "C20", Check: "sdk_env",
		Rule: "one setting of one SDK component (span batch processor, log batch processor, span limits, log record limits, sampler) with option / variable (/ generic variable) each absent, valid or invalid, texts from {number, \"\", abc, -1, 0, 20 digits, \" 5 \", 1e3, NaN, MaxInt64}; " +
			"or, 'mixed', ALL settings of one component in one provider, each independently through {option, variable, both, neither}, every setting judged on its own; " +
			"non-trivial = at least two sources provide the setting (sampler: option and OTEL_TRACES_SAMPLER both present; mixed: a setting comes from two sources or the settings come from different kinds of sources); distinct = distinct case encodings",
		Quick: 4400, Thorough: 55000,
		Gen: genSDK, Run: runSDK,
		Known: knownSDK(),
	})
}
