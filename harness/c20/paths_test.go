package c20

// Spelling dimension of URL paths (endpoint / path cells of the HTTP
// exporters).
//
// The statement says "a signal-specific endpoint [is] used verbatim", "the
// signal path appended to a generic endpoint" and that the URL path is taken
// from the highest-precedence source. An endpoint is a URL: its path may
// contain percent-encoded octets, characters that a client has to encode
// before it can put them on the wire (space, non-ASCII runes, quotes, ...),
// and reserved characters in either spelling. The generator therefore draws,
// for every source of an endpoint / path cell (both variables,
// WithEndpointURL, WithURLPath), a path segment with such characters, each in
// a spelling drawn independently (raw, %XX, %xx).
//
// Oracle (reading): the request must arrive at the path the source names,
// i.e. the percent-DECODED request path the collector saw must equal the
// percent-decoded path of the winning source (joined with /v1/<signal> for
// the generic variable). Comparing decoded forms is the conservative reading
// of "verbatim": a client may normalise the escaping (RFC 3986 6.2.2: case of
// the hex digits, escaping of characters that need none), it must not send
// the request to a different path. Escaping the path twice, not at all, or
// dropping a character all change the decoded path.
//
// NOT asserted, recorded under obs/path/...: whether the wire form keeps the
// user's escaping of RESERVED characters. All three pinned HTTP exporters
// store url.URL.Path (decoded) and re-encode it, so ".../a%2Fb/..." arrives as
// ".../a/b/...": RFC 3986 2.2 calls these two not equivalent, the statement's
// "verbatim" is not explicit enough to assert it.
//
// WithURLPath takes a path, not a URL: its argument is drawn without '%' so
// that "the path it names" does not depend on whether the exporter reads the
// argument as decoded or as escaped text (a string with a space or a
// non-ASCII rune is no valid escaped form, a client has to escape it).
//
// Not generated (they belong to the known finding
// KF-C20-http-signal-endpoint-path-cleaned: cleanPath = path.Clean +
// strings.TrimSpace on the decoded path): encoded dots, an encoded slash next
// to a slash, white space at either end of the path. Every rich segment
// starts and ends with an ASCII letter or digit and never has two special
// characters in a row.

import (
	"fmt"
	"net/url"
	"strings"

	"pgregory.net/rapid"
)

// richRunes: what a special position of a path segment may hold. -1 stands
// for the byte 0xFF (not UTF-8; can only be written percent-encoded).
var richRunes = []rune{
	' ', 'é', 'ß', '日', '𝄞', // need escaping on the wire
	'%', '/', '?', '#', -1, // have to be written escaped in a URL path to be data
	'A', 'z', '7', '~', '-', '_', // unreserved: escaping them is legal and equivalent
	'+', ';', ':', '@', ',', '=', '&', '$', // reserved, Go leaves them raw in a path
	'!', '\'', '(', ')', '*', '[', ']', // reserved, Go escapes them
	'"', '<', '>', '^', '`', '{', '|', '}', '\\', // neither reserved nor unreserved
}

const richLetters = "abkxyz0189"

// richTail draws the special part of a path segment: 1..3 special characters,
// each followed by a letter or digit. decodedForm: the text is a path (for
// WithURLPath), otherwise it is part of a URL and every character is written
// raw, %XX or %xx (characters that would not be path data when raw are always
// escaped).
func richTail(t *rapid.T, decodedForm bool) string {
	n := rapid.IntRange(1, 3).Draw(t, "rich_n")
	var b strings.Builder
	for j := 0; j < 3; j++ {
		r := rapid.SampledFrom(richRunes).Draw(t, "rich_rune")
		sp := rapid.IntRange(0, 2).Draw(t, "rich_spelling")
		l := richLetters[rapid.IntRange(0, len(richLetters)-1).Draw(t, "rich_letter")]
		if j >= n {
			continue
		}
		raw := string(r)
		if r == -1 {
			raw = "\xff"
		}
		switch {
		case decodedForm:
			if r == '%' || r == '/' || r == -1 {
				raw = "é"
			}
			b.WriteString(raw)
		case sp == 0 && !strings.ContainsRune("%/?#", r) && r != -1:
			b.WriteString(raw)
		default:
			f := "%%%02X"
			if sp == 2 {
				f = "%%%02x"
			}
			for k := 0; k < len(raw); k++ {
				fmt.Fprintf(&b, f, raw[k])
			}
		}
		b.WriteByte(l)
	}
	return b.String()
}

// urlPathDecoded is the path a URL with the (escaped) path p names.
func urlPathDecoded(p string) string {
	if !strings.ContainsAny(p, "%") {
		return p
	}
	u, err := url.Parse("http://127.0.0.1:1" + p)
	if err != nil {
		panic(fmt.Sprintf("harness bug: generated URL path %q does not parse: %v", p, err))
	}
	return u.Path
}

// isRichPath: escaping changes the text (either way).
func isRichPath(p string, decodedForm bool) bool {
	if decodedForm {
		return (&url.URL{Path: p}).EscapedPath() != p
	}
	u, err := url.Parse("http://127.0.0.1:1" + p)
	if err != nil {
		return false
	}
	return u.Path != p || u.EscapedPath() != p
}

const rfc3986Reserved = ":/?#[]@!$&'()*+,;="

// reservedLiteralised reports the reserved characters that the source URL
// path src spells percent-encoded and the wire path spells raw (both paths
// decode to the same text). Observation only.
func reservedLiteralised(src, wire string) string {
	type tok struct {
		b   byte
		enc bool
	}
	split := func(s string) []tok {
		var out []tok
		for i := 0; i < len(s); i++ {
			if s[i] == '%' && i+2 < len(s) {
				var v byte
				if _, err := fmt.Sscanf(s[i+1:i+3], "%02x", &v); err == nil {
					out = append(out, tok{v, true})
					i += 2
					continue
				}
			}
			out = append(out, tok{s[i], false})
		}
		return out
	}
	a, b := split(src), split(wire)
	if len(a) != len(b) {
		return ""
	}
	seen := ""
	for i := range a {
		if a[i].b != b[i].b {
			return ""
		}
		if a[i].enc && !b[i].enc && strings.IndexByte(rfc3986Reserved, a[i].b) >= 0 && strings.IndexByte(seen, a[i].b) < 0 {
			seen += string(a[i].b)
		}
	}
	return seen
}
