package c20

// Check "otlp_twins": SEVERAL exporters of one kind in one process.
//
// The statement speaks about "each OTLP exporter": every exporter takes each
// setting from the highest-precedence source that provides it - ITS sources,
// not those of another exporter that happens to live in the same process.
// otlp_precedence builds one exporter per case; here a case builds two or
// three exporters of the same kind, each with an independently generated
// configuration (every setting - endpoint, headers, compression, timeout, and
// the URL path for HTTP - independently from {option, signal variable,
// generic variable, nobody}, valid values only; plus connection options that
// change the shape of the derived configuration: WithServiceConfig,
// WithReconnectionPeriod, WithDialOption (a user agent), WithProxy), and drives them through a GENERATED
// interleaving of their life-cycle stages
//
//	construct -> start -> first export -> second export
//
// For the trace exporters construct and start are separate calls in three
// of four modes (pkg.NewUnstarted + Start; pkg.NewClient +
// otlptrace.NewUnstarted + Start; pkg.NewClient, later otlptrace.New), so a
// member may be started / first used long after another member with a
// different configuration was constructed. The metric and log exporters only
// have New; their construct stage includes the start.
//
// The environment variables of a member are set while ITS construct and start
// stages run and removed afterwards (exporters read the environment when they
// are built; having them in force during Start as well keeps the oracle
// independent of when exactly the library reads them).
//
// Oracle: every member is judged on its own against the plain precedence walk
// option > signal variable > generic variable > default over its own sources
// (all values valid, so no reading of invalid values is involved): which
// collector received each of its two exports, the common header, the
// encoding, the gRPC deadline, the HTTP path (same path rule as
// otlp_precedence). Nothing is asserted about header keys of other members
// showing up (recorded as a class).

import (
	"context"
	"fmt"
	"net/url"
	"strconv"
	"strings"
	"testing"
	"time"

	"go.opentelemetry.io/otel/exporters/otlp/otlptrace"
	"go.opentelemetry.io/otel/exporters/otlp/otlptrace/otlptracegrpc"
	"go.opentelemetry.io/otel/exporters/otlp/otlptrace/otlptracehttp"
	"go.opentelemetry.io/otel/sdk/trace/tracetest"
	"go.opentelemetry.io/otel/verif/internal/vk"
	"pgregory.net/rapid"
)

// TwinSetting is one setting of one member: which of the three sources
// provide it and what each says.
type TwinSetting struct {
	On   [3]bool  `json:"on"`   // option, signal variable, generic variable
	Coll [3]int   `json:"coll"` // endpoint: collector
	Gzip [3]bool  `json:"gzip"` // compression
	Ms   [3]int64 `json:"ms"`   // timeout
}

// TwinMember is the configuration of one exporter of the case.
type TwinMember struct {
	Endpoint    TwinSetting `json:"endpoint"`
	Headers     TwinSetting `json:"headers"`
	Compression TwinSetting `json:"compression"`
	Timeout     TwinSetting `json:"timeout"`
	PathOpt     bool        `json:"path_opt"`  // HTTP: WithURLPath
	SvcCfg      bool        `json:"svc_cfg"`   // gRPC: WithServiceConfig
	Reconnect   bool        `json:"reconnect"` // gRPC: WithReconnectionPeriod
	Proxy       bool        `json:"proxy"`     // HTTP: WithProxy(direct)
	DialOpt     bool        `json:"dial_opt"`  // gRPC: WithDialOption(a harmless option)
	// Mode (trace exporters; 0 for the others): 0 pkg.New; 1 pkg.NewUnstarted,
	// Start later; 2 pkg.NewClient + otlptrace.NewUnstarted, Start later; 3
	// pkg.NewClient, otlptrace.New later.
	Mode int `json:"mode"`
}

// TwinCase: the members and the interleaving of their stages. Schedule[k]
// names the member whose next stage runs at step k (a member without stages
// left passes the turn to the next one that has).
type TwinCase struct {
	Exporter string       `json:"exporter"`
	Members  []TwinMember `json:"members"`
	Schedule []int        `json:"schedule"`
}

func genTwinSetting(t *rapid.T, name string, mustProvide bool) TwinSetting {
	var s TwinSetting
	for i := 0; i < 3; i++ {
		s.On[i] = rapid.Bool().Draw(t, name+"_on_"+srcNames[i])
		s.Coll[i] = rapid.IntRange(0, 2).Draw(t, name+"_coll")
		s.Gzip[i] = rapid.Bool().Draw(t, name+"_gzip")
		s.Ms[i] = grpcTimeouts[rapid.IntRange(0, len(grpcTimeouts)-1).Draw(t, name+"_ms")]
	}
	if mustProvide && !s.On[0] && !s.On[1] && !s.On[2] {
		s.On[rapid.IntRange(0, 2).Draw(t, name+"_forced")] = true
	}
	return s
}

func genTwins(t *rapid.T) TwinCase {
	c := TwinCase{}
	// the exporters with a separate Start get half of the cases
	if rapid.Bool().Draw(t, "trace") {
		c.Exporter = exporterNames[rapid.IntRange(0, 1).Draw(t, "trace_exporter")]
	} else {
		c.Exporter = exporterNames[uniform(t, len(exporterNames), "exporter")]
	}
	trace := signalOf(c.Exporter) == "TRACES"
	n := rapid.IntRange(2, 3).Draw(t, "members")
	for i := 0; i < n; i++ {
		m := TwinMember{
			// the default endpoint is not one of the collectors: some source
			// always names one
			Endpoint:    genTwinSetting(t, "endpoint", true),
			Headers:     genTwinSetting(t, "headers", false),
			Compression: genTwinSetting(t, "compression", false),
			Timeout:     genTwinSetting(t, "timeout", false),
		}
		if isGRPC(c.Exporter) {
			m.SvcCfg = rapid.Bool().Draw(t, "service_config")
			m.Reconnect = rapid.Bool().Draw(t, "reconnection_period")
			m.DialOpt = rapid.Bool().Draw(t, "dial_option")
		} else {
			m.PathOpt = rapid.Bool().Draw(t, "url_path")
			m.Proxy = rapid.Bool().Draw(t, "proxy")
		}
		if trace {
			m.Mode = rapid.IntRange(0, 3).Draw(t, "mode")
		}
		c.Members = append(c.Members, m)
	}
	c.Schedule = rapid.SliceOfN(rapid.IntRange(0, n-1), 4*n, 4*n).Draw(t, "schedule")
	return c
}

// twinWinner: index of the first source that provides the setting, 3 = default.
func twinWinner(s TwinSetting) int {
	for i := 0; i < 3; i++ {
		if s.On[i] {
			return i
		}
	}
	return 3
}

func twinHdr(member, src int) string { return fmt.Sprintf("m%d-%s", member, srcNames[src]) }

func twinOwnKey(member int) string { return fmt.Sprintf("x-verif-own-m%d", member) }

// twinEnv puts the variables of member i into the environment.
func twinEnv(c TwinCase, i int, env *envSetter) {
	m := c.Members[i]
	a := addrs(c.Exporter)
	pfx := [3]string{"", "OTEL_EXPORTER_OTLP_" + signalOf(c.Exporter) + "_", "OTEL_EXPORTER_OTLP_"}
	for s := 1; s <= 2; s++ {
		if m.Endpoint.On[s] {
			u := "http://" + a[m.Endpoint.Coll[s]]
			if !isGRPC(c.Exporter) {
				u += fmt.Sprintf("/m%d/%s", i, srcNames[s])
			}
			env.set(pfx[s]+"ENDPOINT", u)
		}
		if m.Headers.On[s] {
			env.set(pfx[s]+"HEADERS", hdrKey+"="+twinHdr(i, s)+","+twinOwnKey(i)+"=1")
		}
		if m.Compression.On[s] {
			env.set(pfx[s]+"COMPRESSION", map[bool]string{true: "gzip", false: "none"}[m.Compression.Gzip[s]])
		}
		if m.Timeout.On[s] {
			env.set(pfx[s]+"TIMEOUT", strconv.FormatInt(m.Timeout.Ms[s], 10))
		}
	}
}

// twinOpts is the programmatic configuration of member i.
func twinOpts(c TwinCase, i int) optSet {
	m := c.Members[i]
	a := addrs(c.Exporter)
	var o optSet
	if m.Endpoint.On[0] {
		v := a[m.Endpoint.Coll[0]]
		o.endpoint = &v
	}
	if m.Headers.On[0] {
		o.hasHeaders = true
		o.headers = map[string]string{hdrKey: twinHdr(i, 0), twinOwnKey(i): "1"}
	}
	if m.Compression.On[0] {
		if isGRPC(c.Exporter) {
			v := map[bool]string{true: "gzip", false: "none"}[m.Compression.Gzip[0]]
			o.compressor = &v
		} else {
			n := map[bool]int{true: 1, false: 0}[m.Compression.Gzip[0]]
			o.compression = &n
		}
	}
	if m.Timeout.On[0] {
		d := time.Duration(m.Timeout.Ms[0]) * time.Millisecond
		o.timeout = &d
	}
	if m.PathOpt {
		v := fmt.Sprintf("/m%d/opt", i)
		o.urlPath = &v
	}
	if m.SvcCfg {
		v := "{}"
		o.serviceConfig = &v
	}
	if m.Reconnect {
		d := 7 * time.Second
		o.reconnect = &d
	}
	if m.DialOpt {
		v := fmt.Sprintf("verif-m%d", i)
		o.dialOption = &v
	}
	o.proxy = m.Proxy
	return o
}

// twinPath is the URL path member i must send to (HTTP exporters).
func twinPath(c TwinCase, i int) string {
	m := c.Members[i]
	switch {
	case m.PathOpt:
		return fmt.Sprintf("/m%d/opt", i)
	case m.Endpoint.On[1]:
		return fmt.Sprintf("/m%d/sig", i)
	case m.Endpoint.On[2]:
		return fmt.Sprintf("/m%d/gen", i) + signalPath(c.Exporter)
	}
	return signalPath(c.Exporter)
}

// twinStages returns the stages of member i before its exports: construct
// and, when the mode separates them, start. cl is filled in by the last one.
func twinStages(exp string, mode int, o optSet, cl **client) []func() error {
	ctx := context.Background()
	wrap := func(e *otlptrace.Exporter) *client {
		return &client{
			export: func(ctx context.Context, mark string) error {
				return e.ExportSpans(ctx, tracetest.SpanStubs{{Name: mark}}.Snapshots())
			},
			shutdown: e.Shutdown,
		}
	}
	if mode == 0 {
		return []func() error{func() error {
			c, err := build(exp, o)
			*cl = c
			return err
		}}
	}
	newClient := func() otlptrace.Client {
		if exp == "otlptracegrpc" {
			return otlptracegrpc.NewClient(traceGRPCOptions(o)...)
		}
		return otlptracehttp.NewClient(traceHTTPOptions(o)...)
	}
	var e *otlptrace.Exporter
	var tc otlptrace.Client
	switch mode {
	case 1:
		return []func() error{
			func() error {
				if exp == "otlptracegrpc" {
					e = otlptracegrpc.NewUnstarted(traceGRPCOptions(o)...)
				} else {
					e = otlptracehttp.NewUnstarted(traceHTTPOptions(o)...)
				}
				return nil
			},
			func() error { *cl = wrap(e); return e.Start(ctx) },
		}
	case 2:
		return []func() error{
			func() error { tc = newClient(); e = otlptrace.NewUnstarted(tc); return nil },
			func() error { *cl = wrap(e); return e.Start(ctx) },
		}
	case 3:
		return []func() error{
			func() error { tc = newClient(); return nil },
			func() error {
				var err error
				e, err = otlptrace.New(ctx, tc)
				if err == nil {
					*cl = wrap(e)
				}
				return err
			},
		}
	}
	panic("harness bug: unknown mode")
}

// takeNonces returns the recorded requests that carry one of the nonces,
// keyed by nonce, and forgets everything recorded so far.
func (c *collectors) takeNonces(nonces map[int64]bool) map[int64][]request {
	c.mu.Lock()
	defer c.mu.Unlock()
	out := map[int64][]request{}
	for _, r := range c.reqs {
		if nonces[r.Nonce] {
			out[r.Nonce] = append(out[r.Nonce], r)
		}
	}
	c.reqs = nil
	return out
}

func runTwins(c TwinCase) (vs []vk.Violation, info vk.Info) {
	bad := func(kind string, observed any, format string, a ...any) {
		v := vk.V(kind, format, a...)
		v.Observed = observed
		vs = append(vs, v)
	}
	if err := colls.start(); err != nil {
		panic("harness: cannot start the loopback collectors: " + err.Error())
	}
	colls.httpDelay.Store(0)
	colls.grpcDelay.Store(0)
	grpc := isGRPC(c.Exporter)
	n := len(c.Members)

	// ---- classification ----
	info.Class("exp/" + c.Exporter)
	info.Class(fmt.Sprintf("members/%d", n))
	differ := map[string]bool{}
	for i := 1; i < n; i++ {
		a, b := c.Members[0], c.Members[i]
		if a.Endpoint.Coll[twinWinner(a.Endpoint)] != b.Endpoint.Coll[twinWinner(b.Endpoint)] {
			differ["endpoint"] = true
		}
		if twinGzip(a) != twinGzip(b) {
			differ["compression"] = true
		}
		if twinTimeout(a) != twinTimeout(b) {
			differ["timeout"] = true
		}
		if (twinWinner(a.Headers) == 3) != (twinWinner(b.Headers) == 3) {
			differ["headers_present"] = true
		}
		if a.SvcCfg != b.SvcCfg || a.Reconnect != b.Reconnect || a.Proxy != b.Proxy || a.DialOpt != b.DialOpt {
			differ["connection_options"] = true
		}
	}
	for k := range differ {
		info.Class("members_differ/" + k)
	}
	info.NonTrivial = len(differ) >= 2
	for _, m := range c.Members {
		info.Class(fmt.Sprintf("mode/%s", [...]string{"New", "NewUnstarted+Start", "NewClient+otlptrace.NewUnstarted+Start", "NewClient+otlptrace.New"}[m.Mode]))
	}

	// ---- execution ----
	clients := make([]*client, n)
	stages := make([][]func() error, n)
	next := make([]int, n)
	exportsDone := make([]int, n)
	failed := make([]error, n)
	nonceOf := make([][2]int64, n)
	exportErr := make([][2]error, n)
	all := map[int64]bool{}
	constructedAt := make([]int, n)
	startedAt := make([]int, n)
	for i := range c.Members {
		stages[i] = twinStages(c.Exporter, c.Members[i].Mode, twinOpts(c, i), &clients[i])
		for k := 0; k < 2; k++ {
			nonceOf[i][k] = nextNonce()
			all[nonceOf[i][k]] = true
		}
	}
	remaining := func(i int) bool { return failed[i] == nil && (next[i] < len(stages[i]) || exportsDone[i] < 2) }
	defer func() {
		for i := range clients {
			if clients[i] != nil && next[i] == len(stages[i]) && failed[i] == nil {
				sctx, cancel := context.WithTimeout(context.Background(), time.Minute)
				_ = clients[i].shutdown(sctx)
				cancel()
			}
		}
	}()
	step := 0
	for _, pick := range c.Schedule {
		i := -1
		for k := 0; k < n; k++ {
			if remaining((pick + k) % n) {
				i = (pick + k) % n
				break
			}
		}
		if i < 0 {
			break
		}
		step++
		if next[i] < len(stages[i]) {
			env := &envSetter{}
			twinEnv(c, i, env)
			err := stages[i][next[i]]()
			env.restore()
			if next[i] == 0 {
				constructedAt[i] = step
			}
			next[i]++
			if next[i] == len(stages[i]) {
				startedAt[i] = step
			}
			if err != nil {
				failed[i] = err
			}
			continue
		}
		k := exportsDone[i]
		ctx, cancel := context.WithTimeout(context.Background(), 10*time.Minute)
		exportErr[i][k] = clients[i].export(ctx, marker(nonceOf[i][k]))
		cancel()
		exportsDone[i]++
	}
	got := colls.takeNonces(all)

	lateStart := false
	for i := 0; i < n; i++ {
		for j := 0; j < n; j++ {
			if i != j && constructedAt[j] > constructedAt[i] && constructedAt[j] < startedAt[i] {
				lateStart = true
			}
		}
	}
	info.ClassIf(lateStart, "schedule/started_after_another_was_constructed")
	info.ClassIf(lateStart, "schedule/started_after_another_was_constructed/"+c.Exporter)
	info.ClassIf(lateStart && differ["compression"], "schedule/started_after_another_was_constructed/compression_differs")
	info.ClassIf(!lateStart, "schedule/every_start_before_the_next_construction")

	// ---- oracle: every member against its own configuration ----
	for i, m := range c.Members {
		who := fmt.Sprintf("%s, exporter %d of %d (%s)", c.Exporter, i+1, n, [...]string{"New", "NewUnstarted+Start", "NewClient+otlptrace.NewUnstarted+Start", "NewClient+otlptrace.New"}[m.Mode])
		if failed[i] != nil {
			// a valid configuration that cannot be built / started delivers
			// nothing to the endpoint its sources name
			w := twinWinner(m.Endpoint)
			bad("twin_not_received", failed[i].Error(), "%s: collector %c must receive its exports (endpoint from %s) but construct / start failed with a valid configuration: %v", who, 'A'+m.Endpoint.Coll[w], winnerName(w), failed[i])
			continue
		}
		epW := twinWinner(m.Endpoint)
		wantColl := m.Endpoint.Coll[epW]
		hdW := twinWinner(m.Headers)
		var wantHdr []string
		if hdW < 3 {
			wantHdr = []string{twinHdr(i, hdW)}
		}
		wantEnc := ""
		if twinGzip(m) {
			wantEnc = "gzip"
		}
		wantT := twinTimeout(m)
		for k := 0; k < exportsDone[i]; k++ {
			reqs := got[nonceOf[i][k]]
			if len(reqs) == 0 {
				bad("twin_not_received", nil, "%s: export %d: collector %c must receive the request (endpoint from %s), nobody did; export error %v", who, k+1, 'A'+wantColl, winnerName(epW), exportErr[i][k])
			}
			for _, r := range reqs {
				if r.Coll != wantColl {
					bad("twin_wrong_receiver", r.Coll, "%s: export %d received by collector %c, its own endpoint (from %s) is collector %c", who, k+1, 'A'+r.Coll, winnerName(epW), 'A'+wantColl)
				}
				if h := r.Header["X-Verif-Src"]; !sameStrs(h, wantHdr) {
					bad("twin_header_mismatch", h, "%s: export %d: header %s = %q, its own configuration gives %q (from %s)", who, k+1, hdrKey, h, wantHdr, winnerName(hdW))
				}
				for j := 0; j < n; j++ {
					if j != i && len(r.Header[httpCanon(twinOwnKey(j))]) > 0 {
						info.Class("obs/header_key_of_another_exporter_seen")
					}
				}
				if r.Encoding != wantEnc {
					bad("twin_compression_mismatch", r.Encoding, "%s: export %d sent with encoding %q, its own configuration gives %q (compression from %s)", who, k+1, r.Encoding, wantEnc, winnerName(twinWinner(m.Compression)))
				}
				if grpc {
					lo, hi := wantT/2, wantT+100*time.Millisecond
					if !r.HasDL || r.Deadline <= lo || r.Deadline > hi {
						bad("twin_timeout_mismatch", r.Deadline.String(), "%s: export %d arrived with deadline %v (has deadline %v), its own configuration gives a timeout of %v (from %s)", who, k+1, r.Deadline, r.HasDL, wantT, winnerName(twinWinner(m.Timeout)))
					}
				} else {
					wire, err := url.PathUnescape(r.Path)
					if err != nil {
						wire = r.Path
					}
					if want := twinPath(c, i); wire != want {
						bad("twin_path_mismatch", wire, "%s: export %d sent to path %q, its own configuration gives %q", who, k+1, wire, want)
					}
				}
			}
		}
	}
	return vs, info
}

func httpCanon(k string) string {
	parts := strings.Split(k, "-")
	for i, p := range parts {
		if p != "" {
			parts[i] = strings.ToUpper(p[:1]) + p[1:]
		}
	}
	return strings.Join(parts, "-")
}

func twinGzip(m TwinMember) bool {
	w := twinWinner(m.Compression)
	return w < 3 && m.Compression.Gzip[w]
}

func twinTimeout(m TwinMember) time.Duration {
	w := twinWinner(m.Timeout)
	if w == 3 {
		return 10 * time.Second
	}
	return time.Duration(m.Timeout.Ms[w]) * time.Millisecond
}

func TestOTLPTwins(t *testing.T) {
	vk.Run(t, vk.Spec[TwinCase]{
		Property: "C20", Check: "otlp_twins",
		Rule: "two or three exporters of one kind (six kinds; the trace exporters, which have a separate Start, get half of the cases) with independently generated valid configurations (endpoint, headers, compression, timeout, HTTP URL path each from {option, signal env, generic env, nobody}; WithServiceConfig / WithReconnectionPeriod / WithDialOption / WithProxy), " +
			"their stages construct -> start -> export -> export interleaved by a generated schedule (trace exporters: New | NewUnstarted+Start | NewClient+otlptrace.NewUnstarted+Start | NewClient+otlptrace.New); every exporter judged against its own configuration; " +
			"non-trivial = the members differ in at least two of endpoint / compression / timeout / headers present / connection options",
		Quick: 500, Thorough: 7500,
		Gen: genTwins, Run: runTwins,
		CaseTimeout: 3 * time.Minute,
	})
}
