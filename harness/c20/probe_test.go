package c20

import (
	"context"
	"fmt"
	"os"
	"testing"
	"time"
)

func probeOne(t *testing.T, exp string, env map[string]string, o optSet, to time.Duration) (res string) {
	defer func() {
		if p := recover(); p != nil {
			res = fmt.Sprintf("PANIC %v", p)
		}
	}()
	for k, v := range env {
		os.Setenv(k, v)
	}
	defer func() {
		for k := range env {
			os.Unsetenv(k)
		}
	}()
	n := nextNonce()
	cl, err := build(exp, o)
	if err != nil {
		return "CONSTRUCT-ERR " + err.Error()
	}
	ctx, cancel := context.WithTimeout(context.Background(), to)
	t0 := time.Now()
	eerr := cl.export(ctx, marker(n))
	el := time.Since(t0)
	cancel()
	sctx, c2 := context.WithTimeout(context.Background(), 5*time.Second)
	_ = cl.shutdown(sctx)
	c2()
	rs := colls.take(n)
	s := fmt.Sprintf("err=%v el=%v reqs=%d", eerr, el.Round(time.Millisecond), len(rs))
	for _, r := range rs {
		s += fmt.Sprintf(" [coll=%d path=%q enc=%q hdr=%v dl=%v/%v]", r.Coll, r.Path, r.Encoding, r.Header["X-Verif-Src"], r.HasDL, r.Deadline.Round(time.Millisecond))
	}
	return s
}

func TestProbe(t *testing.T) {
	if os.Getenv("C20_PROBE") == "" {
		t.Skip()
	}
	if err := colls.start(); err != nil {
		t.Fatal(err)
	}
	for _, exp := range exporterNames {
		sig := signalOf(exp)
		addr := colls.httpAddr
		if isGRPC(exp) {
			addr = colls.grpcAddr
		}
		A, B, C := addr[0], addr[1], addr[2]
		_ = C
		p := func(name string, env map[string]string, o optSet) {
			t.Logf("%-15s %-40s %s", exp, name, probeOne(t, exp, env, o, 2*time.Second))
		}
		S := "OTEL_EXPORTER_OTLP_" + sig + "_"
		G := "OTEL_EXPORTER_OTLP_"
		p("opt endpoint", nil, optSet{endpoint: &A})
		u := "http://" + A
		p("opt endpointURL nopath", nil, optSet{endpointURL: &u})
		u2 := "http://" + A + "/opt/p/"
		p("opt endpointURL path/", nil, optSet{endpointURL: &u2})
		p("gen url", map[string]string{G + "ENDPOINT": "http://" + B}, optSet{})
		p("gen url base/", map[string]string{G + "ENDPOINT": "http://" + B + "/base/"}, optSet{})
		p("gen url /", map[string]string{G + "ENDPOINT": "http://" + B + "/"}, optSet{})
		p("sig url nopath", map[string]string{S + "ENDPOINT": "http://" + B}, optSet{})
		p("sig url /x/y/", map[string]string{S + "ENDPOINT": "http://" + B + "/x/y/"}, optSet{})
		p("sig url /x//y", map[string]string{S + "ENDPOINT": "http://" + B + "/x//y"}, optSet{})
		p("sig bad + gen ok", map[string]string{S + "ENDPOINT": "http://[::1", G + "ENDPOINT": "http://" + B}, optSet{})
		p("sig noscheme + gen ok", map[string]string{S + "ENDPOINT": C, G + "ENDPOINT": "http://" + B}, optSet{})
		p("sig padded + gen ok", map[string]string{S + "ENDPOINT": " http://" + C + " ", G + "ENDPOINT": "http://" + B}, optSet{})
		p("sig garbage + gen ok", map[string]string{S + "ENDPOINT": "abc", G + "ENDPOINT": "http://" + B}, optSet{})
		p("sig spaces + gen ok", map[string]string{S + "ENDPOINT": "   ", G + "ENDPOINT": "http://" + B}, optSet{})
		bad := "http://[::1"
		p("opt badurl + gen ok", map[string]string{G + "ENDPOINT": "http://" + B}, optSet{endpointURL: &bad})
		empty := ""
		p("opt endpoint '' + gen ok", map[string]string{G + "ENDPOINT": "http://" + B}, optSet{endpoint: &empty})
		p("opt urlpath '' + sig path", map[string]string{S + "ENDPOINT": "http://" + B + "/sigp"}, optSet{urlPath: &empty})
		pp := "opt/rel"
		p("opt urlpath rel", map[string]string{S + "ENDPOINT": "http://" + B + "/sigp"}, optSet{urlPath: &pp})
		// compression
		p("gen gzip", map[string]string{G + "COMPRESSION": "gzip"}, optSet{endpoint: &A})
		p("sig none gen gzip", map[string]string{S + "COMPRESSION": "none", G + "COMPRESSION": "gzip"}, optSet{endpoint: &A})
		p("sig zstd gen gzip", map[string]string{S + "COMPRESSION": "zstd", G + "COMPRESSION": "gzip"}, optSet{endpoint: &A})
		p("sig ' gzip ' gen none", map[string]string{S + "COMPRESSION": " gzip ", G + "COMPRESSION": "none"}, optSet{endpoint: &A})
		p("sig GZIP gen none", map[string]string{S + "COMPRESSION": "GZIP", G + "COMPRESSION": "none"}, optSet{endpoint: &A})
		c7 := 7
		z := "zstd"
		p("opt invalid gen gzip", map[string]string{G + "COMPRESSION": "gzip"}, optSet{endpoint: &A, compression: &c7, compressor: &z})
		// headers
		p("gen hdr", map[string]string{G + "HEADERS": "x-verif-src=g"}, optSet{endpoint: &A})
		p("sig partial gen ok", map[string]string{S + "HEADERS": "x-verif-src=s,broken", G + "HEADERS": "x-verif-src=g"}, optSet{endpoint: &A})
		p("sig noeq gen ok", map[string]string{S + "HEADERS": "broken", G + "HEADERS": "x-verif-src=g"}, optSet{endpoint: &A})
		p("sig other key gen ok", map[string]string{S + "HEADERS": "x-other=1", G + "HEADERS": "x-verif-src=g"}, optSet{endpoint: &A})
		p("opt bad key gen ok", map[string]string{G + "HEADERS": "x-verif-src=g"}, optSet{endpoint: &A, hasHeaders: true, headers: map[string]string{"bad key": "v"}})
		p("opt bad val gen ok", map[string]string{G + "HEADERS": "x-verif-src=g"}, optSet{endpoint: &A, hasHeaders: true, headers: map[string]string{"x-verif-src": "a\nb"}})
		// timeout
		p("gen timeout 25000", map[string]string{G + "TIMEOUT": "25000"}, optSet{endpoint: &A})
		p("sig abc gen 25000", map[string]string{S + "TIMEOUT": "abc", G + "TIMEOUT": "25000"}, optSet{endpoint: &A})
		p("sig ' 60000 ' gen 25000", map[string]string{S + "TIMEOUT": " 60000 ", G + "TIMEOUT": "25000"}, optSet{endpoint: &A})
		p("sig -1 gen 25000", map[string]string{S + "TIMEOUT": "-1", G + "TIMEOUT": "25000"}, optSet{endpoint: &A})
		p("sig 0 gen 25000", map[string]string{S + "TIMEOUT": "0", G + "TIMEOUT": "25000"}, optSet{endpoint: &A})
		neg := -time.Second
		p("opt -1s gen 25000", map[string]string{G + "TIMEOUT": "25000"}, optSet{endpoint: &A, timeout: &neg})
		zero := time.Duration(0)
		p("opt 0 gen 25000", map[string]string{G + "TIMEOUT": "25000"}, optSet{endpoint: &A, timeout: &zero})
		p("nothing (default endpoint)", nil, optSet{})
	}
}
