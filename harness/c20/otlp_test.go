// Package c20 decides property C20 (configuration precedence is uniform and
// bad values never crash the host).
//
// Family A (this file, check "otlp_precedence"): the six OTLP exporters. A
// case is ONE cell of the product
//
//	6 exporters x 5 settings x {absent, valid, invalid}^3 (option, signal env, generic env)
//
// (810 cells, the cell index is drawn uniformly) plus the concrete values
// drawn by rapid. Three loopback collectors A/B/C record who received the
// export request and how (collectors_test.go).
//
// Oracle, for the setting of the cell: walk the sources in precedence order
// option > signal-specific variable > generic variable > default.
//
//   - absent: next source;
//   - valid: this source decides ("winner"); what the collectors saw must be
//     what it says;
//   - invalid, of a kind every one of the six exporters ignores (empty
//     variable, unparsable URL, non-integer timeout, WithEndpointURL with an
//     unparsable URL - the latter documented: "If an invalid URL is provided,
//     the default value will be kept"): next source;
//   - set but blank (" ", "\t", "  \t "): skipped like an empty variable by
//     the otlptrace* / otlpmetric* exporters for every setting and by the
//     otlplog* exporters for headers, compression and timeout (blankIgnored
//     quotes the readers): next source;
//   - invalid, of any other kind (unknown compression name, malformed header
//     list, padded value, negative timeout, out-of-range option value, ...):
//     the exporters differ (ignore vs shadow) and document nothing, so NOTHING
//     is asserted about the outcome beyond "constructor + one export round +
//     shutdown neither panic nor hang"; what was seen is recorded in the
//     class table as obs/... = ignored | shadowed | not_delivered.
//
// Path rule (HTTP): generic endpoint => base path joined with /v1/<signal>;
// signal-specific endpoint => its path verbatim, "/" when empty; WithURLPath
// and WithEndpointURL (with a path) override; WithEndpoint leaves the path to
// the lower sources. Paths are compared percent-decoded and are also drawn
// with characters that URL escaping touches (paths_test.go); header values
// are drawn with special characters and optional white space
// (headers_spelling_test.go); environment timeouts also with leading zeros.
//
// Readings:
//   - TLS is out of scope: WithInsecure is always passed, every URL is http://.
//   - Retry is disabled (WithRetry{Enabled:false}) so that one export round
//     is one request; retry is not one of the statement's settings.
//   - "none" counts as a valid compression value (OTel specification; the log
//     exporters document it, the others map everything but "gzip" to none).
//   - Header precedence is asserted only for the common key x-verif-src.
//   - WithEndpointURL without a path and WithURLPath("") are not asserted
//     (otlptrace/otlpmetric fall back to /v1/<signal>, otlploghttp sends to
//     "/"): the statement does not say which.
//   - gRPC exporters have no URL path. In their "path" cells the environment
//     endpoints carry a path and the option is WithEndpointURL with a path;
//     asserted is only the receiver when the option wins or when the path is
//     empty or "/" (otlptracegrpc / otlpmetricgrpc join a longer path into
//     the dial target, otlploggrpc drops it: recorded, not asserted).
//   - Transport supplied by the caller (a third of the cases, crossed with
//     every cell): the gRPC exporters get WithGRPCConn(conn), conn dialled by
//     the harness to one of the collectors. The option documents that it
//     "takes precedence over any other option that relates to establishing or
//     persisting a gRPC connection" and WithEndpoint, WithEndpointURL,
//     WithInsecure, WithTLSCredentials, WithCompressor, WithReconnectionPeriod,
//     WithServiceConfig, WithDialOption "have no effect if WithGRPCConn is
//     used" (WithCompressor of otlptracegrpc does not say so but its only
//     effect is a dial option). Hence endpoint, security and compression are
//     the connection's: the request must arrive at the connection's collector
//     whatever the endpoint / compression sources say, the encoding is not
//     asserted. Headers (per-request metadata) and timeout (per-request
//     deadline) still follow option > signal variable > generic variable >
//     default and are read from what the collector received. The HTTP
//     exporters have no WithHTTPClient; WithProxy(func returning no proxy)
//     makes them clone their transport and leaves every setting in force.
//   - HTTP timeout: the collector answers after 80 ms when the winning
//     timeout is long (5..30 s or the default 10 s) => the export must
//     succeed; when the winning timeout is 10..30 ms the collector would
//     answer after 3 s => the export must fail (DESIGN.md names 300 ms / 20 ms
//     / 5 s; the two delays keep either verdict far from the scheduler's
//     noise: a late 30 ms timer still fires long before 3 s, and a correct
//     long timeout never fires). Programmatic timeouts are also drawn from
//     values that are not whole milliseconds (250 us .. 2.5 ms): they are
//     "short" for both transports - the collector (HTTP or gRPC) holds the
//     request for 3 s or until the client has gone, and the export must fail
//     before; a resolved "no timeout" would succeed after 3 s. gRPC timeout: the time left
//     on the server-side context must lie in (T/2, T+100ms] for the winning
//     T out of {5 s, 10 s default, 25 s, 60 s, 150 s}.
package c20

import (
	"context"
	"fmt"
	"net/http"
	"net/url"
	"os"
	"path"
	"strconv"
	"strings"
	"testing"
	"time"

	"github.com/go-logr/logr"
	"go.opentelemetry.io/otel"
	"go.opentelemetry.io/otel/verif/internal/vk"
	grpcdial "google.golang.org/grpc"
	"google.golang.org/grpc/credentials/insecure"
	"pgregory.net/rapid"
)

func init() {
	otel.SetErrorHandler(otel.ErrorHandlerFunc(func(error) {}))
	otel.SetLogger(logr.Discard())
}

const (
	absent  = 0
	valid   = 1
	invalid = 2
)

var settingNames = []string{"endpoint", "path", "headers", "compression", "timeout"}
var stateNames = []string{"A", "V", "I"}
var srcNames = []string{"opt", "sig", "gen"}

// Src is what one configuration source says about the setting of the cell.
type Src struct {
	State int    `json:"state"`         // 0 absent, 1 valid, 2 invalid
	Coll  int    `json:"coll"`          // collector index the source points at (endpoint / path cells)
	Form  int    `json:"form"`          // option: 0 WithEndpoint, 1 WithEndpointURL with Path, 2 WithEndpointURL without path; env headers: extra pair first
	Path  string `json:"path"`          // URL path of the endpoint URL / WithURLPath argument
	Hdr   string `json:"hdr"`           // value of the common header key (environment: percent-encoded text)
	Extra string `json:"extra"`         // additional header key only this source sets
	OWS   int    `json:"ows,omitempty"` // environment header list: optional white space around "=" and "," (0 none)
	Gzip  bool   `json:"gzip"`
	Ms    int64  `json:"ms"`            // timeout, milliseconds
	Ns    int64  `json:"ns"`            // option only: when not 0 the timeout is this many nanoseconds (not a multiple of a millisecond)
	Pad   int    `json:"pad,omitempty"` // environment timeout: number of leading zeros of the decimal text ("05000" is 5000)
	// invalid state: index into the table of invalid values of the setting
	// and source class, and the kind (redundant, for the reader).
	Bad     int    `json:"bad"`
	BadKind string `json:"bad_kind"`
}

// Case is one cell instance.
type Case struct {
	Exporter string `json:"exporter"`
	Setting  string `json:"setting"`
	Opt      Src    `json:"opt"`
	Sig      Src    `json:"sig"`
	Gen      Src    `json:"gen"`
	// FixVia / FixColl: in cells whose setting is not the endpoint, the source
	// the reachable endpoint is configured through (0 option, 1 signal env, 2
	// generic env) and the collector it names. Path cells of HTTP exporters
	// always use WithEndpoint(FixColl).
	FixVia  int `json:"fix_via"`
	FixColl int `json:"fix_coll"`
	// UserConn: the transport is supplied by the caller. gRPC exporters get
	// WithGRPCConn(conn) with a connection the harness dialled to collector
	// ConnColl (the connection then owns endpoint, security and compression;
	// headers and timeout keep following the precedence model). HTTP exporters
	// get WithProxy(direct), which makes them clone their transport; every
	// setting still applies.
	UserConn bool `json:"user_conn"`
	ConnColl int  `json:"conn_coll"`
}

func (c Case) srcs() [3]Src { return [3]Src{c.Opt, c.Sig, c.Gen} }

// bad is one invalid value.
type bad struct {
	kind string
	// text: environment value ({X} = address of the source's collector, {P} =
	// the source's path) or the option payload.
	text string
	// ignored: every exporter skips this value (falls through to the next
	// source); asserted.
	ignored bool
}

var badEnvEndpoint = []bad{
	{"empty", "", true},
	{"unparsable", "http://[::1", true},
	{"unparsable", "http://{X}:x", true},
	{"unparsable", "{X}", true}, // host:port without a scheme: "first path segment in URL cannot contain colon"
	{"unparsable", "http://{X}/%zz", true},
	{"unparsable", "://{X}", true},
	{"unparsable", "http://{X}/\x7f", true},
	{"padded", " http://{X}{P} ", false},
	{"garbage", "abc", false},
	{"garbage", "/only/a/path", false},
	{"garbage", "http//{X}", false},
	// set but blank (see blankIgnored)
	{"blank", " ", false},
	{"blank", "\t", false},
	{"blank", "  \t ", false},
}

var badOptEndpoint = []bad{
	{"unparsable_url", "http://[::1", true}, // WithEndpointURL
	{"unparsable_url", "http://{X}:x", true},
	{"empty_endpoint", "", false},                   // WithEndpoint("")
	{"garbage_endpoint", "127.0.0.1:noport", false}, // WithEndpoint
}

var badOptPath = []bad{ // WithURLPath
	{"empty", "", false},
	{"blank", "  ", false},
	{"relative", "rel/p", false},
	{"odd_escape", "/%zz", false},
}

var badEnvHeaders = []bad{
	{"empty", "", true},
	{"no_equals", "x-verif-src", false},
	{"bad_key", "x verif src=v", false},
	{"empty_key", "=v", false},
	{"bad_escape", "x-verif-src=%zz", false},
	{"partial", "x-verif-src={H},broken", false},
	{"blank", " ", false},
	{"blank", "\t", false},
	{"blank", "  \t ", false},
}

var badOptHeaders = []bad{
	{"bad_key_map", "bad key", false},
	{"bad_value_map", "a\nb", false},
	{"nil_map", "", false},
}

var badEnvCompression = []bad{
	{"empty", "", true},
	{"unknown", "zstd", false},
	{"unknown", "deflate", false},
	{"case", "GZIP", false},
	{"padded", " gzip ", false},
	{"list", "gzip,deflate", false},
	{"blank", " ", false},
	{"blank", "\t", false},
	{"blank", "  \t ", false},
}

var badOptCompression = []bad{ // HTTP: Compression(n); gRPC: WithCompressor(text)
	{"undefined_enum", "7", false},
	{"undefined_enum", "-1", false},
}

var badOptCompressor = []bad{
	{"unknown_name", "zstd", false},
	{"unknown_name", "", false},
}

var badEnvTimeout = []bad{
	{"empty", "", true},
	{"unparsable", "abc", true},
	{"unparsable", "1e3", true},
	{"unparsable", "5s", true},
	{"unparsable", "10.5", true},
	{"unparsable", "NaN", true},
	{"unparsable", "99999999999999999999", true},
	{"unparsable", "0x10", true},
	{"padded", " 60000 ", false},
	{"negative", "-1", false},
	{"zero", "0", false},
	{"blank", " ", false},
	{"blank", "\t", false},
	{"blank", "  \t ", false},
}

var badOptTimeout = []bad{ // WithTimeout(text ms)
	{"negative", "-1000", false},
	{"zero", "0", false},
}

// badTable returns the invalid values of (exporter, setting, source index).
func badTable(exp, setting string, src int) []bad {
	switch setting {
	case "endpoint":
		if src == 0 {
			return badOptEndpoint
		}
		return badEnvEndpoint
	case "path":
		if src == 0 {
			if isGRPC(exp) {
				return badOptEndpoint[:2]
			}
			return badOptPath
		}
		return badEnvEndpoint
	case "headers":
		if src == 0 {
			return badOptHeaders
		}
		return badEnvHeaders
	case "compression":
		if src == 0 {
			if isGRPC(exp) {
				return badOptCompressor
			}
			return badOptCompression
		}
		return badEnvCompression
	case "timeout":
		if src == 0 {
			return badOptTimeout
		}
		return badEnvTimeout
	}
	panic("harness bug: setting " + setting)
}

// blankIgnored: is a variable that is set but consists of white space only
// treated as if it were not set (the next source decides)? From the pinned
// readers, one per exporter family:
//
//   - otlptrace*, otlpmetric* (four generated copies of internal/envconfig):
//     GetEnvValue trims the value and reports "v != \"\"" - blank is absent,
//     for every setting.
//   - otlplog* (config.go getenv / getEnv): the raw value is tested against ""
//     and handed to the converter; a converter error sends the lookup on to the
//     next variable. convHeaders (no '='), convCompression (unknown name) and
//     convDuration (not an integer) reject a blank value, so blank is skipped
//     for headers, compression and timeout. url.Parse accepts a blank string,
//     so a blank ENDPOINT is NOT skipped there (otlploghttp: constructor
//     error, otlploggrpc: empty target): recorded in obs/..., not asserted.
func blankIgnored(exp, setting string) bool {
	if signalOf(exp) != "LOGS" {
		return true
	}
	return setting == "headers" || setting == "compression" || setting == "timeout"
}

// ignoredAt: the invalid value of source i is skipped by the exporter of the
// case (asserted: the walk goes on to the next source).
func (c Case) ignoredAt(i int) bool {
	b := c.badOf(i)
	if b.ignored {
		return true
	}
	return i > 0 && b.kind == "blank" && blankIgnored(c.Exporter, c.Setting)
}

func (c Case) badOf(i int) bad {
	s := c.srcs()[i]
	t := badTable(c.Exporter, c.Setting, i)
	return t[((s.Bad%len(t))+len(t))%len(t)]
}

// uniform draws an (almost exactly) uniformly distributed index below n;
// rapid's own integer generators favour small values, which would starve
// most of the 810 cells.
func uniform(t *rapid.T, n int, label string) int {
	v := 0
	for i := 0; i < 16; i++ {
		v <<= 1
		if rapid.Bool().Draw(t, label) {
			v |= 1
		}
	}
	return v % n
}

var grpcTimeouts = []int64{5000, 25000, 60000, 150000}

// optionNanos: programmatic timeouts are time.Durations, not milliseconds:
// values below one millisecond and values that are not a whole number of
// milliseconds must be in force exactly as given.
var optionNanos = []int64{250_000, 500_000, 750_000, 999_999, 1_500_000, 2_500_000, 1_234_567}

func genOTLP(t *rapid.T) Case {
	cell := uniform(t, 810, "cell")
	var c Case
	c.Exporter = exporterNames[cell%6]
	cell /= 6
	c.Setting = settingNames[cell%5]
	cell /= 5
	st := [3]int{cell % 3, (cell / 3) % 3, cell / 9}
	perm := rapid.Permutation([]int{0, 1, 2}).Draw(t, "colls")
	c.FixVia = rapid.IntRange(0, 2).Draw(t, "fixvia")
	c.FixColl = rapid.IntRange(0, 2).Draw(t, "fixcoll")
	winnerFlag := rapid.Bool().Draw(t, "winner_flag")
	grpcT := rapid.Permutation(grpcTimeouts).Draw(t, "grpc_timeouts")
	grpc := isGRPC(c.Exporter)
	var srcs [3]Src
	seenValid := false
	for i := 0; i < 3; i++ {
		s := Src{State: st[i], Coll: perm[i]}
		tag := srcNames[i][:1]
		n := rapid.IntRange(0, 9).Draw(t, "n")
		// values are drawn for every state so that shrinking a state does not
		// change the meaning of the rest of the bit stream.
		switch c.Setting {
		case "endpoint", "path":
			seg := "/" + tag + strconv.Itoa(n)
			// spelling dimension of the path: characters that URL escaping
			// touches (see richTail). Drawn for every source, used by the
			// HTTP exporters only (the gRPC exporters have no URL path).
			decodedForm := i == 0 && c.Setting == "path" // WithURLPath takes a path, not a URL
			tail := richTail(t, decodedForm)
			if !grpc && uniform(t, 2, "rich_path") == 0 {
				seg += tail
			}
			var paths []string
			switch {
			case c.Setting == "endpoint" && grpc:
				paths = []string{"", "/"}
			case i == 0 && c.Setting == "path":
				paths = []string{seg, seg + "/q"}
			case i == 0:
				paths = []string{seg, seg + "/q"}
			default:
				paths = []string{"", "/", seg, seg + "/q", seg + "/"}
			}
			s.Path = rapid.SampledFrom(paths).Draw(t, "path")
			if i == 0 {
				s.Form = rapid.IntRange(0, 2).Draw(t, "form")
				if c.Setting == "path" {
					s.Form = 1
				}
			}
		case "headers":
			s.Hdr = tag + strconv.Itoa(n)
			if i > 0 && rapid.IntRange(0, 3).Draw(t, "enc") == 0 {
				s.Hdr += "%2C%3Dz"
			}
			// spelling dimension of the value (headers_spelling_test.go)
			htail := richHdrTail(t, i > 0)
			if uniform(t, 2, "rich_hdr") == 0 {
				s.Hdr += htail
			}
			s.OWS = rapid.IntRange(0, 3).Draw(t, "ows")
			if rapid.Bool().Draw(t, "extra") {
				s.Extra = "x-extra-" + tag
			}
			s.Form = rapid.IntRange(0, 1).Draw(t, "extra_first")
		case "compression":
			// the winner says winnerFlag, everybody below the opposite
			s.Gzip = winnerFlag == !seenValid
		case "timeout":
			ns := rapid.SampledFrom(optionNanos).Draw(t, "option_ns")
			s.Pad = rapid.SampledFrom([]int{0, 0, 0, 1, 2, 5}).Draw(t, "leading_zeros")
			subMs := uniform(t, 6, "option_sub_ms")
			if grpc {
				s.Ms = grpcT[i]
				if i == 0 && subMs < 2 {
					s.Ns = ns
				}
			} else {
				short := winnerFlag == !seenValid
				if short {
					s.Ms = int64(rapid.IntRange(10, 30).Draw(t, "short_ms"))
					if i == 0 && subMs < 3 {
						s.Ns = ns
					}
				} else {
					s.Ms = int64(rapid.IntRange(5000, 30000).Draw(t, "long_ms"))
				}
			}
		}
		if s.State == valid {
			seenValid = true
		}
		tbl := badTable(c.Exporter, c.Setting, i)
		s.Bad = uniform(t, len(tbl), "bad") // every spelling equally often
		if s.State == invalid {
			s.BadKind = tbl[s.Bad].kind
		}
		srcs[i] = s
	}
	c.Opt, c.Sig, c.Gen = srcs[0], srcs[1], srcs[2]
	// drawn last so that the rest of the case does not depend on it
	c.UserConn = uniform(t, 3, "user_conn") == 0
	c.ConnColl = rapid.IntRange(0, 2).Draw(t, "conn_coll")
	return c
}

// ---------------------------------------------------------------------
// oracle

// outcome of the precedence walk.
type verdict struct {
	// winner: 0,1,2 = the source that decides; 3 = default; -1 = unknown
	// (an invalid value of a kind the exporters treat differently is in the
	// way: nothing is asserted).
	winner int
	// ignoring: what the walk gives when every invalid source is skipped
	// (used to label the observation when winner == -1).
	ignoring int
}

func walk(c Case) verdict {
	v := verdict{winner: -2, ignoring: 3}
	srcs := c.srcs()
	for i := 0; i < 3; i++ {
		if srcs[i].State == valid {
			v.ignoring = i
			break
		}
	}
	for i := 0; i < 3; i++ {
		switch srcs[i].State {
		case absent:
			continue
		case valid:
			v.winner = i
			return v
		case invalid:
			if c.ignoredAt(i) {
				continue
			}
			v.winner = -1
			return v
		}
	}
	v.winner = 3
	return v
}

// decodeHdr is the header value an environment header list spells with s
// (headers_spelling_test.go): percent-decoded, optional white space around it
// dropped.
func decodeHdr(s string) string {
	d, err := url.PathUnescape(s)
	if err != nil {
		panic(fmt.Sprintf("harness bug: generated header value %q is not a valid percent-encoding: %v", s, err))
	}
	return strings.Trim(d, " \t")
}

// joinGeneric is the path a generic endpoint with base path b stands for.
func joinGeneric(b, exp string) string {
	return strings.TrimRight(b, "/") + signalPath(exp)
}

func verbatim(p string) string {
	if p == "" {
		return "/"
	}
	return p
}

// expectation for one case.
type expectation struct {
	v verdict
	// recv: collector expected to receive the request; -1 = none of A/B/C
	// (default endpoint); -2 = not asserted.
	recv int
	// path: expected URL path ("" = not asserted).
	path string
	// header
	hdrAssert bool
	hdrWant   []string // nil = the key must be absent
	// hdrExtraWant / hdrExtraAbsent: additional header keys that only ONE
	// source sets. The winner's own extra key must arrive; an extra key of a
	// valid lower-precedence source must NOT (the headers setting is taken
	// from the highest-precedence source as a whole: all six exporters
	// replace, none merges).
	hdrExtraWant   []string
	hdrExtraAbsent []string
	// compression
	encAssert bool
	encWant   string
	// timeout: HTTP: wantFail / wantOK ; gRPC: wantT
	toAssert bool
	toShort  bool
	toT      time.Duration
	// delivered: the request must arrive (long harness context).
	delivered bool
}

// envPathOf gives the path a valid environment source stands for.
func envPathOf(c Case, i int) string {
	s := c.srcs()[i]
	if i == 1 {
		return verbatim(urlPathDecoded(s.Path))
	}
	return joinGeneric(urlPathDecoded(s.Path), c.Exporter)
}

// lowerSrc: the environment source that decides the URL path when the
// option does not give one (walking with the same rules): 1, 2, 3 = default,
// -1 = cannot be determined.
func lowerSrc(c Case) int {
	srcs := c.srcs()
	for i := 1; i < 3; i++ {
		switch srcs[i].State {
		case absent:
			continue
		case valid:
			return i
		default:
			if c.ignoredAt(i) {
				continue
			}
			return -1
		}
	}
	return 3
}

// lowerPath is the path lowerSrc stands for ("" = not determined).
func lowerPath(c Case) string {
	switch i := lowerSrc(c); i {
	case -1:
		return ""
	case 3:
		return signalPath(c.Exporter)
	default:
		return envPathOf(c, i)
	}
}

// pathDecider: which source the expected path of the case comes from
// (0 option, 1, 2, 3 default, -1 none asserted).
func pathDecider(c Case) int {
	w := walk(c).winner
	if isGRPC(c.Exporter) || (c.Setting != "endpoint" && c.Setting != "path") {
		return -1
	}
	if w == 0 && c.Setting == "endpoint" && c.Opt.Form == 0 {
		return lowerSrc(c)
	}
	if w == 0 && c.Setting == "endpoint" && c.Opt.Form == 2 {
		return -1
	}
	return w
}

func expect(c Case) expectation {
	e := expectation{v: walk(c), recv: -2}
	w := e.v.winner
	grpc := isGRPC(c.Exporter)
	srcs := c.srcs()
	switch c.Setting {
	case "endpoint":
		switch {
		case w == -1:
		case w == 3:
			e.recv = -1
		default:
			e.recv, e.delivered = srcs[w].Coll, true
			if !grpc {
				switch {
				case w == 0 && srcs[0].Form == 0:
					e.path = lowerPath(c)
				case w == 0 && srcs[0].Form == 1:
					e.path = urlPathDecoded(srcs[0].Path)
				case w == 0:
					// WithEndpointURL without a path: not asserted
				default:
					e.path = envPathOf(c, w)
				}
			}
		}
	case "path":
		if grpc {
			switch {
			case w == -1:
			case w == 3:
				e.recv = -1
			case w == 0 || srcs[w].Path == "" || srcs[w].Path == "/":
				e.recv, e.delivered = srcs[w].Coll, true
			}
			break
		}
		if w == -1 {
			break
		}
		e.recv, e.delivered = c.FixColl, true
		switch w {
		case 0:
			e.path = srcs[0].Path
		case 3:
			e.path = signalPath(c.Exporter)
		default:
			e.path = envPathOf(c, w)
		}
	case "headers":
		if w == -1 {
			break
		}
		e.recv, e.delivered = c.FixColl, true
		e.hdrAssert = true
		switch w {
		case 0:
			e.hdrWant = []string{srcs[0].Hdr}
		case 3:
		default:
			e.hdrWant = []string{decodeHdr(srcs[w].Hdr)}
		}
		if w >= 0 && w < 3 {
			if srcs[w].Extra != "" {
				e.hdrExtraWant = append(e.hdrExtraWant, srcs[w].Extra)
			}
			for i := w + 1; i < 3; i++ {
				if srcs[i].State == valid && srcs[i].Extra != "" {
					e.hdrExtraAbsent = append(e.hdrExtraAbsent, srcs[i].Extra)
				}
			}
		}
	case "compression":
		if w == -1 {
			break
		}
		e.recv, e.delivered = c.FixColl, true
		e.encAssert = true
		if w != 3 && srcs[w].Gzip {
			e.encWant = "gzip"
		}
	case "timeout":
		if w == -1 {
			break
		}
		ms := int64(10000) // documented default
		if w != 3 {
			ms = srcs[w].Ms
		}
		e.toAssert = true
		e.toT = time.Duration(ms) * time.Millisecond
		if w == 0 && srcs[0].Ns != 0 {
			e.toT = time.Duration(srcs[0].Ns)
		}
		e.toShort = e.toT < time.Second
		e.recv = c.FixColl
		e.delivered = !e.toShort
		if e.toShort {
			e.recv = -2 // the client may give up before the request is read
		}
	}
	if c.UserConn && grpc {
		// WithGRPCConn: "sets conn as the gRPC ClientConn used for all
		// communication ... takes precedence over any other option that relates
		// to establishing or persisting a gRPC connection"; WithEndpoint,
		// WithEndpointURL, WithInsecure, WithCompressor, ... "have no effect if
		// WithGRPCConn is used". The request therefore arrives where the
		// connection points, whatever the endpoint / compression sources say
		// (valid or not); the encoding is the connection's business and is not
		// asserted. Headers and timeout are per-request and keep their oracle.
		switch c.Setting {
		case "endpoint", "path":
			e.recv, e.delivered, e.path = c.ConnColl, true, ""
		case "compression":
			e.recv, e.delivered, e.encAssert = c.ConnColl, true, false
		case "headers":
			if w != -1 {
				e.recv = c.ConnColl
			}
		case "timeout":
			if e.toAssert && !e.toShort {
				e.recv = c.ConnColl
			}
		}
	}
	return e
}

// ---------------------------------------------------------------------
// execution

type envSetter struct {
	saved map[string]*string
}

func (e *envSetter) set(k, v string) {
	if e.saved == nil {
		e.saved = map[string]*string{}
	}
	if _, ok := e.saved[k]; !ok {
		if old, had := os.LookupEnv(k); had {
			e.saved[k] = &old
		} else {
			e.saved[k] = nil
		}
	}
	_ = os.Setenv(k, v)
}

func (e *envSetter) restore() {
	for k, old := range e.saved {
		if old == nil {
			_ = os.Unsetenv(k)
		} else {
			_ = os.Setenv(k, *old)
		}
	}
	e.saved = nil
}

func addrs(exp string) [3]string {
	if isGRPC(exp) {
		return colls.grpcAddr
	}
	return colls.httpAddr
}

func subst(text string, s Src, a [3]string) string {
	r := strings.ReplaceAll(text, "{X}", a[s.Coll])
	r = strings.ReplaceAll(r, "{P}", s.Path)
	r = strings.ReplaceAll(r, "{H}", s.Hdr)
	return r
}

// apply translates the case into environment variables and options.
func apply(c Case, env *envSetter) optSet {
	a := addrs(c.Exporter)
	grpc := isGRPC(c.Exporter)
	sigPfx := "OTEL_EXPORTER_OTLP_" + signalOf(c.Exporter) + "_"
	genPfx := "OTEL_EXPORTER_OTLP_"
	pfx := [3]string{"", sigPfx, genPfx}
	var o optSet
	srcs := c.srcs()

	// fixture endpoint
	switch c.Setting {
	case "endpoint":
	case "path":
		if !grpc {
			o.endpoint = &a[c.FixColl]
		}
	default:
		switch c.FixVia {
		case 0:
			o.endpoint = &a[c.FixColl]
		case 1:
			env.set(sigPfx+"ENDPOINT", "http://"+a[c.FixColl]+map[bool]string{true: "", false: signalPath(c.Exporter)}[grpc])
		default:
			env.set(genPfx+"ENDPOINT", "http://"+a[c.FixColl])
		}
	}

	for i, s := range srcs {
		if s.State == absent {
			continue
		}
		b := bad{}
		if s.State == invalid {
			b = c.badOf(i)
		}
		switch c.Setting {
		case "endpoint", "path":
			if i > 0 {
				v := "http://" + a[s.Coll] + s.Path
				if s.State == invalid {
					v = subst(b.text, s, a)
				}
				env.set(pfx[i]+"ENDPOINT", v)
				continue
			}
			// option
			if c.Setting == "path" && !grpc {
				p := s.Path
				if s.State == invalid {
					p = b.text
				}
				o.urlPath = &p
				continue
			}
			if s.State == invalid {
				v := subst(b.text, s, a)
				if b.kind == "unparsable_url" {
					o.endpointURL = &v
				} else {
					o.endpoint = &v
				}
				continue
			}
			switch s.Form {
			case 0:
				o.endpoint = &a[s.Coll]
			case 1:
				v := "http://" + a[s.Coll] + s.Path
				o.endpointURL = &v
			default:
				v := "http://" + a[s.Coll]
				o.endpointURL = &v
			}
		case "headers":
			if i > 0 {
				eq, comma := owsOf(s.OWS)
				v := hdrKey + eq + s.Hdr
				if s.Extra != "" {
					if s.Form == 1 {
						v = s.Extra + eq + "1" + comma + v
					} else {
						v = v + comma + s.Extra + eq + "1"
					}
				}
				if s.OWS == 3 {
					v = " " + v + " "
				}
				if s.State == invalid {
					v = subst(b.text, s, a)
				}
				env.set(pfx[i]+"HEADERS", v)
				continue
			}
			o.hasHeaders = true
			if s.State == invalid {
				switch b.kind {
				case "bad_key_map":
					o.headers = map[string]string{b.text: "v"}
				case "bad_value_map":
					o.headers = map[string]string{hdrKey: b.text}
				default:
					o.headers = nil
				}
				continue
			}
			o.headers = map[string]string{hdrKey: s.Hdr}
			if s.Extra != "" {
				o.headers[s.Extra] = "1"
			}
		case "compression":
			if i > 0 {
				v := map[bool]string{true: "gzip", false: "none"}[s.Gzip]
				if s.State == invalid {
					v = b.text
				}
				env.set(pfx[i]+"COMPRESSION", v)
				continue
			}
			if grpc {
				v := map[bool]string{true: "gzip", false: "none"}[s.Gzip]
				if s.State == invalid {
					v = b.text
				}
				o.compressor = &v
			} else {
				n := map[bool]int{true: 1, false: 0}[s.Gzip]
				if s.State == invalid {
					n, _ = strconv.Atoi(b.text)
				}
				o.compression = &n
			}
		case "timeout":
			if i > 0 {
				v := strings.Repeat("0", s.Pad) + strconv.FormatInt(s.Ms, 10)
				if s.State == invalid {
					v = b.text
				}
				env.set(pfx[i]+"TIMEOUT", v)
				continue
			}
			ms := s.Ms
			if s.State == invalid {
				ms, _ = strconv.ParseInt(b.text, 10, 64)
			}
			d := time.Duration(ms) * time.Millisecond
			if s.State == valid && s.Ns != 0 {
				d = time.Duration(s.Ns)
			}
			o.timeout = &d
		}
	}
	return o
}

func sameStrs(a, b []string) bool {
	if len(a) != len(b) {
		return false
	}
	for i := range a {
		if a[i] != b[i] {
			return false
		}
	}
	return true
}

var seenCells = map[string]bool{}

func runOTLP(c Case) (vs []vk.Violation, info vk.Info) {
	bad := func(kind string, observed any, format string, a ...any) {
		v := vk.V(kind, format, a...)
		v.Observed = observed
		vs = append(vs, v)
	}
	if err := colls.start(); err != nil {
		panic("harness: cannot start the loopback collectors: " + err.Error())
	}
	e := expect(c)
	srcs := c.srcs()
	grpc := isGRPC(c.Exporter)

	// classification first: it must survive a panic of the code under test
	providing := 0
	stateKey := ""
	for i, s := range srcs {
		if s.State != absent {
			providing++
		}
		stateKey += srcNames[i][:1] + stateNames[s.State]
	}
	info.NonTrivial = providing >= 2
	info.Class("exp/" + c.Exporter)
	info.Class("set/" + c.Setting)
	info.Class("states/" + stateKey)
	cellKey := c.Exporter + "/" + c.Setting + "/" + stateKey
	if !seenCells[cellKey] {
		seenCells[cellKey] = true
		info.Class("new_cell(of 810)")
	}
	info.Class("winner/" + map[int]string{-1: "unknown(invalid in the way)", 0: "opt", 1: "sig", 2: "gen", 3: "default"}[e.v.winner])
	for i, s := range srcs {
		if s.State == invalid {
			info.Class("invalid/" + c.Setting + "/" + map[bool]string{true: "opt", false: "env"}[i == 0] + ":" + c.badOf(i).kind)
		}
	}

	if c.Setting == "headers" && e.v.winner >= 0 && e.v.winner < 3 {
		noteHdrSpelling(c, e.v.winner, &info)
	}
	if c.UserConn {
		kind := map[bool]string{true: "WithGRPCConn", false: "WithProxy(direct)"}[grpc]
		info.Class("user_transport/" + kind + "/" + c.Exporter)
		info.Class("user_transport/" + kind + "/set/" + c.Setting)
		info.Class("user_transport/" + kind + "/" + c.Setting + "/winner/" + map[int]string{-1: "unknown", 0: "opt", 1: "sig", 2: "gen", 3: "default"}[e.v.winner])
	}

	env := &envSetter{}
	defer env.restore()
	o := apply(c, env)
	if c.UserConn {
		if grpc {
			conn, err := grpcdial.NewClient(colls.grpcAddr[c.ConnColl], grpcdial.WithTransportCredentials(insecure.NewCredentials()))
			if err != nil {
				panic("harness: cannot create the client connection: " + err.Error())
			}
			defer conn.Close()
			o.grpcConn = conn
		} else {
			o.proxy = true
		}
	}

	// collector behaviour for this case
	delay := time.Duration(0)
	if c.Setting == "timeout" && !grpc {
		// 80 ms are far beyond a 10..30 ms timeout (sensitivity only: with the
		// expected long timeout the export succeeds whatever the delay is)
		delay = 80 * time.Millisecond
		if e.toAssert && e.toShort {
			delay = 3 * time.Second
		}
	}
	colls.httpDelay.Store(int64(delay))
	defer colls.httpDelay.Store(0)
	// gRPC: a timeout below a second (programmatic sub-millisecond values) is
	// judged like the short HTTP ones: the collector holds the call for 3 s (or
	// until the call is cancelled) and the export must be abandoned before.
	gdelay := time.Duration(0)
	if c.Setting == "timeout" && grpc && e.toAssert && e.toShort {
		gdelay = 3 * time.Second
	}
	colls.grpcDelay.Store(int64(gdelay))
	defer colls.grpcDelay.Store(0)
	if c.Setting == "timeout" && (e.v.winner == 1 || e.v.winner == 2) && srcs[e.v.winner].Pad > 0 {
		info.Class("timeout/env_leading_zeros")
		info.Class("timeout/env_leading_zeros/" + c.Exporter)
	}
	if c.Setting == "timeout" && e.v.winner == 0 && c.Opt.Ns != 0 {
		info.Class("timeout/option_not_whole_ms/" + time.Duration(c.Opt.Ns).String())
		info.Class("timeout/option_not_whole_ms/" + c.Exporter)
	}

	nonce := nextNonce()
	// a definite expectation gets all the time it may need; an open outcome
	// (nothing asserted but "no panic, no hang") is cut short by the caller's
	// context, as an application would.
	budget := 2 * time.Second
	if e.delivered || (e.toAssert && e.toShort) || (c.Setting == "timeout" && grpc) {
		budget = 10 * time.Minute
	}

	var exportErr, buildErr error
	cl, buildErr := build(c.Exporter, o)
	if buildErr == nil {
		ctx, cancel := context.WithTimeout(context.Background(), budget)
		exportErr = cl.export(ctx, marker(nonce))
		cancel()
		sctx, scancel := context.WithTimeout(context.Background(), time.Minute)
		_ = cl.shutdown(sctx)
		scancel()
	}
	reqs := colls.take(nonce)

	errText := fmt.Sprintf("constructor error %v, export error %v", buildErr, exportErr)

	// ---- who received it ----
	switch {
	case e.recv >= 0:
		if len(reqs) == 0 {
			bad("not_received", nil, "%s %s: collector %c must receive the request (winner %s), nobody did; %s", c.Exporter, c.Setting, 'A'+e.recv, winnerName(e.v.winner), errText)
		}
		for _, r := range reqs {
			if r.Coll != e.recv {
				bad("wrong_receiver", r.Coll, "%s %s: request received by collector %c, expected %c (winner %s)", c.Exporter, c.Setting, 'A'+r.Coll, 'A'+e.recv, winnerName(e.v.winner))
			}
		}
	case e.recv == -1:
		for _, r := range reqs {
			bad("unexpected_delivery", r.Coll, "%s %s: no valid source names a collector (default endpoint expected) but collector %c received the request", c.Exporter, c.Setting, 'A'+r.Coll)
		}
	}
	for _, r := range reqs {
		if grpc && r.Signal != strings.ToLower(signalOf(c.Exporter)) {
			bad("wrong_service", r.Signal, "%s sent to the %s service", c.Exporter, r.Signal)
		}
		// ---- path ----
		// r.Path is the escaped path of the request line; the request must have
		// gone to the path the deciding source names (paths_test.go).
		wirePath, uerr := url.PathUnescape(r.Path)
		if uerr != nil {
			wirePath = r.Path
		}
		if e.path != "" && !grpc && wirePath != e.path {
			bad("path_mismatch", wirePath, "%s %s: request sent to %q (request line %q), expected the path %q (request line %q) named by the %s", c.Exporter, c.Setting, wirePath, r.Path, e.path, (&url.URL{Path: e.path}).EscapedPath(), winnerName(pathDeciderOr(c, e.v.winner)))
		}
		if e.path != "" && !grpc {
			notePathSpelling(c, r, wirePath == e.path, &info)
		}
		// ---- header ----
		if e.hdrAssert {
			got := r.Header["X-Verif-Src"]
			if !sameStrs(got, e.hdrWant) {
				bad("header_mismatch", got, "%s: header %s = %q, expected %q (winner %s)", c.Exporter, hdrKey, got, e.hdrWant, winnerName(e.v.winner))
			}
			for _, k := range e.hdrExtraWant {
				if got := r.Header[http.CanonicalHeaderKey(k)]; !sameStrs(got, []string{"1"}) {
					bad("header_mismatch", got, "%s: header %s (set only by the winning source %s) = %q, expected [\"1\"]", c.Exporter, k, winnerName(e.v.winner), got)
				}
			}
			for _, k := range e.hdrExtraAbsent {
				if got := r.Header[http.CanonicalHeaderKey(k)]; len(got) != 0 {
					bad("headers_merged_across_sources", got, "%s: header %s is set only by a lower-precedence source but arrived (= %q) although %s provides the headers", c.Exporter, k, got, winnerName(e.v.winner))
				}
			}
		}
		// ---- compression ----
		if e.encAssert && r.Encoding != e.encWant {
			bad("compression_mismatch", r.Encoding, "%s: request encoding %q, expected %q (winner %s)", c.Exporter, r.Encoding, e.encWant, winnerName(e.v.winner))
		}
		// ---- timeout, gRPC ----
		if e.toAssert && grpc {
			switch {
			case !r.HasDL:
				bad("timeout_mismatch", "no deadline", "%s: the request carries no deadline, expected %v (winner %s)", c.Exporter, e.toT, winnerName(e.v.winner))
			case r.Deadline > e.toT+100*time.Millisecond || (!e.toShort && r.Deadline <= e.toT/2):
				bad("timeout_mismatch", r.Deadline.String(), "%s: %v left on the server-side deadline, expected a timeout of %v (winner %s)", c.Exporter, r.Deadline, e.toT, winnerName(e.v.winner))
			}
		}
	}
	// ---- timeout, gRPC, below one second ----
	if e.toAssert && grpc && e.toShort && buildErr == nil && exportErr == nil {
		bad("timeout_mismatch", "export succeeded", "%s: timeout %v (winner %s) but the export succeeded against a collector that holds the call for %v", c.Exporter, e.toT, winnerName(e.v.winner), gdelay)
	}
	// ---- timeout, HTTP ----
	if e.toAssert && !grpc {
		switch {
		case e.toShort && buildErr == nil && exportErr == nil:
			bad("timeout_mismatch", "export succeeded", "%s: timeout %v (winner %s) but the export succeeded against a collector answering after %v", c.Exporter, e.toT, winnerName(e.v.winner), delay)
		case !e.toShort && (buildErr != nil || exportErr != nil):
			bad("timeout_mismatch", errText, "%s: timeout %v (winner %s) but the export failed against a collector answering after %v: %s", c.Exporter, e.toT, winnerName(e.v.winner), delay, errText)
		}
	}

	// ---- observations where nothing is asserted ----
	connOwns := c.UserConn && grpc && (c.Setting == "endpoint" || c.Setting == "path" || c.Setting == "compression")
	if connOwns && c.Setting == "compression" && len(reqs) > 0 {
		info.Class(fmt.Sprintf("obs/compression/WithGRPCConn(connection without compressor)/%s/winner_%s=%q", c.Exporter, map[int]string{-1: "unknown", 0: "opt", 1: "sig", 2: "gen", 3: "default"}[e.v.winner], reqs[0].Encoding))
	}
	if e.v.winner == -1 && !connOwns {
		// the source the walk stopped at
		first := -1
		for i, s := range srcs {
			if s.State == invalid && !c.ignoredAt(i) {
				first = i
				break
			}
		}
		if first >= 0 {
			info.Class(fmt.Sprintf("obs/%s/%s:%s/%s=%s", c.Setting, map[bool]string{true: "opt", false: "env"}[first == 0], c.badOf(first).kind, c.Exporter, observe(c, e, reqs, buildErr, exportErr)))
		}
	}
	if c.Setting == "path" && grpc && !c.UserConn && e.recv == -2 && e.v.winner >= 1 {
		info.Class(fmt.Sprintf("obs/path/grpc_env_endpoint_with_path/%s=%s", c.Exporter, map[bool]string{true: "delivered", false: "not_delivered"}[len(reqs) > 0]))
	}
	if c.Setting == "endpoint" && !grpc && e.v.winner == 0 && srcs[0].Form == 2 && len(reqs) > 0 {
		info.Class(fmt.Sprintf("obs/endpoint/WithEndpointURL_without_path/%s=%s", c.Exporter, reqs[0].Path))
	}
	return vs, info
}

// pathDeciderOr: the source the expected path comes from (the winner of the
// cell, or a lower source when the winning option names no path).
func pathDeciderOr(c Case, w int) int {
	if d := pathDecider(c); d >= 0 {
		return d
	}
	return w
}

// notePathSpelling records which spellings of the path the case reached and,
// as an observation only, what happened to the escaping of reserved
// characters on the way (paths_test.go).
func notePathSpelling(c Case, r request, arrived bool, info *vk.Info) {
	d := pathDecider(c)
	if d < 0 || d > 2 {
		return
	}
	s := c.srcs()[d]
	decodedForm := d == 0 && c.Setting == "path"
	if !isRichPath(s.Path, decodedForm) {
		info.Class("path_spelling/plain")
		return
	}
	via := srcNames[d]
	if d == 0 {
		via = map[bool]string{true: "WithURLPath", false: "WithEndpointURL"}[decodedForm]
	}
	info.Class("path_spelling/rich/" + via)
	info.Class("path_spelling/rich/" + c.Exporter + "/" + via)
	if decodedForm {
		return
	}
	info.ClassIf(strings.Contains(s.Path, "%25"), "path_spelling/escaped_percent/"+via)
	info.ClassIf(strings.ContainsAny(s.Path, " \\\"<>^`{|}") || !isASCII(s.Path), "path_spelling/raw_char_needing_escape/"+via)
	info.ClassIf(strings.Contains(strings.ToUpper(s.Path), "%C3") || strings.Contains(strings.ToUpper(s.Path), "%E6") || strings.Contains(strings.ToUpper(s.Path), "%F0"), "path_spelling/escaped_non_ascii/"+via)
	if !arrived || d != 1 {
		return
	}
	// signal-specific endpoint, same decoded path: escaping kept?
	u, err := url.Parse("http://127.0.0.1:1" + s.Path)
	if err != nil {
		return
	}
	want := u.EscapedPath()
	switch lit := reservedLiteralised(want, r.Path); {
	case strings.EqualFold(want, r.Path):
		info.Class("obs/path/signal_endpoint_escaping/kept/" + c.Exporter)
	case lit != "":
		info.Class("obs/path/signal_endpoint_escaping/escaped_reserved_char_sent_raw/" + c.Exporter)
	default:
		info.Class("obs/path/signal_endpoint_escaping/normalised/" + c.Exporter)
	}
}

func isASCII(s string) bool {
	for i := 0; i < len(s); i++ {
		if s[i] >= 0x80 {
			return false
		}
	}
	return true
}

func winnerName(w int) string {
	switch w {
	case 0:
		return "option"
	case 1:
		return "signal-specific variable"
	case 2:
		return "generic variable"
	case 3:
		return "default"
	}
	return "unknown"
}

// observe labels what happened in a case whose outcome is not asserted:
// "ignored" = as if the invalid values were absent, "shadowed" = something
// else was delivered, "not_delivered", "=ignored?" when both readings agree.
func observe(c Case, e expectation, reqs []request, buildErr, exportErr error) string {
	if buildErr != nil {
		return "constructor_error"
	}
	if len(reqs) == 0 {
		if c.Setting == "timeout" && !isGRPC(c.Exporter) {
			return "export_failed"
		}
		return "not_delivered"
	}
	r := reqs[0]
	srcs := c.srcs()
	ig := e.v.ignoring
	switch c.Setting {
	case "endpoint":
		for i, s := range srcs {
			if s.State != absent && s.Coll == r.Coll {
				if i == ig {
					return "ignored"
				}
				return "used_" + srcNames[i]
			}
		}
		return "delivered_elsewhere"
	case "path":
		wp, err := url.PathUnescape(r.Path)
		if err != nil {
			wp = r.Path
		}
		return "path=" + classifyPath(c, wp)
	case "headers":
		got := r.Header["X-Verif-Src"]
		var want []string
		if ig == 0 {
			want = []string{srcs[0].Hdr}
		} else if ig < 3 {
			want = []string{decodeHdr(srcs[ig].Hdr)}
		}
		if ig == 3 {
			if len(got) == 0 {
				return "no_header(ignored_or_shadowed)"
			}
			return "used_invalid_source"
		}
		if sameStrs(got, want) {
			return "ignored"
		}
		if len(got) == 0 {
			return "shadowed(no header)"
		}
		return "used_invalid_source"
	case "compression":
		want := ""
		if ig < 3 && srcs[ig].Gzip {
			want = "gzip"
		}
		if want == "" {
			if r.Encoding == "" {
				return "none(ignored_or_shadowed)"
			}
			return "used_invalid_source(" + r.Encoding + ")"
		}
		if r.Encoding == want {
			return "ignored"
		}
		return "shadowed(none)"
	case "timeout":
		if isGRPC(c.Exporter) {
			if !r.HasDL || r.Deadline > 5*time.Minute {
				return "no_exporter_deadline"
			}
			return "deadline~" + r.Deadline.Round(time.Second).String()
		}
		if exportErr != nil {
			return "export_failed"
		}
		return "export_ok"
	}
	return "?"
}

func classifyPath(c Case, p string) string {
	switch {
	case p == signalPath(c.Exporter):
		return "default"
	case p == "/":
		return "/"
	}
	for i, s := range c.srcs() {
		if s.State == valid && i > 0 && p == envPathOf(c, i) {
			return "of_" + srcNames[i]
		}
	}
	return "other"
}

// ---------------------------------------------------------------------
// known findings

func knownOTLP() map[string]func(Case, vk.Violation) bool {
	return map[string]func(Case, vk.Violation) bool{
		// otlptracehttp / otlpmetrichttp: the path of the signal-specific endpoint
		// goes through path.Clean (trailing slash lost) instead of being used verbatim.
		"otlp_http_signal_endpoint_path_cleaned": func(c Case, v vk.Violation) bool {
			if v.Kind != "path_mismatch" || (c.Exporter != "otlptracehttp" && c.Exporter != "otlpmetrichttp") {
				return false
			}
			obs, _ := v.Observed.(string) // decoded request path
			return pathDecider(c) == 1 && len(c.Sig.Path) > 1 && strings.HasSuffix(c.Sig.Path, "/") && obs == path.Clean(urlPathDecoded(c.Sig.Path))
		},
	}
}

func TestOTLPPrecedence(t *testing.T) {
	// harness self-check: the values listed as unparsable URLs are unparsable
	for _, tbl := range [][]bad{badEnvEndpoint, badOptEndpoint} {
		for _, b := range tbl {
			if b.kind != "unparsable" && b.kind != "unparsable_url" {
				continue
			}
			s := strings.TrimSpace(strings.ReplaceAll(b.text, "{X}", "127.0.0.1:4318"))
			if _, err := url.Parse(s); err == nil {
				t.Fatalf("harness bug: %q parses as a URL", s)
			}
		}
	}
	vk.Run(t, vk.Spec[Case]{
		Property: "C20", Check: "otlp_precedence",
		Rule: "one cell of 6 exporters x 5 settings x {absent,valid,invalid}^3 (option, signal env, generic env), cell index uniform, concrete values drawn (collectors A/B/C, paths, header values, gzip/none, timeouts); " +
			"non-trivial = at least two of the three sources provide the setting (valid or invalid); distinct = distinct case encodings",
		Quick: 4860, Thorough: 60750,
		Gen: genOTLP, Run: runOTLP,
		Known:       knownOTLP(),
		CaseTimeout: 3 * time.Minute,
	})
}
