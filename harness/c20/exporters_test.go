package c20

// A uniform face over the six OTLP exporters: the same abstract option set is
// translated into each exporter's own options, and "one export round" sends
// one span / one gauge / one log record whose name carries the case marker.

import (
	"context"
	"net/http"
	"net/url"
	"time"

	"go.opentelemetry.io/otel/exporters/otlp/otlplog/otlploggrpc"
	"go.opentelemetry.io/otel/exporters/otlp/otlplog/otlploghttp"
	"go.opentelemetry.io/otel/exporters/otlp/otlpmetric/otlpmetricgrpc"
	"go.opentelemetry.io/otel/exporters/otlp/otlpmetric/otlpmetrichttp"
	"go.opentelemetry.io/otel/exporters/otlp/otlptrace/otlptracegrpc"
	"go.opentelemetry.io/otel/exporters/otlp/otlptrace/otlptracehttp"
	"go.opentelemetry.io/otel/log"
	"go.opentelemetry.io/otel/sdk/instrumentation"
	sdklog "go.opentelemetry.io/otel/sdk/log"
	"go.opentelemetry.io/otel/sdk/metric/metricdata"
	"go.opentelemetry.io/otel/sdk/resource"
	"go.opentelemetry.io/otel/sdk/trace/tracetest"
	"google.golang.org/grpc"
)

var exporterNames = []string{"otlptracegrpc", "otlptracehttp", "otlpmetricgrpc", "otlpmetrichttp", "otlploggrpc", "otlploghttp"}

func isGRPC(exp string) bool { return exp[len(exp)-4:] == "grpc" }

// signalOf returns TRACES / METRICS / LOGS.
func signalOf(exp string) string {
	switch exp {
	case "otlptracegrpc", "otlptracehttp":
		return "TRACES"
	case "otlpmetricgrpc", "otlpmetrichttp":
		return "METRICS"
	}
	return "LOGS"
}

// signalPath is the path the specification appends to a generic endpoint.
func signalPath(exp string) string {
	switch signalOf(exp) {
	case "TRACES":
		return "/v1/traces"
	case "METRICS":
		return "/v1/metrics"
	}
	return "/v1/logs"
}

// optSet is the abstract programmatic configuration of an exporter.
type optSet struct {
	endpoint    *string // WithEndpoint(host:port)
	endpointURL *string // WithEndpointURL(url)
	urlPath     *string // WithURLPath (HTTP exporters only)
	headers     map[string]string
	hasHeaders  bool
	compression *int    // HTTP exporters: Compression(n); 0 none, 1 gzip
	compressor  *string // gRPC exporters: WithCompressor(name)
	timeout     *time.Duration
	grpcConn    *grpc.ClientConn // gRPC exporters: WithGRPCConn
	proxy       bool             // HTTP exporters: WithProxy(no proxy)
	// gRPC exporters: further connection options (twins_test.go)
	serviceConfig *string        // WithServiceConfig
	reconnect     *time.Duration // WithReconnectionPeriod
	dialOption    *string        // WithDialOption(grpc.WithUserAgent(text))
}

func directProxy(*http.Request) (*url.URL, error) { return nil, nil }

// client is a constructed exporter.
type client struct {
	export   func(ctx context.Context, mark string) error
	shutdown func(ctx context.Context) error
}

func build(exp string, o optSet) (*client, error) {
	ctx := context.Background()
	switch exp {
	case "otlptracegrpc":
		opts := traceGRPCOptions(o)
		e, err := otlptracegrpc.New(ctx, opts...)
		if err != nil {
			return nil, err
		}
		return &client{
			export: func(ctx context.Context, mark string) error {
				return e.ExportSpans(ctx, tracetest.SpanStubs{{Name: mark}}.Snapshots())
			},
			shutdown: e.Shutdown,
		}, nil
	case "otlptracehttp":
		opts := traceHTTPOptions(o)
		e, err := otlptracehttp.New(ctx, opts...)
		if err != nil {
			return nil, err
		}
		return &client{
			export: func(ctx context.Context, mark string) error {
				return e.ExportSpans(ctx, tracetest.SpanStubs{{Name: mark}}.Snapshots())
			},
			shutdown: e.Shutdown,
		}, nil
	case "otlpmetricgrpc":
		opts := []otlpmetricgrpc.Option{otlpmetricgrpc.WithInsecure(), otlpmetricgrpc.WithRetry(otlpmetricgrpc.RetryConfig{Enabled: false})}
		if o.endpoint != nil {
			opts = append(opts, otlpmetricgrpc.WithEndpoint(*o.endpoint))
		}
		if o.endpointURL != nil {
			opts = append(opts, otlpmetricgrpc.WithEndpointURL(*o.endpointURL))
		}
		if o.hasHeaders {
			opts = append(opts, otlpmetricgrpc.WithHeaders(o.headers))
		}
		if o.compressor != nil {
			opts = append(opts, otlpmetricgrpc.WithCompressor(*o.compressor))
		}
		if o.timeout != nil {
			opts = append(opts, otlpmetricgrpc.WithTimeout(*o.timeout))
		}
		if o.grpcConn != nil {
			opts = append(opts, otlpmetricgrpc.WithGRPCConn(o.grpcConn))
		}
		if o.serviceConfig != nil {
			opts = append(opts, otlpmetricgrpc.WithServiceConfig(*o.serviceConfig))
		}
		if o.reconnect != nil {
			opts = append(opts, otlpmetricgrpc.WithReconnectionPeriod(*o.reconnect))
		}
		if o.dialOption != nil {
			opts = append(opts, otlpmetricgrpc.WithDialOption(grpc.WithUserAgent(*o.dialOption)))
		}
		e, err := otlpmetricgrpc.New(ctx, opts...)
		if err != nil {
			return nil, err
		}
		return &client{
			export:   func(ctx context.Context, mark string) error { return e.Export(ctx, oneMetric(mark)) },
			shutdown: e.Shutdown,
		}, nil
	case "otlpmetrichttp":
		opts := []otlpmetrichttp.Option{otlpmetrichttp.WithInsecure(), otlpmetrichttp.WithRetry(otlpmetrichttp.RetryConfig{Enabled: false})}
		if o.endpoint != nil {
			opts = append(opts, otlpmetrichttp.WithEndpoint(*o.endpoint))
		}
		if o.endpointURL != nil {
			opts = append(opts, otlpmetrichttp.WithEndpointURL(*o.endpointURL))
		}
		if o.urlPath != nil {
			opts = append(opts, otlpmetrichttp.WithURLPath(*o.urlPath))
		}
		if o.hasHeaders {
			opts = append(opts, otlpmetrichttp.WithHeaders(o.headers))
		}
		if o.compression != nil {
			opts = append(opts, otlpmetrichttp.WithCompression(otlpmetrichttp.Compression(*o.compression)))
		}
		if o.timeout != nil {
			opts = append(opts, otlpmetrichttp.WithTimeout(*o.timeout))
		}
		if o.proxy {
			opts = append(opts, otlpmetrichttp.WithProxy(directProxy))
		}
		e, err := otlpmetrichttp.New(ctx, opts...)
		if err != nil {
			return nil, err
		}
		return &client{
			export:   func(ctx context.Context, mark string) error { return e.Export(ctx, oneMetric(mark)) },
			shutdown: e.Shutdown,
		}, nil
	case "otlploggrpc":
		opts := []otlploggrpc.Option{otlploggrpc.WithInsecure(), otlploggrpc.WithRetry(otlploggrpc.RetryConfig{Enabled: false})}
		if o.endpoint != nil {
			opts = append(opts, otlploggrpc.WithEndpoint(*o.endpoint))
		}
		if o.endpointURL != nil {
			opts = append(opts, otlploggrpc.WithEndpointURL(*o.endpointURL))
		}
		if o.hasHeaders {
			opts = append(opts, otlploggrpc.WithHeaders(o.headers))
		}
		if o.compressor != nil {
			opts = append(opts, otlploggrpc.WithCompressor(*o.compressor))
		}
		if o.timeout != nil {
			opts = append(opts, otlploggrpc.WithTimeout(*o.timeout))
		}
		if o.grpcConn != nil {
			opts = append(opts, otlploggrpc.WithGRPCConn(o.grpcConn))
		}
		if o.serviceConfig != nil {
			opts = append(opts, otlploggrpc.WithServiceConfig(*o.serviceConfig))
		}
		if o.reconnect != nil {
			opts = append(opts, otlploggrpc.WithReconnectionPeriod(*o.reconnect))
		}
		if o.dialOption != nil {
			opts = append(opts, otlploggrpc.WithDialOption(grpc.WithUserAgent(*o.dialOption)))
		}
		e, err := otlploggrpc.New(ctx, opts...)
		if err != nil {
			return nil, err
		}
		return &client{
			export:   func(ctx context.Context, mark string) error { return e.Export(ctx, oneRecord(mark)) },
			shutdown: e.Shutdown,
		}, nil
	case "otlploghttp":
		opts := []otlploghttp.Option{otlploghttp.WithInsecure(), otlploghttp.WithRetry(otlploghttp.RetryConfig{Enabled: false})}
		if o.endpoint != nil {
			opts = append(opts, otlploghttp.WithEndpoint(*o.endpoint))
		}
		if o.endpointURL != nil {
			opts = append(opts, otlploghttp.WithEndpointURL(*o.endpointURL))
		}
		if o.urlPath != nil {
			opts = append(opts, otlploghttp.WithURLPath(*o.urlPath))
		}
		if o.hasHeaders {
			opts = append(opts, otlploghttp.WithHeaders(o.headers))
		}
		if o.compression != nil {
			opts = append(opts, otlploghttp.WithCompression(otlploghttp.Compression(*o.compression)))
		}
		if o.timeout != nil {
			opts = append(opts, otlploghttp.WithTimeout(*o.timeout))
		}
		if o.proxy {
			opts = append(opts, otlploghttp.WithProxy(directProxy))
		}
		e, err := otlploghttp.New(ctx, opts...)
		if err != nil {
			return nil, err
		}
		return &client{
			export:   func(ctx context.Context, mark string) error { return e.Export(ctx, oneRecord(mark)) },
			shutdown: e.Shutdown,
		}, nil
	}
	panic("harness bug: unknown exporter " + exp)
}

func traceGRPCOptions(o optSet) []otlptracegrpc.Option {
	opts := []otlptracegrpc.Option{otlptracegrpc.WithInsecure(), otlptracegrpc.WithRetry(otlptracegrpc.RetryConfig{Enabled: false})}
	if o.endpoint != nil {
		opts = append(opts, otlptracegrpc.WithEndpoint(*o.endpoint))
	}
	if o.endpointURL != nil {
		opts = append(opts, otlptracegrpc.WithEndpointURL(*o.endpointURL))
	}
	if o.hasHeaders {
		opts = append(opts, otlptracegrpc.WithHeaders(o.headers))
	}
	if o.compressor != nil {
		opts = append(opts, otlptracegrpc.WithCompressor(*o.compressor))
	}
	if o.timeout != nil {
		opts = append(opts, otlptracegrpc.WithTimeout(*o.timeout))
	}
	if o.grpcConn != nil {
		opts = append(opts, otlptracegrpc.WithGRPCConn(o.grpcConn))
	}
	if o.serviceConfig != nil {
		opts = append(opts, otlptracegrpc.WithServiceConfig(*o.serviceConfig))
	}
	if o.reconnect != nil {
		opts = append(opts, otlptracegrpc.WithReconnectionPeriod(*o.reconnect))
	}
	if o.dialOption != nil {
		opts = append(opts, otlptracegrpc.WithDialOption(grpc.WithUserAgent(*o.dialOption)))
	}
	return opts
}

func traceHTTPOptions(o optSet) []otlptracehttp.Option {
	opts := []otlptracehttp.Option{otlptracehttp.WithInsecure(), otlptracehttp.WithRetry(otlptracehttp.RetryConfig{Enabled: false})}
	if o.endpoint != nil {
		opts = append(opts, otlptracehttp.WithEndpoint(*o.endpoint))
	}
	if o.endpointURL != nil {
		opts = append(opts, otlptracehttp.WithEndpointURL(*o.endpointURL))
	}
	if o.urlPath != nil {
		opts = append(opts, otlptracehttp.WithURLPath(*o.urlPath))
	}
	if o.hasHeaders {
		opts = append(opts, otlptracehttp.WithHeaders(o.headers))
	}
	if o.compression != nil {
		opts = append(opts, otlptracehttp.WithCompression(otlptracehttp.Compression(*o.compression)))
	}
	if o.timeout != nil {
		opts = append(opts, otlptracehttp.WithTimeout(*o.timeout))
	}
	if o.proxy {
		opts = append(opts, otlptracehttp.WithProxy(directProxy))
	}
	return opts
}

func oneMetric(mark string) *metricdata.ResourceMetrics {
	return &metricdata.ResourceMetrics{
		Resource: resource.Empty(),
		ScopeMetrics: []metricdata.ScopeMetrics{{
			Scope: instrumentation.Scope{Name: "verif"},
			Metrics: []metricdata.Metrics{{
				Name: mark,
				Data: metricdata.Gauge[int64]{DataPoints: []metricdata.DataPoint[int64]{{Value: 1, Time: time.Unix(1, 0)}}},
			}},
		}},
	}
}

func oneRecord(mark string) []sdklog.Record {
	var r sdklog.Record
	r.SetTimestamp(time.Unix(1, 0))
	r.SetBody(log.StringValue(mark))
	return []sdklog.Record{r}
}
