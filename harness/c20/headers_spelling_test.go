package c20

// Spelling dimension of header values (headers cells, all six exporters).
//
// OTEL_EXPORTER_OTLP_[<SIGNAL>_]HEADERS is documented by every exporter as a
// list "key1=value1,key2=value2" whose format follows the W3C Baggage header
// (OpenTelemetry protocol exporter specification; the exporters' doc
// comments point there): members are separated by ",", key and value by the
// FIRST "=", optional white space around "=" and "," is not part of key or
// value, and the value is percent-encoded. The header "the source provides" is
// therefore the percent-decoded value; a programmatic WithHeaders map provides
// its values as they are (a "%41" in a map value is three characters).
//
// Generated: after the plain value (tag + digit) up to two special
// characters, each followed by a letter or digit:
//
//   - environment: a baggage-octet other than "%" written raw
//     (!#$&'()*+-./:<=>?@[]^_`{|}~ - this includes "=" and "+" inside a value),
//     or any printable ASCII character (also , ; space " \ %) written %XX or
//     %xx; optional white space around "=" and ",";
//   - option: any printable ASCII character raw, and the three characters of
//     a percent escape ("%41", "%2C").
//
// Only printable ASCII is generated: gRPC refuses metadata values with other
// bytes, which would make the cell's outcome depend on the transport instead
// of the configuration. Values start and end with a letter or digit, so that
// trimming optional white space cannot touch data.

import (
	"fmt"
	"strings"

	"go.opentelemetry.io/otel/verif/internal/vk"
	"pgregory.net/rapid"
)

const hdrDelims = "+=+=%,; \"\\&:/"

const hdrRawOK = "!#$&'()*+-./:<=>?@[]^_`{|}~"

func richHdrTail(t *rapid.T, env bool) string {
	n := rapid.IntRange(1, 2).Draw(t, "hdr_rich_n")
	var b strings.Builder
	for j := 0; j < 2; j++ {
		ch := byte(rapid.IntRange(0x20, 0x7e).Draw(t, "hdr_rich_char"))
		// half of the draws from the characters that mean something to a
		// header-list / URL / form decoder
		if k := rapid.IntRange(0, 2*len(hdrDelims)-1).Draw(t, "hdr_rich_delim"); k < len(hdrDelims) {
			ch = hdrDelims[k]
		}
		sp := rapid.IntRange(0, 3).Draw(t, "hdr_rich_spelling") // 0, 3: raw where legal
		l := richLetters[rapid.IntRange(0, len(richLetters)-1).Draw(t, "hdr_rich_letter")]
		if j >= n {
			continue
		}
		switch {
		case !env && sp == 2:
			// the text of a percent escape is data in a map value
			fmt.Fprintf(&b, "%%%02X", ch)
		case !env:
			b.WriteByte(ch)
		case (sp == 0 || sp == 3) && strings.IndexByte(hdrRawOK, ch) >= 0:
			b.WriteByte(ch)
		case sp == 2:
			fmt.Fprintf(&b, "%%%02x", ch)
		default:
			fmt.Fprintf(&b, "%%%02X", ch)
		}
		b.WriteByte(l)
	}
	return b.String()
}

// owsOf: the "=" and "," of an environment header list with the optional
// white space variant v around them.
func owsOf(v int) (eq, comma string) {
	switch v {
	case 1:
		return " = ", " , "
	case 2:
		return "=\t", ",\t"
	case 3:
		return " =", ", "
	}
	return "=", ","
}

func noteHdrSpelling(c Case, w int, info *vk.Info) {
	s := c.srcs()[w]
	via := map[bool]string{true: "option", false: "env"}[w == 0]
	plain := true
	for i := 0; i < len(s.Hdr); i++ {
		ch := s.Hdr[i]
		if !(ch >= '0' && ch <= '9' || ch >= 'a' && ch <= 'z' || ch >= 'A' && ch <= 'Z') {
			plain = false
		}
	}
	if plain {
		info.Class("hdr_spelling/plain/" + via)
	} else {
		info.Class("hdr_spelling/rich/" + via)
		info.Class("hdr_spelling/rich/" + via + "/" + c.Exporter)
	}
	if w == 0 {
		info.ClassIf(strings.Contains(s.Hdr, "%"), "hdr_spelling/option_value_with_percent")
		return
	}
	d := decodeHdr(s.Hdr)
	info.ClassIf(strings.Contains(s.Hdr, "+"), "hdr_spelling/env/raw_plus")
	info.ClassIf(strings.Contains(s.Hdr, "="), "hdr_spelling/env/raw_equals_in_value")
	info.ClassIf(strings.Contains(d, "%"), "hdr_spelling/env/escaped_percent")
	info.ClassIf(strings.ContainsAny(d, " ,;\"\\"), "hdr_spelling/env/escaped_delimiter_or_space")
	info.ClassIf(s.OWS != 0, "hdr_spelling/env/optional_white_space")
}
