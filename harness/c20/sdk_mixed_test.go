package c20

// Mixed configurations (sdk_env cases with Setting == "mixed"): ALL settings of
// one component are configured in ONE provider / processor, each setting
// independently through {option, variable, both, neither} (span attribute
// count / value length additionally through the generic OTEL_ATTRIBUTE_*
// variable), and each setting's precedence is asserted independently from
// what the component does:
//
//	log_limits   WithAttributeCountLimit, WithAttributeValueLengthLimit x OTEL_LOGRECORD_ATTRIBUTE_*:
//	             one record with a 300 byte string attribute and 139 more attributes;
//	span_limits  the SpanLimits struct is passed (WithSpanLimits / WithRawSpanLimits: it then provides
//	             all six limits) or not, all eight variables independently: one span with a long
//	             attribute, 140 attributes, 140 events and 140 links whose last one has 140 attributes;
//	bsp, blrp    batch size, queue size, export timeout, schedule delay. Two runs of the same
//	             configuration, both with an exporter that honours its context:
//	             A: batch+3 items, flush: largest batch == batch size, export deadline in
//	                (T/2, T], everything delivered;
//	             B: first export blocked, queue+5 (+10) items emitted meanwhile: what is kept
//	                shows the queue capacity (exactly for spans, within [B+Q, 2B+Q] for logs,
//	                whose export buffer may take one more batch).
//	             The schedule delay is always one to three hours from some source (it must not
//	             fire; its own precedence is decided by the single-setting cases) and the batch
//	             size always comes from some source (<= 8, below every queue size), so that
//	             both runs are deterministic.
//
// Valid numbers only: what unusable values mean is decided by the
// single-setting cases. The expected value of every setting is computed by the
// same resolve() as there.

import (
	"context"
	"fmt"
	"strings"
	"time"

	"go.opentelemetry.io/otel/attribute"
	"go.opentelemetry.io/otel/log"
	sdklog "go.opentelemetry.io/otel/sdk/log"
	sdktrace "go.opentelemetry.io/otel/sdk/trace"
	"go.opentelemetry.io/otel/sdk/trace/tracetest"
	"go.opentelemetry.io/otel/trace"
	"pgregory.net/rapid"
)

// MixItem is one setting of a mixed configuration.
type MixItem struct {
	Setting string `json:"setting"`
	Opt     SDKSrc `json:"opt"`
	Env     SDKSrc `json:"env"`
	Gen     SDKSrc `json:"gen"`
}

var mixedSettings = map[string][]string{
	"log_limits":  {"attr_count", "attr_len"},
	"span_limits": {"attr_count", "attr_len", "event_count", "link_count", "event_attr_count", "link_attr_count"},
	"bsp":         {"batch_size", "queue_size", "export_timeout", "schedule_delay"},
	"blrp":        {"batch_size", "queue_size", "export_timeout", "schedule_delay"},
}

func mixedValues(comp, setting string) []int64 {
	switch comp {
	case "bsp", "blrp":
		switch setting {
		case "batch_size":
			if comp == "blrp" {
				return []int64{2, 3, 4}
			}
			return []int64{2, 3, 4, 5, 6, 7, 8}
		case "queue_size":
			return []int64{12, 24, 36, 48}
		case "export_timeout":
			return []int64{5000, 120000, 600000}
		case "schedule_delay":
			return []int64{hourMs, 2 * hourMs, 3 * hourMs}
		}
	}
	out := make([]int64, 40)
	for i := range out {
		out[i] = int64(i + 1)
	}
	return out
}

func genMixed(t *rapid.T, c *SDKCase) {
	c.RawOpt = rapid.Bool().Draw(t, "raw_limits")
	structPassed := rapid.Bool().Draw(t, "limits_struct_passed")
	for _, name := range mixedSettings[c.Comp] {
		d := defOf(c.Comp, name)
		it := MixItem{Setting: name}
		vals := rapid.Permutation(mixedValues(c.Comp, name)).Draw(t, "values")
		srcs := []*SDKSrc{&it.Opt, &it.Env, &it.Gen}
		for i, s := range srcs {
			s.N = vals[i%len(vals)]
			s.Raw = spellInt(t, s.N)
		}
		// {option, variable, both, neither}, independently per setting
		how := uniform(t, 4, "how")
		mustHave := (c.Comp == "bsp" || c.Comp == "blrp") && (name == "batch_size" || name == "schedule_delay")
		if mustHave && how == 3 {
			how = uniform(t, 3, "how_again")
		}
		if how == 0 || how == 2 {
			it.Opt.State = valid
		}
		if how == 1 || how == 2 {
			it.Env.State = valid
		}
		if c.Comp == "span_limits" {
			it.Opt.State = absent
			if structPassed {
				it.Opt.State = valid
			}
			it.Env.State = rapid.SampledFrom([]int{absent, valid}).Draw(t, "env")
		}
		if d.hasGen && rapid.Bool().Draw(t, "generic") {
			it.Gen.State = valid
		}
		c.Mix = append(c.Mix, it)
	}
}

func (it MixItem) asCase(c SDKCase) SDKCase {
	return SDKCase{Comp: c.Comp, Setting: it.Setting, Opt: it.Opt, Env: it.Env, Gen: it.Gen, RawOpt: c.RawOpt}
}

func describeMixed(c SDKCase) string {
	var parts []string
	for _, it := range c.Mix {
		parts = append(parts, it.Setting+": "+describeSDK(it.asCase(c)))
	}
	return strings.Join(parts, "; ")
}

func runMixed(r *sdkRun, env *envSetter) {
	c := r.c
	want := map[string]int64{}
	twoPlus := 0
	for _, it := range c.Mix {
		d := defOf(c.Comp, it.Setting)
		if it.Env.State != absent {
			env.set(d.env, it.Env.Raw)
		}
		if d.hasGen && it.Gen.State != absent {
			env.set(d.gen, it.Gen.Raw)
		}
		acc := resolve(it.asCase(c))
		if len(acc) != 1 {
			panic("harness bug: mixed configurations use valid values only")
		}
		want[it.Setting] = acc[0]
		how := "neither"
		switch {
		case it.Opt.State != absent && it.Env.State != absent:
			how = "both"
			twoPlus++
		case it.Opt.State != absent:
			how = "option"
		case it.Env.State != absent:
			how = "variable"
		}
		if it.Opt.State == absent && it.Env.State == absent && it.Gen.State != absent {
			how = "generic_variable_only"
		}
		r.info.Class("mixed/" + c.Comp + "/" + it.Setting + "=" + how)
	}
	// non-trivial: the settings of the provider come from different kinds of
	// sources, or one of them from two
	kinds := map[string]bool{}
	for _, it := range c.Mix {
		kinds[fmt.Sprint(it.Opt.State != absent, it.Env.State != absent)] = true
	}
	r.info.NonTrivial = twoPlus > 0 || len(kinds) > 1
	r.info.ClassIf(len(kinds) > 1, "mixed/"+c.Comp+"/settings_from_different_sources")
	switch c.Comp {
	case "log_limits":
		mixedLogLimits(r, want)
	case "span_limits":
		mixedSpanLimits(r, want)
	case "bsp":
		mixedBSP(r, want)
	case "blrp":
		mixedBLRP(r, want)
	}
}

func (r *sdkRun) mixedCheck(setting string, got, n int, limit int64) {
	if got != capOf(limit, n) {
		r.bad("mixed_"+r.c.Comp, "%s: %d of %d kept, expected an effective limit of %d (-1 = unlimited) in the mixed configuration {%s}", setting, got, n, limit, describeMixed(r.c))
	}
}

func (c SDKCase) item(setting string) MixItem {
	for _, it := range c.Mix {
		if it.Setting == setting {
			return it
		}
	}
	panic("harness bug: no mixed item " + setting)
}

// ---- LoggerProvider ----

func mixedLogLimits(r *sdkRun, want map[string]int64) {
	c := r.c
	capt := &logCapture{}
	opts := []sdklog.LoggerProviderOption{sdklog.WithProcessor(capt)}
	if it := c.item("attr_count"); it.Opt.State != absent {
		opts = append(opts, sdklog.WithAttributeCountLimit(int(it.Opt.N)))
	}
	if it := c.item("attr_len"); it.Opt.State != absent {
		opts = append(opts, sdklog.WithAttributeValueLengthLimit(int(it.Opt.N)))
	}
	lp := sdklog.NewLoggerProvider(opts...)
	var rr log.Record
	rr.SetBody(log.StringValue("r"))
	kvs := []log.KeyValue{log.String("a.long", strings.Repeat("x", longValue))}
	for i := 1; i < manyItems; i++ {
		kvs = append(kvs, log.Int(fmt.Sprintf("k%03d", i), i))
	}
	rr.AddAttributes(kvs...)
	lp.Logger("c20").Emit(context.Background(), rr)
	ctx, cancel := longCtx()
	defer cancel()
	r.checkDone("ForceFlush", lp.ForceFlush(ctx))
	r.checkDone("Shutdown", lp.Shutdown(ctx))
	if len(capt.recs) != 1 {
		r.bad("harness_assumption", "%d records reached the processor", len(capt.recs))
		return
	}
	rec := capt.recs[0]
	r.mixedCheck("attr_count", rec.AttributesLen(), manyItems, want["attr_count"])
	got := -1
	rec.WalkAttributes(func(kv log.KeyValue) bool {
		if kv.Key == "a.long" {
			got = len(kv.Value.AsString())
			return false
		}
		return true
	})
	r.mixedCheck("attr_len", got, longValue, want["attr_len"])
}

// ---- TracerProvider span limits ----

func mixedSpanLimits(r *sdkRun, want map[string]int64) {
	c := r.c
	var opts []sdktrace.TracerProviderOption
	if c.item("attr_count").Opt.State != absent {
		sl := sdktrace.SpanLimits{
			AttributeCountLimit:         int(c.item("attr_count").Opt.N),
			AttributeValueLengthLimit:   int(c.item("attr_len").Opt.N),
			EventCountLimit:             int(c.item("event_count").Opt.N),
			LinkCountLimit:              int(c.item("link_count").Opt.N),
			AttributePerEventCountLimit: int(c.item("event_attr_count").Opt.N),
			AttributePerLinkCountLimit:  int(c.item("link_attr_count").Opt.N),
		}
		if c.RawOpt {
			opts = append(opts, sdktrace.WithRawSpanLimits(sl))
		} else {
			opts = append(opts, sdktrace.WithSpanLimits(sl))
		}
	}
	exp := tracetest.NewInMemoryExporter()
	opts = append(opts, sdktrace.WithSyncer(exp), sdktrace.WithSampler(sdktrace.AlwaysSample()))
	tp := sdktrace.NewTracerProvider(opts...)
	_, sp := tp.Tracer("c20").Start(context.Background(), "s")
	sc := trace.NewSpanContext(trace.SpanContextConfig{TraceID: trace.TraceID{1}, SpanID: trace.SpanID{2}})
	attrs := append([]attribute.KeyValue{attribute.String("a.long", strings.Repeat("x", longValue))}, manyAttrs(manyItems-1)...)
	sp.SetAttributes(attrs...)
	for i := 0; i < manyItems; i++ {
		if i == manyItems-1 {
			sp.AddEvent("last", trace.WithAttributes(manyAttrs(manyItems)...))
			sp.AddLink(trace.Link{SpanContext: sc, Attributes: manyAttrs(manyItems)})
			break
		}
		sp.AddEvent("e")
		sp.AddLink(trace.Link{SpanContext: sc})
	}
	sp.End()
	ctx, cancel := longCtx()
	defer cancel()
	r.checkDone("ForceFlush", tp.ForceFlush(ctx))
	spans := exp.GetSpans()
	r.checkDone("Shutdown", tp.Shutdown(ctx))
	if len(spans) != 1 {
		r.bad("harness_assumption", "%d spans exported", len(spans))
		return
	}
	s := spans[0]
	r.mixedCheck("attr_count", len(s.Attributes), manyItems, want["attr_count"])
	got := -1
	for _, kv := range s.Attributes {
		if kv.Key == "a.long" {
			got = len(kv.Value.AsString())
		}
	}
	r.mixedCheck("attr_len", got, longValue, want["attr_len"])
	r.mixedCheck("event_count", len(s.Events), manyItems, want["event_count"])
	r.mixedCheck("link_count", len(s.Links), manyItems, want["link_count"])
	if n := len(s.Events); n > 0 {
		r.mixedCheck("event_attr_count", len(s.Events[n-1].Attributes), manyItems, want["event_attr_count"])
	}
	if n := len(s.Links); n > 0 {
		r.mixedCheck("link_attr_count", len(s.Links[n-1].Attributes), manyItems, want["link_attr_count"])
	}
}

// ---- batch processors ----

func (r *sdkRun) mixedDeadline(dls []time.Duration, wantMs int64) {
	if len(dls) == 0 {
		r.bad("harness_assumption", "no export observed")
		return
	}
	t := time.Duration(wantMs) * time.Millisecond
	if got := dls[0]; !(got > t/2 && got <= t) {
		obs := got.String()
		if got < 0 {
			obs = "no deadline"
		}
		r.bad("mixed_"+r.c.Comp, "export_timeout: the exporter's context has %s left, expected %v in the mixed configuration {%s}", obs, t, describeMixed(r.c))
	}
}

func mixedBSP(r *sdkRun, want map[string]int64) {
	c := r.c
	build := func(gated, blocking bool) (*spanRec, *sdktrace.TracerProvider) {
		var opts []sdktrace.BatchSpanProcessorOption
		if blocking {
			opts = append(opts, sdktrace.WithBlocking())
		}
		if it := c.item("batch_size"); it.Opt.State != absent {
			opts = append(opts, sdktrace.WithMaxExportBatchSize(int(it.Opt.N)))
		}
		if it := c.item("queue_size"); it.Opt.State != absent {
			opts = append(opts, sdktrace.WithMaxQueueSize(int(it.Opt.N)))
		}
		if it := c.item("export_timeout"); it.Opt.State != absent {
			opts = append(opts, sdktrace.WithExportTimeout(time.Duration(it.Opt.N)*time.Millisecond))
		}
		if it := c.item("schedule_delay"); it.Opt.State != absent {
			opts = append(opts, sdktrace.WithBatchTimeout(time.Duration(it.Opt.N)*time.Millisecond))
		}
		rec := newSpanRec(gated)
		tp := sdktrace.NewTracerProvider(sdktrace.WithSpanProcessor(sdktrace.NewBatchSpanProcessor(rec, opts...)), sdktrace.WithSampler(sdktrace.AlwaysSample()))
		return rec, tp
	}
	emit := func(tp *sdktrace.TracerProvider, n int) {
		tr := tp.Tracer("c20")
		for i := 0; i < n; i++ {
			_, sp := tr.Start(context.Background(), "s")
			sp.End()
		}
	}
	finish := func(tp *sdktrace.TracerProvider) {
		ctx, cancel := noDeadlineCtx()
		defer cancel()
		r.flushed("ForceFlush", tp.ForceFlush(ctx), false)
		r.flushed("Shutdown", tp.Shutdown(ctx), false)
	}
	b, q := int(want["batch_size"]), int(want["queue_size"])

	// run A
	rec, tp := build(false, true)
	emit(tp, b+3)
	finish(tp)
	r.delivered(rec, b+3)
	max, _, dls := rec.stats()
	okA := max == b
	if !okA {
		r.bad("mixed_bsp", "batch_size: largest batch handed to the exporter has %d spans, expected %d in the mixed configuration {%s}", max, b, describeMixed(c))
	}
	r.mixedDeadline(dls, want["export_timeout"])
	if !okA {
		return
	}

	// run B
	rec, tp = build(true, false)
	emit(tp, b)
	select {
	case <-rec.entered:
	case <-time.After(time.Minute):
		r.bad("hang", "mixed bsp: a full batch of %d spans never reached the exporter", b)
		close(rec.gate)
		finish(tp)
		return
	}
	emit(tp, q+5)
	close(rec.gate)
	finish(tp)
	r.live(rec)
	if _, total, _ := rec.stats(); total != b+q {
		r.bad("mixed_bsp", "queue_size: with the exporter blocked on the first batch of %d, %d of %d further spans were kept, expected a queue capacity of %d in the mixed configuration {%s}", b, total-b, q+5, q, describeMixed(c))
	}
}

func mixedBLRP(r *sdkRun, want map[string]int64) {
	c := r.c
	build := func(gated bool) (*logRec, *sdklog.LoggerProvider) {
		var opts []sdklog.BatchProcessorOption
		if it := c.item("batch_size"); it.Opt.State != absent {
			opts = append(opts, sdklog.WithExportMaxBatchSize(int(it.Opt.N)))
		}
		if it := c.item("queue_size"); it.Opt.State != absent {
			opts = append(opts, sdklog.WithMaxQueueSize(int(it.Opt.N)))
		}
		if it := c.item("export_timeout"); it.Opt.State != absent {
			opts = append(opts, sdklog.WithExportTimeout(time.Duration(it.Opt.N)*time.Millisecond))
		}
		if it := c.item("schedule_delay"); it.Opt.State != absent {
			opts = append(opts, sdklog.WithExportInterval(time.Duration(it.Opt.N)*time.Millisecond))
		}
		rec := &logRec{*newSpanRec(gated)}
		return rec, sdklog.NewLoggerProvider(sdklog.WithProcessor(sdklog.NewBatchProcessor(rec, opts...)))
	}
	emit := func(lp *sdklog.LoggerProvider, n int) {
		lg := lp.Logger("c20")
		for i := 0; i < n; i++ {
			var rr log.Record
			rr.SetBody(log.StringValue("r"))
			lg.Emit(context.Background(), rr)
		}
	}
	finish := func(lp *sdklog.LoggerProvider) {
		ctx, cancel := noDeadlineCtx()
		defer cancel()
		r.flushed("ForceFlush", lp.ForceFlush(ctx), false)
		r.flushed("Shutdown", lp.Shutdown(ctx), false)
	}
	b, q := int(want["batch_size"]), int(want["queue_size"])

	// run A
	rec, lp := build(false)
	emit(lp, b+3)
	finish(lp)
	r.delivered(&rec.spanRec, b+3)
	max, _, dls := rec.stats()
	okA := max == b
	if !okA {
		r.bad("mixed_blrp", "batch_size: largest batch handed to the exporter has %d records, expected %d in the mixed configuration {%s}", max, b, describeMixed(c))
	}
	r.mixedDeadline(dls, want["export_timeout"])
	if !okA {
		return
	}

	// run B
	rec, lp = build(true)
	emit(lp, b)
	select {
	case <-rec.entered:
	case <-time.After(time.Minute):
		r.bad("hang", "mixed blrp: a full batch of %d records never reached the exporter", b)
		close(rec.gate)
		finish(lp)
		return
	}
	emit(lp, q+10)
	close(rec.gate)
	finish(lp)
	r.live(&rec.spanRec)
	// the blocked export holds b records, the export buffer may take one more
	// batch, the queue keeps q: b+q <= total <= 2b+q
	if _, total, _ := rec.stats(); total < b+q || total > 2*b+q {
		r.bad("mixed_blrp", "queue_size: with the exporter blocked on the first batch of %d, %d of %d emitted records were exported in the end, expected a queue capacity of %d (total in [%d, %d]) in the mixed configuration {%s}", b, total, b+q+10, q, b+q, 2*b+q, describeMixed(c))
	}
}
