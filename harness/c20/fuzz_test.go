package c20

import (
	"context"
	"os"
	"strings"
	"testing"
	"time"
)

// constructAll builds (and shuts down, without exporting) each of the six
// exporters under the given environment. The oracle is: no panic, and the
// constructor and Shutdown return (the fuzz engine's own timeout bounds a
// hang).
func constructAll(t *testing.T, env map[string]string) {
	for k, v := range env {
		if strings.IndexByte(v, 0) >= 0 {
			t.Skip("NUL cannot be put into the environment")
		}
		os.Setenv(k, v)
	}
	defer func() {
		for k := range env {
			os.Unsetenv(k)
		}
	}()
	for _, exp := range exporterNames {
		cl, err := build(exp, optSet{})
		if err != nil {
			continue
		}
		ctx, cancel := context.WithTimeout(context.Background(), 10*time.Second)
		_ = cl.shutdown(ctx)
		cancel()
	}
}

// FuzzHeadersEnv: any text in OTEL_EXPORTER_OTLP_HEADERS and in the
// signal-specific header variables.
func FuzzHeadersEnv(f *testing.F) {
	for _, s := range []string{"", " ", "a=b", "a=b,c=d", "a", "=", "=v", "a=%zz", "a=%", "a=b,,", ",", "a b=c", "é=ü", "a=b=c", "x-verif-src=s,broken", "a=%20b%2C", "\xff=\xfe", "a=\n"} {
		f.Add(s, true)
		f.Add(s, false)
	}
	f.Fuzz(func(t *testing.T, s string, generic bool) {
		env := map[string]string{}
		if generic {
			env["OTEL_EXPORTER_OTLP_HEADERS"] = s
		} else {
			for _, sig := range []string{"TRACES", "METRICS", "LOGS"} {
				env["OTEL_EXPORTER_OTLP_"+sig+"_HEADERS"] = s
			}
		}
		constructAll(t, env)
	})
}

// FuzzEndpointEnv: any text in OTEL_EXPORTER_OTLP_ENDPOINT and in the
// signal-specific endpoint variables.
func FuzzEndpointEnv(f *testing.F) {
	for _, s := range []string{"", " ", "http://127.0.0.1:4318", "http://127.0.0.1:4318/", "http://127.0.0.1:4318/base/", "https://h", "127.0.0.1:4318", "http://[::1", "http://h:x", "://h", "abc", "/p", "http//h", "unix:///tmp/sock", "http://h/%zz", "http://h/\x7f", "http://h?q=1#f", "http://user:pw@h:1/p", "\xff", "http://h:99999", "dns:///h:1"} {
		f.Add(s, true)
		f.Add(s, false)
	}
	f.Fuzz(func(t *testing.T, s string, generic bool) {
		env := map[string]string{}
		if generic {
			env["OTEL_EXPORTER_OTLP_ENDPOINT"] = s
		} else {
			for _, sig := range []string{"TRACES", "METRICS", "LOGS"} {
				env["OTEL_EXPORTER_OTLP_"+sig+"_ENDPOINT"] = s
			}
		}
		constructAll(t, env)
	})
}
