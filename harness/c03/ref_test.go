// Package c03 decides property C03 (W3C trace-context propagation round-trips
// and never accepts malformed headers) with three generated checks and two
// native fuzz targets:
//
//	roundtrip   generated valid span contexts -> Inject -> Extract, over the
//	            carrier's pre-state (carrier_test.go), the form of the
//	            propagator, the way the span context is built and further
//	            hops that edit the tracestate (forms_test.go)
//	headers     arbitrary / mutated traceparent + tracestate header bytes
//	tracestate  rapid state machine over trace.TraceState edits against a
//	            reference model (slice, move-to-front, right-most eviction)
//
// Everything the implementation produces is judged by the byte-level
// reference in this file, written from the W3C Trace Context (level 1) ABNF:
//
//	traceparent   = version "-" trace-id "-" parent-id "-" trace-flags
//	version       = 2HEXDIGLC                  ; "ff" is forbidden
//	trace-id      = 32HEXDIGLC                 ; all zeroes forbidden
//	parent-id     = 16HEXDIGLC                 ; all zeroes forbidden
//	trace-flags   = 2HEXDIGLC                  ; only bit 0 defined, others MUST be sent as 0
//	(version 00: nothing may follow; higher versions: end of string or "-" must follow)
//
//	list          = list-member 0*31( OWS "," OWS list-member )   ; <= 32 members, unique keys
//	list-member   = key "=" value / OWS
//	key           = simple-key / multi-tenant-key
//	simple-key    = lcalpha 0*255( lcalpha / DIGIT / "_" / "-" / "*" / "/" )
//	multi-tenant  = tenant-id "@" system-id
//	tenant-id     = ( lcalpha / DIGIT ) 0*240( lcalpha / DIGIT / "_" / "-" / "*" / "/" )
//	system-id     = lcalpha 0*13( lcalpha / DIGIT / "_" / "-" / "*" / "/" )
//	value         = 0*255(chr) nblk-chr ; chr = %x20-2B / %x2D-3C / %x3E-7E, nblk-chr = chr except %x20
//
// Readings chosen where the statement is open (all on the conservative side):
//
//   - "never accepts malformed headers" is read as: whenever Extract changes
//     the context, the traceparent header it was given is well-formed by the
//     reference above (after stripping optional blanks/tabs at both ends, which
//     HTTP allows around any field value) and the extracted IDs / sampled bit
//     are the ones written in it; whenever a non-empty tracestate comes out, the
//     tracestate header is a well-formed list and the members that come out are
//     its members, in order, with the optional white space removed.
//   - Which well-formed headers must be ACCEPTED is not asserted for header
//     input (e.g. the implementation rejects version-00 flags above 02 and a
//     list-member made of blanks only; both are merely counted as classes).
//     Only tracestates that the TraceState API itself produced, and members
//     that are valid by the ABNF and handed to Insert / ParseTraceState without
//     any optional white space, must be accepted (that is what "round-trips"
//     and the reference model of the edit clause need).
//   - Empty list-members do not count towards the limit of 32.
//   - Only the sampled bit of the flags is compared between the injected and
//     the extracted context; the re-injected flags field must be "00" or "01"
//     (level 1: undefined flag bits MUST be sent as zero; Inject masks them).
//   - "a carrier" is any http.Header / map, new or already holding entries.
//     Which entry is "the traceparent / tracestate header" of a carrier follows
//     the documented addressing of the storage type (http.Header: the entry
//     under the canonical MIME key, first field line; map: the exact key);
//     entries stored verbatim under other spellings are not the header and must
//     neither be extracted nor shadow what Inject wrote.
//   - TextMapCarrier has no delete and Inject writes no tracestate header for a
//     span context without tracestate, so a stale tracestate the addressing
//     reaches survives Inject when nothing replaces it: the tracestate clause
//     is not judged for (empty tracestate injected, reachable stale tracestate
//     present); ids and sampled flag still are. Counted as a class.
//   - A Baggage neighbour in a composite propagator and a baggage in the
//     context are only there to be ignored; nothing about baggage is asserted.
//   - "context untouched" is read as: the span context (and an unrelated
//     value) found in the returned context equal the ones in the context
//     passed in; pointer identity of the context is not demanded.
package c03

import (
	"strings"
)

// Member is one tracestate list-member as data.
type Member struct {
	K string
	V string
}

func isLcAlpha(b byte) bool { return b >= 'a' && b <= 'z' }
func isDigit(b byte) bool   { return b >= '0' && b <= '9' }

func isKeyChar(b byte) bool {
	return isLcAlpha(b) || isDigit(b) || b == '_' || b == '-' || b == '*' || b == '/'
}

func allKeyChars(s string) bool {
	for i := 0; i < len(s); i++ {
		if !isKeyChar(s[i]) {
			return false
		}
	}
	return true
}

// refKeyOK is the key production of the ABNF, byte by byte.
func refKeyOK(k string) bool {
	at := strings.IndexByte(k, '@')
	if at < 0 {
		return len(k) >= 1 && len(k) <= 256 && isLcAlpha(k[0]) && allKeyChars(k[1:])
	}
	tenant, system := k[:at], k[at+1:]
	if len(tenant) < 1 || len(tenant) > 241 || len(system) < 1 || len(system) > 14 {
		return false
	}
	if !(isLcAlpha(tenant[0]) || isDigit(tenant[0])) || !allKeyChars(tenant[1:]) {
		return false
	}
	return isLcAlpha(system[0]) && allKeyChars(system[1:]) // a second "@" is not a key char
}

// refValueOK is the value production of the ABNF.
func refValueOK(v string) bool {
	if len(v) < 1 || len(v) > 256 {
		return false
	}
	for i := 0; i < len(v); i++ {
		b := v[i]
		if b < 0x20 || b > 0x7e || b == ',' || b == '=' {
			return false
		}
	}
	return v[len(v)-1] != ' '
}

func trimOWS(s string) string {
	for len(s) > 0 && (s[0] == ' ' || s[0] == '\t') {
		s = s[1:]
	}
	for len(s) > 0 && (s[len(s)-1] == ' ' || s[len(s)-1] == '\t') {
		s = s[:len(s)-1]
	}
	return s
}

// refParseTraceState is the reference reader of a tracestate header value: it
// returns the list-members (optional white space removed, empty members
// skipped) when the header is a well-formed list, ok=false otherwise.
func refParseTraceState(h string) (ms []Member, ok bool) {
	seen := map[string]bool{}
	for _, raw := range strings.Split(h, ",") {
		m := trimOWS(raw)
		if m == "" {
			continue
		}
		eq := strings.IndexByte(m, '=')
		if eq < 0 {
			return nil, false
		}
		k, v := m[:eq], m[eq+1:]
		if !refKeyOK(k) || !refValueOK(v) || seen[k] {
			return nil, false
		}
		seen[k] = true
		ms = append(ms, Member{k, v})
		if len(ms) > 32 {
			return nil, false
		}
	}
	return ms, true
}

func joinMembers(ms []Member) string {
	var sb strings.Builder
	n := 0
	for _, m := range ms {
		n += len(m.K) + len(m.V) + 2
	}
	sb.Grow(n)
	for i, m := range ms {
		if i > 0 {
			sb.WriteByte(',')
		}
		sb.WriteString(m.K)
		sb.WriteByte('=')
		sb.WriteString(m.V)
	}
	return sb.String()
}

func sameMembers(a, b []Member) bool {
	if len(a) != len(b) {
		return false
	}
	for i := range a {
		if a[i] != b[i] {
			return false
		}
	}
	return true
}

// ---------------------------------------------------------------------
// traceparent

func lowerHexVal(b byte) (byte, bool) {
	switch {
	case b >= '0' && b <= '9':
		return b - '0', true
	case b >= 'a' && b <= 'f':
		return b - 'a' + 10, true
	}
	return 0, false
}

// decodeLowerHex decodes exactly len(dst)*2 lower-case hex digits.
func decodeLowerHex(dst []byte, s string) bool {
	if len(s) != 2*len(dst) {
		return false
	}
	for i := range dst {
		hi, ok1 := lowerHexVal(s[2*i])
		lo, ok2 := lowerHexVal(s[2*i+1])
		if !ok1 || !ok2 {
			return false
		}
		dst[i] = hi<<4 | lo
	}
	return true
}

func allZero(b []byte) bool {
	for _, x := range b {
		if x != 0 {
			return false
		}
	}
	return true
}

type refTP struct {
	OK      bool
	Version byte
	TID     [16]byte
	SID     [8]byte
	Flags   byte
	Why     string // reason when !OK
}

// refParseTraceparent is the reference reader of a traceparent header value.
func refParseTraceparent(h string) refTP {
	h = trimOWS(h)
	var r refTP
	if len(h) < 55 {
		r.Why = "shorter than 55 bytes"
		return r
	}
	var v [1]byte
	if !decodeLowerHex(v[:], h[0:2]) {
		r.Why = "version is not 2 lower-case hex digits"
		return r
	}
	r.Version = v[0]
	if r.Version == 0xff {
		r.Why = "version ff"
		return r
	}
	if h[2] != '-' || h[35] != '-' || h[52] != '-' {
		r.Why = "dash missing at offset 2, 35 or 52"
		return r
	}
	if !decodeLowerHex(r.TID[:], h[3:35]) {
		r.Why = "trace-id is not 32 lower-case hex digits"
		return r
	}
	if !decodeLowerHex(r.SID[:], h[36:52]) {
		r.Why = "parent-id is not 16 lower-case hex digits"
		return r
	}
	var f [1]byte
	if !decodeLowerHex(f[:], h[53:55]) {
		r.Why = "flags are not 2 lower-case hex digits"
		return r
	}
	r.Flags = f[0]
	if allZero(r.TID[:]) {
		r.Why = "all-zero trace-id"
		return r
	}
	if allZero(r.SID[:]) {
		r.Why = "all-zero parent-id"
		return r
	}
	if len(h) > 55 {
		// Reading: a version-00 value followed by exactly ONE trailing "-" is
		// not counted as malformed. The W3C grammar allows nothing after the
		// flags of version 00, but the repository's own test table
		// (propagation/trace_context_test.go, "… ending in dash") requires the
		// propagator to accept that input, so the leniency is deliberate and
		// a check demanding rejection would contradict the pinned suite.
		if r.Version == 0 && !(len(h) == 56 && h[55] == '-') {
			r.Why = "version 00 with trailing data"
			return r
		}
		if h[55] != '-' {
			r.Why = "flags not followed by end of string or dash"
			return r
		}
	}
	r.OK = true
	return r
}

const lowerHexDigits = "0123456789abcdef"

func hexOf(b []byte) string {
	out := make([]byte, 0, 2*len(b))
	for _, x := range b {
		out = append(out, lowerHexDigits[x>>4], lowerHexDigits[x&15])
	}
	return string(out)
}

// refFormatTraceparent is what a version-00 sender must write.
func refFormatTraceparent(tid [16]byte, sid [8]byte, sampled bool) string {
	f := "00"
	if sampled {
		f = "01"
	}
	return "00-" + hexOf(tid[:]) + "-" + hexOf(sid[:]) + "-" + f
}

// strictInjectedTraceparent validates what Inject wrote: version 00, no
// blanks, flags 00 or 01.
func strictInjectedTraceparent(h string) (refTP, string) {
	r := refParseTraceparent(h)
	switch {
	case !r.OK:
		return r, r.Why
	case len(h) != 55:
		return r, "length is not 55"
	case r.Version != 0:
		return r, "version is not 00"
	case r.Flags > 1:
		return r, "flag bits other than sampled are set"
	}
	return r, ""
}

// ---------------------------------------------------------------------
// reference model of TraceState edits

type model []Member

func (m model) clone() model { return append(model{}, m...) }

func (m model) index(k string) int {
	for i := range m {
		if m[i].K == k {
			return i
		}
	}
	return -1
}

func (m model) get(k string) string {
	if i := m.index(k); i >= 0 {
		return m[i].V
	}
	return ""
}

// insert returns the new model; ok=false means the member is invalid and the
// model is unchanged. overflow / update report what happened.
func (m model) insert(k, v string) (out model, ok, update, overflow bool) {
	if !refKeyOK(k) || !refValueOK(v) {
		return m, false, false, false
	}
	out = model{{k, v}}
	for _, x := range m {
		if x.K == k {
			update = true
			continue
		}
		out = append(out, x)
	}
	if len(out) > 32 {
		out = out[:32]
		overflow = true
	}
	return out, true, update, overflow
}

func (m model) delete(k string) (model, bool) {
	i := m.index(k)
	if i < 0 {
		return m, false
	}
	out := append(model{}, m[:i]...)
	return append(out, m[i+1:]...), true
}
