package c03

import (
	"strings"
	"testing"

	"go.opentelemetry.io/otel/propagation"
	"go.opentelemetry.io/otel/trace"
	"go.opentelemetry.io/otel/verif/internal/vk"
	"pgregory.net/rapid"
)

// HCase is one pair of header values presented to Extract.
type HCase struct {
	HasTP   bool   `json:"has_traceparent"`
	TP      vk.Str `json:"traceparent"`
	HasTS   bool   `json:"has_tracestate"`
	TS      vk.Str `json:"tracestate"`
	Prior   bool   `json:"prior"`   // the context handed to Extract already carries a span
	Carrier string `json:"carrier"` // map | header
	// Decoys: further entries in the carrier's underlying storage that the
	// carrier's documented addressing does NOT reach for "traceparent" /
	// "tracestate" (http.Header: verbatim non-canonical keys; map: other
	// spellings) or that belong to unrelated names. They are not the headers
	// Extract was given. Entries that would alias the two fields are skipped
	// by Run, so every encoding of the case is meaningful.
	Decoys []PreEntry `json:"decoys,omitempty"`
	Prop   string     `json:"prop,omitempty"` // form of the propagator, see forms_test.go
}

func genH(t *rapid.T) HCase {
	c := HCase{HasTP: true, HasTS: true}
	c.TP = vk.Str(genTraceparent().Draw(t, "traceparent"))
	if rapid.IntRange(0, 39).Draw(t, "notp") == 0 {
		c.HasTP, c.TP = false, ""
	}
	if rapid.IntRange(0, 9).Draw(t, "nots") == 0 {
		c.HasTS = false
	} else {
		c.TS = vk.Str(genTracestate().Draw(t, "tracestate"))
	}
	c.Prior = rapid.Bool().Draw(t, "prior")
	c.Carrier = rapid.SampledFrom([]string{"map", "map", "header"}).Draw(t, "carrier")
	if rapid.IntRange(0, 3).Draw(t, "withdecoys") == 0 {
		c.Decoys = genPre().Draw(t, "decoys")
	}
	c.Prop = rapid.SampledFrom(propForms).Draw(t, "propagator_form")
	return c
}

func scSummary(sc trace.SpanContext) string {
	return sc.TraceID().String() + "/" + sc.SpanID().String() + "/" + sc.TraceFlags().String() + "/remote=" + map[bool]string{true: "1", false: "0"}[sc.IsRemote()]
}

// readTraceState observes a TraceState through Walk (not through String).
func readTraceState(ts trace.TraceState) []Member {
	var out []Member
	if n := ts.Len(); n > 0 && n <= 64 {
		out = make([]Member, 0, n)
	}
	ts.Walk(func(k, v string) bool {
		out = append(out, Member{k, v})
		return true
	})
	return out
}

// checkTraceStateValue judges a TraceState value the implementation handed
// out: at most 32 members, unique ABNF-valid keys, ABNF-valid values, and a
// String() that the reference reads back as exactly those members.
func checkTraceStateValue(ts trace.TraceState, what string, bad func(kind, format string, a ...any)) {
	ms := readTraceState(ts)
	if len(ms) != ts.Len() {
		bad("tracestate_len", "%s: Len() = %d but Walk yields %d members", what, ts.Len(), len(ms))
	}
	if len(ms) > 32 {
		bad("tracestate_too_many_members", "%s holds %d members", what, len(ms))
	}
	seen := map[string]bool{}
	for _, m := range ms {
		if !refKeyOK(m.K) {
			bad("tracestate_illegal_key", "%s holds the key %q which the W3C key grammar does not allow", what, m.K)
		}
		if !refValueOK(m.V) {
			bad("tracestate_illegal_value", "%s holds for key %q the value %q which the W3C value grammar does not allow", what, m.K, m.V)
		}
		if seen[m.K] {
			bad("tracestate_duplicate_key", "%s holds the key %q twice", what, m.K)
		}
		seen[m.K] = true
	}
	s := ts.String()
	back, ok := refParseTraceState(s)
	if !ok {
		bad("tracestate_string_grammar", "%s: String() = %q is not a well-formed W3C tracestate list", what, s)
	} else if !sameMembers(back, ms) {
		bad("tracestate_string_members", "%s: String() = %q reads back as %v, members are %v", what, s, back, ms)
	}
}

func runH(c HCase) ([]vk.Violation, vk.Info) {
	var vs []vk.Violation
	var info vk.Info
	tp, tsh := string(c.TP), string(c.TS)
	prop := newProp(c.Prop)
	info.ClassIf(c.Prop != "" && c.Prop != "direct", "composite_propagator")

	// decoys: only entries that do not alias the two fields
	var decoys []PreEntry
	probe := newStore(c.Carrier)
	for _, e := range c.Decoys {
		if probe.addresses(e, "traceparent") || probe.addresses(e, "tracestate") {
			continue
		}
		decoys = append(decoys, e)
	}
	probe.classify(decoys, &info)
	pre := describePre(decoys)
	bad := func(kind, format string, a ...any) {
		v := vk.V(kind, format, a...)
		v.Msg += pre
		vs = append(vs, v)
	}

	mk := func(withTS bool) propagation.TextMapCarrier {
		st := newStore(c.Carrier)
		for _, e := range decoys {
			st.apply(e)
		}
		car := st.carrier()
		if c.HasTP {
			car.Set("traceparent", tp)
		}
		if withTS && c.HasTS {
			car.Set("tracestate", tsh)
		}
		return car
	}

	ref := refTP{Why: "header absent"}
	if c.HasTP {
		ref = refParseTraceparent(tp)
	}
	refMS, refTSOK := []Member(nil), true
	if c.HasTS {
		refMS, refTSOK = refParseTraceState(tsh)
	}

	base := baseContext(c.Prior)
	before := trace.SpanContextFromContext(base)
	out := prop.Extract(base, mk(true))
	got := trace.SpanContextFromContext(out)
	if v, _ := out.Value(ctxKey{}).(string); v != "marker" {
		bad("context_value_lost", "the context returned by Extract lost an unrelated value")
	}
	accepted := !got.Equal(before)

	switch {
	case accepted && !ref.OK:
		bad("malformed_traceparent_accepted", "traceparent %q is malformed (%s) but Extract produced %s", tp, ref.Why, scSummary(got))
	case accepted:
		if got.TraceID() != trace.TraceID(ref.TID) || got.SpanID() != trace.SpanID(ref.SID) {
			bad("extracted_ids_differ_from_header", "traceparent %q extracted as %s", tp, scSummary(got))
		}
		if got.IsSampled() != (ref.Flags&1 == 1) {
			bad("extracted_sampled_differs_from_header", "traceparent %q (flags %#02x) extracted with flags %s", tp, ref.Flags, got.TraceFlags())
		}
	}
	if accepted {
		tid, sid := got.TraceID(), got.SpanID()
		if allZero(tid[:]) || allZero(sid[:]) || !got.IsValid() {
			bad("extracted_invalid_span_context", "Extract put an invalid span context into the context: %s (traceparent %q)", scSummary(got), tp)
		}
		if !got.IsRemote() {
			bad("extracted_not_remote", "the extracted span context is not marked remote (traceparent %q)", tp)
		}
		checkTraceStateValue(got.TraceState(), "the extracted tracestate", bad)
		gotMS := readTraceState(got.TraceState())
		switch {
		case len(gotMS) > 0 && !c.HasTS:
			bad("tracestate_from_nowhere", "no tracestate header, extracted tracestate %q", got.TraceState().String())
		case len(gotMS) > 0 && !refTSOK:
			bad("malformed_tracestate_accepted", "tracestate header %q is not a well-formed list but was extracted as %q", tsh, got.TraceState().String())
		case len(gotMS) > 0 && !sameMembers(gotMS, refMS):
			bad("tracestate_members_changed", "tracestate header %q holds the members %v, extracted %v", tsh, refMS, gotMS)
		}

		// re-inject: the outgoing headers must conform to the grammar
		car := newCarrier(c.Carrier)
		prop.Inject(out, car)
		otp, ots := car.Get("traceparent"), car.Get("tracestate")
		if r, why := strictInjectedTraceparent(otp); why != "" {
			bad("reinjected_traceparent_grammar", "header %q extracted and re-injected as %q: %s", tp, otp, why)
		} else if ref.OK && (r.TID != ref.TID || r.SID != ref.SID || r.Flags&1 != ref.Flags&1) {
			bad("reinjected_traceparent_differs", "header %q extracted and re-injected as %q", tp, otp)
		}
		if ots != "" {
			back, ok := refParseTraceState(ots)
			if !ok {
				bad("reinjected_tracestate_grammar", "tracestate header %q extracted and re-injected as %q, which is not a well-formed list", tsh, ots)
			} else if !sameMembers(back, gotMS) {
				bad("reinjected_tracestate_differs", "re-injected tracestate %q does not hold the extracted members %v", ots, gotMS)
			}
		} else if len(gotMS) > 0 {
			bad("reinjected_tracestate_missing", "extracted tracestate %q is not re-injected", got.TraceState().String())
		}
	}

	// a bad (or any) tracestate never changes what the traceparent yields
	out2 := prop.Extract(base, mk(false))
	got2 := trace.SpanContextFromContext(out2)
	accepted2 := !got2.Equal(before)
	if accepted != accepted2 || got.TraceID() != got2.TraceID() || got.SpanID() != got2.SpanID() ||
		got.TraceFlags() != got2.TraceFlags() || got.IsRemote() != got2.IsRemote() {
		bad("tracestate_affects_traceparent", "traceparent %q: with tracestate %q -> %s (changed %v), without -> %s (changed %v)",
			tp, tsh, scSummary(got), accepted, scSummary(got2), accepted2)
	}

	// the parser on its own
	var parsedOK bool
	if c.HasTS {
		pts, err := trace.ParseTraceState(tsh)
		parsedOK = err == nil
		checkTraceStateValue(pts, "the result of ParseTraceState", bad)
		pms := readTraceState(pts)
		switch {
		case err == nil && !refTSOK:
			bad("parse_accepts_malformed", "ParseTraceState(%q) succeeded (%q) but the input is not a well-formed list", tsh, pts.String())
		case err == nil && !sameMembers(pms, refMS):
			bad("parse_members_changed", "ParseTraceState(%q) = %v, the header holds %v", tsh, pms, refMS)
		}
		if accepted && err == nil && !sameMembers(pms, readTraceState(got.TraceState())) {
			bad("extract_parse_disagree", "tracestate %q: ParseTraceState gives %v, Extract gives %v", tsh, pms, readTraceState(got.TraceState()))
		}
	}

	// the ID parsers of the trace package on the raw fields
	if f := strings.Split(tp, "-"); len(f) >= 3 {
		var tid [16]byte
		var sid [8]byte
		if id, err := trace.TraceIDFromHex(f[1]); err == nil {
			if !decodeLowerHex(tid[:], f[1]) || allZero(tid[:]) || id != trace.TraceID(tid) {
				bad("traceid_from_hex_accepts", "TraceIDFromHex(%q) = %s without error", f[1], id)
			}
		}
		if id, err := trace.SpanIDFromHex(f[2]); err == nil {
			if !decodeLowerHex(sid[:], f[2]) || allZero(sid[:]) || id != trace.SpanID(sid) {
				bad("spanid_from_hex_accepts", "SpanIDFromHex(%q) = %s without error", f[2], id)
			}
		}
	}

	pastLength := len(tp) >= 55 && strings.Count(tp, "-") >= 3
	info.NonTrivial = pastLength || (c.HasTS && countMembers(tsh) >= 2)
	info.ClassIf(pastLength, "traceparent_past_length_check")
	info.ClassIf(accepted, "accepted")
	info.ClassIf(ref.OK && !accepted, "wellformed_traceparent_rejected")
	info.ClassIf(ref.OK && ref.Version != 0, "wellformed_future_version")
	info.ClassIf(!ref.OK && pastLength, "malformed_past_length_check")
	info.ClassIf(!ref.OK && c.HasTP, "malformed:"+ref.Why)
	info.ClassIf(tp != strings.ToLower(tp), "traceparent_has_upper_case")
	info.ClassIf(hasHighByte(tp), "traceparent_has_byte>=0x80")
	info.ClassIf(!c.HasTS, "tracestate_absent")
	info.ClassIf(c.HasTS && !refTSOK, "tracestate_malformed")
	info.ClassIf(c.HasTS && refTSOK && len(refMS) > 0, "tracestate_wellformed_nonempty")
	info.ClassIf(c.HasTS && refTSOK && !parsedOK, "tracestate_wellformed_but_rejected")
	info.ClassIf(len(refMS) == 32, "tracestate_32_members")
	info.ClassIf(c.HasTS && !refTSOK && countMembers(tsh) == 33, "tracestate_33_members")
	info.ClassIf(hasHighByte(tsh), "tracestate_has_byte>=0x80")
	info.ClassIf(accepted && ref.OK && !refTSOK, "good_traceparent_bad_tracestate")
	for _, m := range refMS {
		info.ClassIf(len(m.V) == 256, "value_256_bytes")
		info.ClassIf(len(m.K) == 256, "simple_key_256_bytes")
	}
	uniqueClasses(&info)
	return vs, info
}

// uniqueClasses keeps one occurrence of every label (labels are added inside
// loops over members / operations; the evidence counts cases, not members).
func uniqueClasses(info *vk.Info) {
	seen := map[string]bool{}
	out := info.Classes[:0]
	for _, c := range info.Classes {
		if !seen[c] {
			seen[c] = true
			out = append(out, c)
		}
	}
	info.Classes = out
}

func hasHighByte(s string) bool {
	for i := 0; i < len(s); i++ {
		if s[i] >= 0x80 {
			return true
		}
	}
	return false
}

func countMembers(h string) int {
	n := 0
	for _, m := range strings.Split(h, ",") {
		if trimOWS(m) != "" {
			n++
		}
	}
	return n
}

func TestHeaders(t *testing.T) {
	vk.Run(t, vk.Spec[HCase]{
		Property: "C03", Check: "headers",
		Rule: "traceparent values: grammar-generated (versions 00/01/fe/ff/.., zero / corner / random ids, flags, suffixes) with 0..3 structured edits (case flip of one hex letter, upper-casing, byte delete / insert / replace with ASCII, multi-byte runes and bytes >= 0x80, truncation, decorated ends, damaged dashes), W3C and repository examples, near-miss hex runs, hostile text; " +
			"tracestate values: absent, member lists of 0..40 members (31/32/33, duplicate keys, odd keys and values with multi-byte runes whose low byte is a legal character and raw bytes >= 0x80, 256/257-byte values and keys, 241/242@14/15 tenants, blanks/tabs, empty and broken members), examples, hostile text; " +
			"carrier: map or http.Header, in a quarter of the cases also holding 1..5 decoy entries the carrier's addressing does not reach (verbatim non-canonical spellings in an http.Header, other spellings in a map, unrelated names) with values that would be valid trace headers; propagator: bare or composite with a Baggage neighbour; " +
			"non-trivial = traceparent reaches past the length check (>= 55 bytes and >= 3 dashes) or the tracestate has >= 2 members; distinct = distinct case encodings",
		Quick: 60000, Thorough: 600000,
		Gen: genH, Run: runH,
	})
}
