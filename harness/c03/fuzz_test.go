package c03

import (
	"encoding/json"
	"os"
	"sync"
	"testing"

	"go.opentelemetry.io/otel/trace"
	"go.opentelemetry.io/otel/verif/internal/vk"
)

// The native fuzz targets carry the same semantic oracles as the generated
// checks (runH / the edit model); they run in the thorough tier only.

func failOn(t *testing.T, vs []vk.Violation) {
	t.Helper()
	for _, v := range vs {
		t.Errorf("C03 violation %s: %s", v.Kind, v.Msg)
	}
}

// openKnown lists the matcher names of the open known findings of C03 in
// the file named by VERIF_KNOWN (the same file vk.Run consults), so that the
// fuzz targets suppress exactly what the generated checks suppress.
var openKnown = sync.OnceValue(func() map[string]bool {
	out := map[string]bool{}
	b, err := os.ReadFile(os.Getenv("VERIF_KNOWN"))
	if err != nil {
		return out
	}
	var kf struct {
		Findings []struct {
			Property, Status, Matcher string
		} `json:"findings"`
	}
	if json.Unmarshal(b, &kf) != nil {
		return out
	}
	for _, f := range kf.Findings {
		if f.Property == "C03" && f.Status == "open" {
			out[f.Matcher] = true
		}
	}
	return out
})

// FuzzExtract presents arbitrary bytes as traceparent / tracestate headers.
// mode bit 0: tracestate header present; bit 1: context already carries a
// span; bit 2: http.Header carrier.
func FuzzExtract(f *testing.F) {
	for i, tp := range w3cTraceparents {
		ts := w3cTracestates[i%len(w3cTracestates)]
		f.Add(tp, ts, byte(i))
	}
	for i, ts := range w3cTracestates {
		f.Add(w3cTraceparents[i%4], ts, byte(1+2*(i%4)))
	}
	for _, k := range oddKeyConstants {
		f.Add(w3cTraceparents[0], k+"=1", byte(1))
		f.Add(w3cTraceparents[0], "a=1,"+k+"=v , b=2", byte(1))
	}
	for _, v := range oddValueConstants {
		f.Add(w3cTraceparents[2], "k="+v, byte(1))
	}
	f.Fuzz(func(t *testing.T, tp, ts string, mode byte) {
		c := HCase{HasTP: true, TP: vk.Str(tp), HasTS: mode&1 == 1, Prior: mode&2 == 2, Carrier: "map"}
		if c.HasTS {
			c.TS = vk.Str(ts)
		}
		if mode&4 == 4 {
			c.Carrier = "header"
		}
		vs, _ := runH(c)
		var unknown []vk.Violation
		for _, v := range vs {
			unknown = append(unknown, v)
		}
		failOn(t, unknown)
	})
}

// FuzzParseTraceState parses arbitrary bytes and then edits the result with
// an arbitrary key / value against the reference model.
func FuzzParseTraceState(f *testing.F) {
	for i, ts := range w3cTracestates {
		f.Add(ts, oddKeyConstants[i%len(oddKeyConstants)], oddValueConstants[i%len(oddValueConstants)])
		f.Add(ts, commonKeys[i%len(commonKeys)], "v")
	}
	for _, k := range oddKeyConstants {
		f.Add(k+"=1", k, "1")
	}
	for _, v := range oddValueConstants {
		f.Add("k="+v+",b=2", "k", v)
	}
	f.Fuzz(func(t *testing.T, s, k, v string) {
		var vs []vk.Violation
		bad := func(kind, format string, a ...any) { vs = append(vs, vk.V(kind, format, a...)) }
		defer func() { failOn(t, vs) }()

		refMS, refOK := refParseTraceState(s)
		ts, err := trace.ParseTraceState(s)
		checkTraceStateValue(ts, "the result of ParseTraceState", bad)
		got := readTraceState(ts)
		switch {
		case err == nil && !refOK:
			bad("parse_accepts_malformed", "ParseTraceState(%q) succeeded (%q) but the input is not a well-formed list", s, ts.String())
		case err == nil && !sameMembers(got, refMS):
			bad("parse_members_changed", "ParseTraceState(%q) = %v, the header holds %v", s, got, refMS)
		}
		if err != nil || len(vs) > 0 {
			return
		}
		// edit the accepted state: insert, update, delete against the model
		ops := []Op{
			{Kind: "insert", K: vk.Str(k), V: vk.Str(v)},
			{Kind: "reparse"},
			{Kind: "insert", K: vk.Str(k), V: "second"},
			{Kind: "walk", N: 2},
			{Kind: "fork", N: 1},
			{Kind: "delete", K: vk.Str(k)},
			{Kind: "get", K: vk.Str(k)},
			{Kind: "insert", K: "zz/fuzz", V: vk.Str(v)},
		}
		evs, _ := runSM(SMCase{Init: refMS, InitVia: "parse", Ops: ops})
		vs = append(vs, evs...)
	})
}
