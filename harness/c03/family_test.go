package c03

import (
	"context"
	"fmt"
	"maps"
	"net/http"
	"runtime"
	"strings"
	"sync"
	"sync/atomic"
	"testing"

	"go.opentelemetry.io/otel/propagation"
	"go.opentelemetry.io/otel/trace"
	"go.opentelemetry.io/otel/verif/internal/vk"
	"pgregory.net/rapid"
)

// Two further dimensions of the round-trip clause ("injecting any valid span
// context into a carrier and extracting it again yields ... the same trace ID,
// span ID, sampled flag and tracestate"):
//
// carrier_family: a carrier is rarely alone. A request's header is derived
// from another one (a new map, http.Header.Clone, a shallow copy made by
// maps.Clone or by ranging over the map, which shares the []string field
// lines, or the very same map adapted twice). The case is a small program
// over such a family: derive, inject span context j into carrier i, in any
// order. The oracle is a per-carrier reference of what the carrier was last
// given (a copy starts with what its source held; an alias shares the slot):
// after every step every carrier must still extract exactly that. The
// statement has no "immediately" and no "as long as no other carrier was
// injected into": writing to carrier Y is not an event for carrier X.
//
// concurrent_twins: 2..8 goroutines each run the ordinary sequential round
// trip on their OWN span contexts, carriers and contexts, released together
// by a spin barrier and repeated a few hundred times. The statement does not
// quantify over schedules, but it does not restrict itself to a process in
// which nothing else runs either; the oracle stays the sequential one per
// goroutine, so only cross-talk through state the library shares between
// unrelated calls can show. What is shared on purpose is what the API documents as
// shareable: the propagator value (the global one is shared by every request
// of a process) and, optionally, an immutable TraceState the twins derive
// their own from by Insert.

// SC is a valid span context as case data.
type SC struct {
	TraceID string   `json:"trace_id"`
	SpanID  string   `json:"span_id"`
	Flags   int      `json:"flags"`
	Members []Member `json:"members,omitempty"`
}

func genSC(corners ...int) *rapid.Generator[SC] {
	tid, sid, ms := genNonZeroID(16), genNonZeroID(8), genValidMembers(corners...)
	return rapid.Custom(func(t *rapid.T) SC {
		return SC{
			TraceID: tid.Draw(t, "tid"), SpanID: sid.Draw(t, "sid"),
			Flags:   rapid.SampledFrom([]int{0, 1, 1, 0, 3, 0xfe, 0xff, 2}).Draw(t, "flags"),
			Members: ms.Draw(t, "members"),
		}
	})
}

func (s SC) ids() (tid [16]byte, sid [8]byte) {
	if !decodeLowerHex(tid[:], s.TraceID) || !decodeLowerHex(sid[:], s.SpanID) || allZero(tid[:]) || allZero(sid[:]) {
		panic("harness bug: the case does not hold valid ids")
	}
	return
}

func (s SC) build() (trace.SpanContext, error) {
	tid, sid := s.ids()
	ts, err := trace.ParseTraceState(joinMembers(s.Members))
	if err != nil {
		return trace.SpanContext{}, err
	}
	return trace.NewSpanContext(trace.SpanContextConfig{TraceID: tid, SpanID: sid, TraceFlags: trace.TraceFlags(s.Flags), TraceState: ts}), nil
}

func (s SC) String() string {
	return fmt.Sprintf("%s-%s-%02x [%s]", s.TraceID, s.SpanID, s.Flags, joinMembers(s.Members))
}

// ---------------------------------------------------------------------
// carrier_family

// FamStep is one step of a family program.
type FamStep struct {
	// derive: a new carrier (index = number of carriers so far) from carrier
	// From by How; inject: span context SC into carrier At.
	Kind string `json:"kind"`
	From int    `json:"from,omitempty"`
	// fresh | deep (http.Header.Clone / maps.Clone of a string map) |
	// shallow (maps.Clone of the http.Header: field-line slices shared) |
	// shallow_loop (range and assign) | reslice (every field line slice
	// re-sliced to [:len:len], same array) | alias (the same map again).
	How string `json:"how,omitempty"`
	At  int    `json:"at,omitempty"`
	SC  int    `json:"sc,omitempty"`
}

type FamCase struct {
	Carrier string     `json:"carrier"` // map | header
	Prop    string     `json:"prop,omitempty"`
	Pre     []PreEntry `json:"pre,omitempty"` // pre-state of carrier 0
	SCs     []SC       `json:"scs"`
	Steps   []FamStep  `json:"steps"`
}

var deriveHows = []string{"fresh", "deep", "shallow", "shallow", "shallow_loop", "reslice", "alias"}

func genFam(t *rapid.T) FamCase {
	c := FamCase{}
	c.Carrier = rapid.SampledFrom([]string{"header", "header", "map"}).Draw(t, "carrier")
	c.Prop = rapid.SampledFrom(propForms).Draw(t, "propagator_form")
	c.Pre = genPre().Draw(t, "carrier_pre_state")
	c.SCs = rapid.SliceOfN(genSC(0, 1, 1, 2, 3, 32), 2, 4).Draw(t, "span_contexts")
	n := rapid.IntRange(3, 9).Draw(t, "steps")
	carriers := 1
	for i := 0; i < n; i++ {
		if carriers < 5 && rapid.IntRange(0, 2).Draw(t, "derive") == 0 {
			c.Steps = append(c.Steps, FamStep{Kind: "derive", From: rapid.IntRange(0, carriers-1).Draw(t, "from"),
				How: rapid.SampledFrom(deriveHows).Draw(t, "how")})
			carriers++
			continue
		}
		c.Steps = append(c.Steps, FamStep{Kind: "inject", At: rapid.IntRange(0, carriers-1).Draw(t, "at"),
			SC: rapid.IntRange(0, len(c.SCs)-1).Draw(t, "sc")})
	}
	return c
}

// derive makes the storage of a new carrier out of s.
func (s *store) derive(how string) *store {
	n := &store{kind: s.kind}
	switch {
	case how == "alias":
		n.h, n.m = s.h, s.m
	case how == "fresh":
		return newStore(s.kind)
	case s.kind == "map":
		n.m = maps.Clone(s.m) // string values: every copy of a map is a deep one
	case how == "deep":
		n.h = s.h.Clone()
	case how == "shallow":
		n.h = maps.Clone(s.h)
	case how == "shallow_loop":
		n.h = make(http.Header, len(s.h))
		for k, v := range s.h {
			n.h[k] = v
		}
	default: // reslice
		n.h = make(http.Header, len(s.h))
		for k, v := range s.h {
			n.h[k] = v[:len(v):len(v)]
		}
	}
	return n
}

// famSlot is what a carrier must extract to. alias carriers share a slot.
type famSlot struct {
	known   bool // something was injected (by the check) and not replaced since
	sc      int
	tsKnown bool // the tracestate header is the one of sc (see the stale tracestate reading)
}

func runFam(c FamCase) ([]vk.Violation, vk.Info) {
	var vs []vk.Violation
	var info vk.Info
	bad := func(kind, format string, a ...any) { vs = append(vs, vk.V(kind, format, a...)) }
	prop := newProp(c.Prop)

	scs := make([]trace.SpanContext, len(c.SCs))
	for i, s := range c.SCs {
		sc, err := s.build()
		if err != nil {
			bad("valid_tracestate_rejected", "ParseTraceState(%q): %v", joinMembers(s.Members), err)
			return vs, info
		}
		scs[i] = sc
	}

	root := newStore(c.Carrier)
	for _, e := range c.Pre {
		root.apply(e)
	}
	root.classify(c.Pre, &info)
	stores := []*store{root}
	slots := []*famSlot{{}}
	// a stale tracestate of the pre-state that the carrier reaches is not judged
	history := []string{}

	check := func(after string) {
		for i, st := range stores {
			sl := slots[i]
			if !sl.known {
				continue
			}
			want := c.SCs[sl.sc]
			tid, sid := want.ids()
			out := prop.Extract(baseContext(false), st.carrier())
			got := trace.SpanContextFromContext(out)
			where := fmt.Sprintf("carrier %d (%s) after %s; it was last given %s; it holds traceparent %q tracestate %q; program: %s%s",
				i, c.Carrier, after, want, st.field("traceparent"), st.field("tracestate"), strings.Join(history, "; "), describePre(c.Pre))
			switch {
			case !got.IsValid():
				bad("family_roundtrip_not_extracted", "nothing valid extracted from %s", where)
				continue
			case got.TraceID() != trace.TraceID(tid) || got.SpanID() != trace.SpanID(sid):
				bad("family_roundtrip_ids", "extracted %s from %s", scSummary(got), where)
			case got.IsSampled() != (want.Flags&1 == 1):
				bad("family_roundtrip_sampled", "extracted flags %s from %s", got.TraceFlags(), where)
			case !got.IsRemote():
				bad("family_roundtrip_not_remote", "extracted a span context not marked remote from %s", where)
			}
			if sl.tsKnown && got.TraceState().String() != joinMembers(want.Members) {
				bad("family_roundtrip_tracestate", "extracted tracestate %q from %s", got.TraceState().String(), where)
			}
		}
	}

	sharing := false
	for _, s := range c.Steps {
		if len(vs) > 0 {
			break
		}
		switch s.Kind {
		case "derive":
			if s.From < 0 || s.From >= len(stores) {
				continue
			}
			src := stores[s.From]
			stores = append(stores, src.derive(s.How))
			switch s.How {
			case "alias":
				slots = append(slots, slots[s.From])
			case "fresh":
				slots = append(slots, &famSlot{})
			default:
				cp := *slots[s.From]
				slots = append(slots, &cp)
			}
			shares := c.Carrier == "header" && (s.How == "shallow" || s.How == "shallow_loop" || s.How == "reslice")
			info.ClassIf(shares, "derived_carrier_shares_field_line_slices")
			info.ClassIf(shares && slots[s.From].known, "derived_carrier_shares_injected_trace_headers")
			info.ClassIf(s.How == "deep", "derived_carrier_deep_copy")
			info.ClassIf(s.How == "alias", "derived_carrier_same_map")
			sharing = sharing || (shares && slots[s.From].known)
			history = append(history, fmt.Sprintf("carrier %d = %s of carrier %d", len(stores)-1, s.How, s.From))
			check(history[len(history)-1])
		case "inject":
			if s.At < 0 || s.At >= len(stores) || s.SC < 0 || s.SC >= len(scs) {
				continue
			}
			st, sl := stores[s.At], slots[s.At]
			// (reading of the package comment: Inject writes no tracestate header
			// for a span context without one; a reachable older one stays and the
			// tracestate clause is not judged then)
			stale := len(c.SCs[s.SC].Members) == 0 && st.field("tracestate") != ""
			prop.Inject(trace.ContextWithSpanContext(withBaggage(context.Background()), scs[s.SC]), st.carrier())
			info.ClassIf(sl.known, "inject_over_earlier_injection")
			info.ClassIf(sharing, "inject_while_another_carrier_shares_field_lines")
			info.ClassIf(stale, "stale_tracestate_reachable_and_none_injected(tracestate_not_judged)")
			sl.known, sl.sc, sl.tsKnown = true, s.SC, !stale
			history = append(history, fmt.Sprintf("inject sc%d into carrier %d", s.SC, s.At))
			check(history[len(history)-1])
		}
	}
	info.ClassIf(len(stores) >= 3, "family_of_3_or_more_carriers")
	info.ClassIf(c.Carrier == "header", "http_header_carrier")
	info.ClassIf(c.Prop != "" && c.Prop != "direct", "composite_propagator")
	info.NonTrivial = len(stores) >= 2
	uniqueClasses(&info)
	return vs, info
}

func TestCarrierFamily(t *testing.T) {
	vk.Run(t, vk.Spec[FamCase]{
		Property: "C03", Check: "carrier_family",
		Rule: "programs of 3..9 steps over a family of 1..5 carriers of one kind (http.Header or map): derive a carrier from an earlier one (fresh, deep Clone, shallow maps.Clone / range-and-assign sharing the field-line slices, re-sliced field lines, the same map adapted again) or inject one of 2..4 valid span contexts " +
			"(0..32 tracestate members) into a carrier, with a bare or composite propagator, carrier 0 new or pre-filled as in roundtrip; after every step every carrier must extract what it was last given (a copy starts with what its source held); non-trivial = at least one derived carrier; distinct = distinct case encodings",
		Quick: 6000, Thorough: 80000,
		Gen: genFam, Run: runFam,
	})
}

// ---------------------------------------------------------------------
// concurrent_twins

type Twin struct {
	SCs     []SC   `json:"scs"`
	Carrier string `json:"carrier"` // map | header
	// the carrier is reused for every round trip of the twin (a client that
	// keeps one header) or made anew each time
	Reuse bool `json:"reuse,omitempty"`
	// OwnKey / OwnVal: when the case has a shared base TraceState the twin
	// inserts this member into it before injecting.
	OwnKey string `json:"own_key,omitempty"`
	OwnVal string `json:"own_val,omitempty"`
}

type TwinCase struct {
	Prop       string   `json:"prop,omitempty"`
	SharedProp bool     `json:"shared_prop"` // one propagator value for all twins, or one each
	Base       []Member `json:"base,omitempty"`
	UseBase    bool     `json:"use_base,omitempty"` // the twins' tracestate = Insert(own member) into one shared TraceState
	Rounds     int      `json:"rounds"`
	Twins      []Twin   `json:"twins"`
}

func genTwins(t *rapid.T) TwinCase {
	c := TwinCase{}
	c.Prop = rapid.SampledFrom(propForms).Draw(t, "propagator_form")
	c.SharedProp = rapid.IntRange(0, 3).Draw(t, "shared_prop") != 0
	c.UseBase = rapid.IntRange(0, 2).Draw(t, "use_base") == 0
	if c.UseBase {
		c.Base = genValidMembers(1, 2, 3, 31, 32).Draw(t, "base")
	}
	c.Rounds = rapid.SampledFrom([]int{100, 200, 300, 500}).Draw(t, "rounds")
	n := rapid.IntRange(2, 8).Draw(t, "twins")
	sc, key, val := genSC(0, 0, 1, 2), genValidKey(), genValidValue()
	for i := 0; i < n; i++ {
		tw := Twin{SCs: rapid.SliceOfN(sc, 1, 3).Draw(t, "scs")}
		tw.Carrier = rapid.SampledFrom([]string{"map", "header"}).Draw(t, "carrier")
		tw.Reuse = rapid.Bool().Draw(t, "reuse")
		if c.UseBase {
			tw.OwnKey, tw.OwnVal = key.Draw(t, "own_key"), val.Draw(t, "own_val")
		}
		c.Twins = append(c.Twins, tw)
	}
	return c
}

// twinWork is one prepared round trip of a twin.
type twinWork struct {
	sc      trace.SpanContext
	ctx     context.Context
	tid     trace.TraceID
	sid     trace.SpanID
	sampled bool
	wantTP  string
	wantTS  string
	desc    string
}

func runTwins(c TwinCase) ([]vk.Violation, vk.Info) {
	var vs []vk.Violation
	var info vk.Info
	if len(c.Twins) == 0 || c.Rounds <= 0 {
		return vs, info
	}
	var base trace.TraceState
	if c.UseBase {
		var err error
		if base, err = trace.ParseTraceState(joinMembers(c.Base)); err != nil {
			return []vk.Violation{vk.V("valid_tracestate_rejected", "ParseTraceState(%q): %v", joinMembers(c.Base), err)}, info
		}
	}
	shared := newProp(c.Prop)

	type result struct{ kind, msg string }
	results := make([]result, len(c.Twins))
	var ready atomic.Int32
	var wg sync.WaitGroup
	n := int32(len(c.Twins))
	for g := range c.Twins {
		wg.Add(1)
		go func(g int) {
			defer wg.Done()
			defer func() {
				if r := recover(); r != nil {
					results[g] = result{"panic", fmt.Sprintf("twin %d: panic: %v", g, r)}
					ready.Add(n) // never leave the others spinning
				}
			}()
			tw := c.Twins[g]
			prop := shared
			if !c.SharedProp {
				prop = newProp(c.Prop)
			}
			fail := func(kind, format string, a ...any) {
				if results[g].kind == "" {
					results[g] = result{kind, fmt.Sprintf("twin %d of %d (each on its own carrier and span contexts, %d rounds): ", g, len(c.Twins), c.Rounds) + fmt.Sprintf(format, a...)}
				}
			}
			// prepared before the barrier: the barrier releases the round trips only
			var work []twinWork
			for _, s := range tw.SCs {
				tid, sid := s.ids()
				sc, err := s.build()
				if err != nil {
					fail("valid_tracestate_rejected", "ParseTraceState(%q): %v", joinMembers(s.Members), err)
					continue
				}
				w := twinWork{tid: tid, sid: sid, sampled: s.Flags&1 == 1, wantTS: joinMembers(s.Members), desc: s.String()}
				w.wantTP = refFormatTraceparent(tid, sid, w.sampled)
				if c.UseBase {
					m, ok, _, _ := model(c.Base).clone().insert(tw.OwnKey, tw.OwnVal)
					ts, err := base.Insert(tw.OwnKey, tw.OwnVal)
					if err != nil || !ok {
						fail("valid_member_rejected", "Insert(%q, %q) into %q: %v", tw.OwnKey, tw.OwnVal, joinMembers(c.Base), err)
						continue
					}
					sc = sc.WithTraceState(ts)
					w.wantTS = joinMembers(m)
					w.desc = fmt.Sprintf("%s-%s-%02x [%s]", s.TraceID, s.SpanID, s.Flags, w.wantTS)
				}
				w.sc = sc
				w.ctx = trace.ContextWithSpanContext(context.Background(), sc)
				work = append(work, w)
			}
			var kept propagation.TextMapCarrier
			if tw.Reuse {
				kept = newCarrier(tw.Carrier)
			}
			ready.Add(1)
			for spins := 0; ready.Load() < n; spins++ {
				if spins%64 == 63 {
					runtime.Gosched()
				}
			}
			for r := 0; r < c.Rounds && results[g].kind == ""; r++ {
				for _, w := range work {
					carrier := kept
					if carrier == nil {
						carrier = newCarrier(tw.Carrier)
					}
					prop.Inject(w.ctx, carrier)
					gotTP, gotTS := carrier.Get("traceparent"), carrier.Get("tracestate")
					got := trace.SpanContextFromContext(prop.Extract(context.Background(), carrier))
					// a reused carrier keeps an older tracestate when none is injected (not judged)
					judgeTS := !(tw.Reuse && w.wantTS == "")
					switch {
					case got.TraceID() != w.tid || got.SpanID() != w.sid || got.IsSampled() != w.sampled || !got.IsRemote():
						fail("twins_roundtrip", "round %d: injected %s, the carrier then held traceparent %q (a version-00 sender writes %q), extracted %s flags %s remote %v",
							r, w.desc, gotTP, w.wantTP, scSummary(got), got.TraceFlags(), got.IsRemote())
					case gotTP != w.wantTP:
						fail("twins_injected_traceparent", "round %d: injected %s, the carrier then held traceparent %q, a version-00 sender writes %q", r, w.desc, gotTP, w.wantTP)
					case judgeTS && (got.TraceState().String() != w.wantTS || gotTS != w.wantTS):
						fail("twins_roundtrip_tracestate", "round %d: injected %s, the carrier then held tracestate %q, extracted tracestate %q", r, w.desc, gotTS, got.TraceState().String())
					}
				}
			}
		}(g)
	}
	wg.Wait()
	for _, r := range results {
		if r.kind != "" {
			vs = append(vs, vk.Violation{Kind: r.kind, Msg: r.msg})
		}
	}
	if c.UseBase && base.String() != joinMembers(c.Base) {
		vs = append(vs, vk.V("twins_shared_tracestate_changed", "the TraceState %q the twins inserted their own members into now reads %q", joinMembers(c.Base), base.String()))
	}
	info.NonTrivial = len(c.Twins) >= 2
	info.ClassIf(len(c.Twins) >= 4, "4_or_more_twins")
	info.ClassIf(c.SharedProp, "twins_share_the_propagator_value")
	info.ClassIf(!c.SharedProp, "one_propagator_value_per_twin")
	info.ClassIf(c.UseBase, "twins_insert_into_one_shared_tracestate")
	info.ClassIf(c.UseBase && len(c.Base) == 32, "shared_tracestate_full(insert_evicts)")
	info.ClassIf(c.Prop != "" && c.Prop != "direct", "composite_propagator")
	for _, tw := range c.Twins {
		info.ClassIf(tw.Reuse, "twin_reuses_its_carrier")
		info.ClassIf(tw.Carrier == "header", "http_header_carrier")
	}
	uniqueClasses(&info)
	return vs, info
}

func TestConcurrentTwins(t *testing.T) {
	vk.Run(t, vk.Spec[TwinCase]{
		Property: "C03", Check: "concurrent_twins",
		Rule: "2..8 goroutines, each with 1..3 valid span contexts of its own (0..2 tracestate members, or its own member inserted into one TraceState shared by all twins, 1..32 members), its own map / http.Header carrier (new per round trip or reused) and the shared or its own propagator value (bare or composite), " +
			"released together by a spin barrier, each running 100..500 rounds of inject / read the carrier / extract; the oracle is the sequential round trip per goroutine; non-trivial = at least two twins; distinct = distinct case encodings",
		Quick: 400, Thorough: 6000,
		Gen: genTwins, Run: runTwins,
		Repeat: 20,
	})
}
