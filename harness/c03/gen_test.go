package c03

import (
	"encoding/json"
	"strconv"
	"strings"

	"go.opentelemetry.io/otel/verif/internal/vk"
	"pgregory.net/rapid"
)

// JSON form of a member: byte strings survive (vk.Str).
type memberJSON struct {
	K vk.Str `json:"k"`
	V vk.Str `json:"v"`
}

func (m Member) MarshalJSON() ([]byte, error) {
	return json.Marshal(memberJSON{vk.Str(m.K), vk.Str(m.V)})
}

func (m *Member) UnmarshalJSON(b []byte) error {
	var j memberJSON
	if err := json.Unmarshal(b, &j); err != nil {
		return err
	}
	m.K, m.V = string(j.K), string(j.V)
	return nil
}

// ---------------------------------------------------------------------
// keys

const (
	lcAlphabet   = "abckvxz"
	tailAlphabet = "abcxyz0189_-*/"
)

func genFrom(alphabet string, min, max int) *rapid.Generator[string] {
	bs := []byte(alphabet)
	return rapid.Custom(func(t *rapid.T) string {
		n := rapid.IntRange(min, max).Draw(t, "n")
		out := make([]byte, n)
		for i := range out {
			out[i] = rapid.SampledFrom(bs).Draw(t, "c")
		}
		return string(out)
	})
}

// padded builds a string of exactly n bytes: head, filler, a short drawn tail.
func padded(t *rapid.T, head string, n int, alphabet string) string {
	if n <= len(head) {
		return head[:n]
	}
	tailN := 3
	if n-len(head) < tailN {
		tailN = n - len(head)
	}
	tail := genFrom(alphabet, tailN, tailN).Draw(t, "tail")
	fill := rapid.SampledFrom([]byte(alphabet)).Draw(t, "fill")
	return head + strings.Repeat(string(fill), n-len(head)-tailN) + tail
}

var commonKeys = []string{"a", "b", "c", "d", "k1", "vendor", "rojo", "congo", "fw529a3039@dt", "0@a", "t-1/x*_@sys"}

// genValidKey draws a key that is valid by the ABNF (by construction).
func genValidKey() *rapid.Generator[string] {
	return rapid.Custom(func(t *rapid.T) string {
		switch rapid.IntRange(0, 15).Draw(t, "keykind") {
		case 0, 1, 2, 3, 4, 5:
			return genFrom(lcAlphabet, 1, 1).Draw(t, "k0") + genFrom(tailAlphabet, 0, 5).Draw(t, "krest")
		case 6, 7, 8, 9:
			return rapid.SampledFrom(commonKeys).Draw(t, "common")
		case 10:
			n := rapid.SampledFrom([]int{255, 256, 256, 200}).Draw(t, "simplelen")
			return padded(t, genFrom(lcAlphabet, 1, 1).Draw(t, "k0"), n, tailAlphabet)
		case 11, 12, 13:
			return genFrom(lcAlphabet+"019", 1, 1).Draw(t, "t0") + genFrom(tailAlphabet, 0, 4).Draw(t, "trest") +
				"@" + genFrom(lcAlphabet, 1, 1).Draw(t, "s0") + genFrom(tailAlphabet, 0, 3).Draw(t, "srest")
		case 14:
			tn := rapid.SampledFrom([]int{241, 241, 240, 1}).Draw(t, "tenantlen")
			sn := rapid.SampledFrom([]int{14, 14, 13, 1}).Draw(t, "systemlen")
			return padded(t, genFrom(lcAlphabet+"019", 1, 1).Draw(t, "t0"), tn, tailAlphabet) + "@" +
				padded(t, genFrom(lcAlphabet, 1, 1).Draw(t, "s0"), sn, tailAlphabet)
		default:
			return genFrom(lcAlphabet, 1, 1).Draw(t, "k0")
		}
	})
}

// Pieces spliced into otherwise legal keys / values / hex fields. The first
// group are runes whose LOW BYTE is a legal key character (the class of the
// repaired defect 3c7cff9: validation of byte(rune)); then raw bytes >= 0x80
// (invalid UTF-8), then ASCII that matters to the grammars.
var lowByteLegalRunes = []string{
	"\u0161" /* low byte 'a' */, "\u017a" /* 'z' */, "\u0130" /* '0' */, "\u0139", /* '9' */
	"\u015f" /* '_' */, "\u012d" /* '-' */, "\u012a" /* '*' */, "\u012f", /* '/' */
	"\u4e61" /* 'a', 3 bytes */, "\U0001f661" /* 'a', 4 bytes */, "\u0262" /* 'b' */, "\uff61", /* 'a' */
}

var highBytes = []string{"\x80", "\xbf", "\xc5", "\xe1", "\xe2\x82", "\xff", "\xfe", "\xc0\xaf", "\xed\xa0\x80", "\xc5a", "\xe1\x61"}

var asciiOdd = []string{" ", "\t", "=", ",", "@", ".", "A", "Z", "G", ":", ";", "+", "%", "\x7f", "\x00", "\x1f", "\n", "\r", "\"", "\\", "~", "!"}

// other multi-byte runes, among them runes whose low byte is '=' ',' or ' '.
var otherRunes = []string{"\u00e9", "\u4e16", "\u20ac", "\ufffd", "\ufeff", "\U0001f600", "\u0100", "\u013d" /* '=' */, "\u012c" /* ',' */, "\u0120" /* ' ' */}

func genPiece() *rapid.Generator[string] {
	return rapid.Custom(func(t *rapid.T) string {
		switch rapid.IntRange(0, 9).Draw(t, "piecekind") {
		case 0, 1, 2:
			return rapid.SampledFrom(lowByteLegalRunes).Draw(t, "lowbyte")
		case 3, 4:
			return rapid.SampledFrom(highBytes).Draw(t, "high")
		case 5, 6, 7:
			return rapid.SampledFrom(asciiOdd).Draw(t, "ascii")
		case 8:
			return rapid.SampledFrom(otherRunes).Draw(t, "rune")
		default:
			return string(rapid.SampledFrom(vk.HostileRunes).Draw(t, "hostile"))
		}
	})
}

// splice inserts piece at a byte offset of s, optionally replacing one byte.
func splice(t *rapid.T, s, piece string) string {
	pos := rapid.IntRange(0, len(s)).Draw(t, "pos")
	if pos < len(s) && rapid.Bool().Draw(t, "replace") {
		return s[:pos] + piece + s[pos+1:]
	}
	return s[:pos] + piece + s[pos:]
}

var oddKeyConstants = []string{
	"", "A", "Ab", "1", "1a", "_a", "-", "*", "/", "a@", "@a", "@", "a@1", "a@@b", "a@b@c", "1@a", "a@A", "a b", " a", "a ", "a\t",
	"aš", "š", "aš@b", "a@bš", "0İ@a", "k\xe1", "k\x80", "k\xffz", "a\x00", "traceparent", "a=b", "a,b",
}

// genOddKey draws a key that is usually (not always) invalid; validity is
// always decided by refKeyOK, never assumed.
func genOddKey() *rapid.Generator[string] {
	valid := genValidKey()
	piece := genPiece()
	return rapid.Custom(func(t *rapid.T) string {
		switch rapid.IntRange(0, 11).Draw(t, "oddkey") {
		case 0, 1, 2, 3, 4:
			return splice(t, valid.Draw(t, "base"), piece.Draw(t, "piece"))
		case 5, 6:
			return splice(t, valid.Draw(t, "base"), rapid.SampledFrom(lowByteLegalRunes).Draw(t, "lowbyte"))
		case 7, 8:
			return rapid.SampledFrom(oddKeyConstants).Draw(t, "const")
		case 9: // one byte too long
			switch rapid.IntRange(0, 3).Draw(t, "long") {
			case 0:
				return padded(t, "k", 257, tailAlphabet)
			case 1:
				return padded(t, "t", 242, tailAlphabet) + "@s"
			case 2:
				return "t@" + padded(t, "s", 15, tailAlphabet)
			default:
				return padded(t, "1", 241, tailAlphabet) + "@" + padded(t, "s", 15, tailAlphabet)
			}
		case 10: // legal characters, illegal first character
			return genFrom("019_-*/AZ", 1, 1).Draw(t, "first") + genFrom(tailAlphabet, 0, 4).Draw(t, "rest")
		default:
			return string(vk.GenText(6, true).Draw(t, "text"))
		}
	})
}

// ---------------------------------------------------------------------
// values

const (
	valAlphabet     = "az09AZ !~:/+-_.;<>?{}\"'%@#"
	valLastAlphabet = "az09AZ!~:/+-_.;<>?{}\"'%@#"
)

func genValidValue() *rapid.Generator[string] {
	return rapid.Custom(func(t *rapid.T) string {
		switch rapid.IntRange(0, 11).Draw(t, "valkind") {
		case 0, 1, 2, 3, 4, 5, 6:
			return genFrom(valAlphabet, 0, 5).Draw(t, "vbody") + genFrom(valLastAlphabet, 1, 1).Draw(t, "vlast")
		case 7:
			return rapid.SampledFrom([]string{"1", "00f067aa0ba902b7", "t61rcWkgMzE", "opaqueValue1", " x", "a b", "\x21", "\x7e", "  ~"}).Draw(t, "vconst")
		case 8, 9:
			n := rapid.SampledFrom([]int{256, 256, 255, 100}).Draw(t, "vlen")
			return padded(t, "", n-1, valAlphabet) + genFrom(valLastAlphabet, 1, 1).Draw(t, "vlast")
		default:
			return genFrom(valLastAlphabet, 1, 1).Draw(t, "vlast")
		}
	})
}

var oddValueConstants = []string{
	"", " ", "  ", "v ", "v\t", "\tv", "v\tw", "a,b", "a=b", "=", ",", "\x7f", "\x1f", "\x00", "v\x00", "é", "vš", "Ġ", "\x80", "v\xff", "\xe1v", "😀", "a\nb",
}

func genOddValue() *rapid.Generator[string] {
	valid := genValidValue()
	piece := genPiece()
	return rapid.Custom(func(t *rapid.T) string {
		switch rapid.IntRange(0, 9).Draw(t, "oddval") {
		case 0, 1, 2, 3:
			return splice(t, valid.Draw(t, "base"), piece.Draw(t, "piece"))
		case 4, 5:
			return rapid.SampledFrom(oddValueConstants).Draw(t, "const")
		case 6: // one byte too long
			return padded(t, "", 256, valAlphabet) + genFrom(valLastAlphabet, 1, 1).Draw(t, "vlast")
		case 7: // legal body, trailing blank(s)
			return valid.Draw(t, "base") + rapid.SampledFrom([]string{" ", "  ", "\t", " \t"}).Draw(t, "trail")
		case 8: // exactly 256 legal bytes followed by a blank: the blank is optional white space in a header
			return padded(t, "", 255, valAlphabet) + genFrom(valLastAlphabet, 1, 1).Draw(t, "vlast") + " "
		default:
			return string(vk.GenText(6, true).Draw(t, "text"))
		}
	})
}

// genValidMembers draws up to 32 valid members with unique keys.
func genValidMembers(corners ...int) *rapid.Generator[[]Member] {
	key, val := genValidKey(), genValidValue()
	return rapid.Custom(func(t *rapid.T) []Member {
		n := vk.GenLen(32, corners...).Draw(t, "members")
		seen := map[string]bool{}
		var out []Member
		for i := 0; i < n; i++ {
			k := key.Draw(t, "k")
			if seen[k] {
				k2 := k + strconv.Itoa(i)
				if !refKeyOK(k2) || seen[k2] {
					k2 = "u" + strconv.Itoa(i)
				}
				k = k2
			}
			if seen[k] {
				continue
			}
			seen[k] = true
			out = append(out, Member{k, val.Draw(t, "v")})
		}
		return out
	})
}

// ---------------------------------------------------------------------
// traceparent header strings

var w3cTraceparents = []string{
	"00-4bf92f3577b34da6a3ce929d0e0e4736-00f067aa0ba902b7-01",
	"00-4bf92f3577b34da6a3ce929d0e0e4736-00f067aa0ba902b7-00",
	"00-0af7651916cd43dd8448eb211c80319c-b7ad6b7169203331-01",
	"00-0af7651916cd43dd8448eb211c80319c-b9c7c989f97918e1-01",
	"00-00000000000000000000000000000000-00f067aa0ba902b7-01",
	"00-4bf92f3577b34da6a3ce929d0e0e4736-0000000000000000-01",
	"00-4BF92F3577B34DA6A3CE929D0E0E4736-00f067aa0ba902b7-01",
	"00-4bf92f3577b34da6a3ce929d0e0e4736-00F067AA0BA902B7-01",
	"00-4bf92f3577b34da6a3ce929d0e0e4736-00f067aa0ba902b7-0A",
	"0A-4bf92f3577b34da6a3ce929d0e0e4736-00f067aa0ba902b7-01",
	"ff-4bf92f3577b34da6a3ce929d0e0e4736-00f067aa0ba902b7-01",
	"FF-4bf92f3577b34da6a3ce929d0e0e4736-00f067aa0ba902b7-01",
	"fe-4bf92f3577b34da6a3ce929d0e0e4736-00f067aa0ba902b7-01",
	"01-4bf92f3577b34da6a3ce929d0e0e4736-00f067aa0ba902b7-09-what-the-future-will-be-like",
	"01-4bf92f3577b34da6a3ce929d0e0e4736-00f067aa0ba902b7-09.what",
	"01-4bf92f3577b34da6a3ce929d0e0e4736-00f067aa0ba902b7-09-",
	"00-4bf92f3577b34da6a3ce929d0e0e4736-00f067aa0ba902b7-01-",
	"00-4bf92f3577b34da6a3ce929d0e0e4736-00f067aa0ba902b7-01-extra",
	"00-4bf92f3577b34da6a3ce929d0e0e4736-00f067aa0ba902b7-02",
	"00-4bf92f3577b34da6a3ce929d0e0e4736-00f067aa0ba902b7-03",
	"00-4bf92f3577b34da6a3ce929d0e0e4736-00f067aa0ba902b7-ff",
	"00-4bf92f3577b34da6a3ce929d0e0e4736-00f067aa0ba902b7",
	"00-4bf92f3577b34da6a3ce929d0e0e4736-00f067aa0ba902b7-",
	"00-4bf92f3577b34da6a3ce929d0e0e4736-00f067aa0ba902b7-1",
	"00-4bf92f3577b34da6a3ce929d0e0e473-00f067aa0ba902b7-01",
	"00-4bf92f3577b34da6a3ce929d0e0e47366-00f067aa0ba902b7-01",
	"0-4bf92f3577b34da6a3ce929d0e0e4736-00f067aa0ba902b7-01",
	"00_4bf92f3577b34da6a3ce929d0e0e4736_00f067aa0ba902b7_01",
	" 00-4bf92f3577b34da6a3ce929d0e0e4736-00f067aa0ba902b7-01",
	"00-4bf92f3577b34da6a3ce929d0e0e4736-00f067aa0ba902b7-01 ",
	"00-4bf92f3577b34da6a3ce929d0e0e4736-00f067aa0ba902b7-01\n",
	"00-4bf92f3577b34da6a3ce929d0e0e4736-00f067aa0ba902b7-01,00-0af7651916cd43dd8448eb211c80319c-b7ad6b7169203331-01",
	"00-4bf92f3577b34da6a3ce929d0e0e473g-00f067aa0ba902b7-01",
	"00-+bf92f3577b34da6a3ce929d0e0e4736-00f067aa0ba902b7-01",
	"00-0x4bf92f3577b34da6a3ce929d0e0e47-00f067aa0ba902b7-01",
	"00-4bf92f3577b34da6a3ce929d0e0e47š-00f067aa0ba902b7-01", // 32 bytes, 31 runes
	"00-4bf92f3577b34da6a3ce929d0e0e4736-00f067aa0ba902š-01",
	"00-4bf92f3577b34da6a3ce929d0e0e4736-00f067aa0ba902b7-š",
	"š-4bf92f3577b34da6a3ce929d0e0e4736-00f067aa0ba902b7-01",
	"", "-", "---", "00", "00-", "00---01", "traceparent",
}

var tpPieces = []string{"0", "a", "f", "A", "F", "g", "-", "_", " ", "\t", "\n", "+", "x", ",", ";", "\x00", "\x80", "\xff", "\u0161", "\u0130", "\u00e9", "\uff10" /* fullwidth 0 */, "\u0661" /* arabic-indic 1 */}

func genIDHex(n int) *rapid.Generator[string] {
	return rapid.Custom(func(t *rapid.T) string {
		b := make([]byte, n)
		switch rapid.IntRange(0, 9).Draw(t, "idkind") {
		case 0:
			// all zero
		case 1:
			b[n-1] = 1
		case 2:
			b[0] = 0x80
		case 3:
			for i := range b {
				b[i] = 0xff
			}
		case 4:
			for i := range b {
				b[i] = 0xab + byte(i%3)*0x11 // letters only: ab bc cd
			}
		default:
			copy(b, rapid.SliceOfN(rapid.Byte(), n, n).Draw(t, "idbytes"))
		}
		return hexOf(b)
	})
}

func flipCaseAt(s string, i int) string {
	b := []byte(s)
	switch {
	case b[i] >= 'a' && b[i] <= 'z':
		b[i] -= 32
	case b[i] >= 'A' && b[i] <= 'Z':
		b[i] += 32
	}
	return string(b)
}

func mutateTP(t *rapid.T, s string) string {
	switch rapid.IntRange(0, 11).Draw(t, "mut") {
	case 0, 1, 2: // flip the case of one hex letter
		var letters []int
		for i := 0; i < len(s); i++ {
			if (s[i] >= 'a' && s[i] <= 'f') || (s[i] >= 'A' && s[i] <= 'F') {
				letters = append(letters, i)
			}
		}
		if len(letters) == 0 {
			return s
		}
		return flipCaseAt(s, rapid.SampledFrom(letters).Draw(t, "letter"))
	case 3:
		return strings.ToUpper(s)
	case 4: // delete one byte
		if len(s) == 0 {
			return s
		}
		p := rapid.IntRange(0, len(s)-1).Draw(t, "pos")
		return s[:p] + s[p+1:]
	case 5, 6: // insert / replace
		return splice(t, s, rapid.SampledFrom(tpPieces).Draw(t, "piece"))
	case 7: // truncate
		return s[:rapid.IntRange(0, len(s)).Draw(t, "cut")]
	case 8: // decorate the ends
		d := rapid.SampledFrom([]string{" ", "\t", "  ", "\n", "\r\n", "\x00", "-", ","}).Draw(t, "deco")
		if rapid.Bool().Draw(t, "front") {
			return d + s
		}
		return s + d
	case 9: // damage one dash
		var dashes []int
		for i := 0; i < len(s); i++ {
			if s[i] == '-' {
				dashes = append(dashes, i)
			}
		}
		if len(dashes) == 0 {
			return s
		}
		p := rapid.SampledFrom(dashes).Draw(t, "dash")
		return s[:p] + rapid.SampledFrom([]string{"_", " ", "", "--", "–", "=", "0"}).Draw(t, "dashrepl") + s[p+1:]
	case 10:
		return s + rapid.SampledFrom([]string{"-", "-00", "-extra", "0", "x", "-š"}).Draw(t, "suffix")
	default:
		return s + "," + s
	}
}

func genTraceparent() *rapid.Generator[string] {
	tid, sid := genIDHex(16), genIDHex(8)
	return rapid.Custom(func(t *rapid.T) string {
		switch k := rapid.IntRange(0, 15).Draw(t, "tpkind"); {
		case k <= 10:
			ver := rapid.SampledFrom([]string{"00", "00", "00", "00", "00", "00", "01", "fe", "ff", "0f", "cc", "10"}).Draw(t, "version")
			flags := rapid.SampledFrom([]string{"00", "01", "01", "00", "02", "03", "08", "09", "ff", "fe", "80", "0a"}).Draw(t, "flags")
			sfx := rapid.SampledFrom([]string{"", "", "", "", "", "", "", "-", "-00", "-extra", "-what-the-future-will-be-like", "--", ".x", "x"}).Draw(t, "suffix")
			s := ver + "-" + tid.Draw(t, "tid") + "-" + sid.Draw(t, "sid") + "-" + flags + sfx
			for n := rapid.SampledFrom([]int{0, 0, 0, 1, 1, 1, 1, 2, 2, 3}).Draw(t, "nmut"); n > 0; n-- {
				s = mutateTP(t, s)
			}
			return s
		case k <= 12:
			s := rapid.SampledFrom(w3cTraceparents).Draw(t, "const")
			if rapid.IntRange(0, 3).Draw(t, "mutconst") == 0 {
				s = mutateTP(t, s)
			}
			return s
		case k == 13: // dash-separated hex runs of near-miss lengths
			n := rapid.IntRange(1, 6).Draw(t, "parts")
			parts := make([]string, n)
			for i := range parts {
				l := rapid.SampledFrom([]int{0, 1, 2, 2, 3, 15, 16, 16, 17, 31, 32, 32, 33}).Draw(t, "len")
				parts[i] = genFrom("0123456789abcdef", l, l).Draw(t, "hex")
			}
			return strings.Join(parts, "-")
		default:
			return string(vk.GenText(70, true).Draw(t, "text"))
		}
	})
}

// ---------------------------------------------------------------------
// tracestate header strings

var w3cTracestates = []string{
	"rojo=00f067aa0ba902b7,congo=t61rcWkgMzE",
	"congo=t61rcWkgMzE,rojo=00f067aa0ba902b7",
	"vendorname1=opaqueValue1 , vendorname2=opaqueValue2",
	"vendorname1=opaqueValue1,\tvendorname2=opaqueValue2",
	"fw529a3039@dt=FOO", "0@a=1", "a@0=1", "a@=1", "@a=1",
	"foo=1,foo=2", "foo=1,,bar=2", "foo=1, ,bar=2", ",", ",,,", " ", "\t",
	"foo", "foo=", "=1", "=", "foo=1=2", "foo=bar=baz", "foo =1", "foo= 1", "foo=1 ", " foo=1",
	"Foo=1", "1foo=1", "foo=\x7f", "foo=\x1f", "foo=a,b", "aš=1", "a=š", "š=1", "a\xe1=1", "a=\xff", "kİ@s=1", "k@sź=1",
	"a=1,b=2,c=3,d=4,e=5,f=6,g=7,h=8,i=9,j=10,k=11,l=12,m=13,n=14,o=15,p=16,q=17,r=18,s=19,t=20,u=21,v=22,w=23,x=24,y=25,z=26,aa=27,ab=28,ac=29,ad=30,ae=31,af=32",
	"a=1,b=2,c=3,d=4,e=5,f=6,g=7,h=8,i=9,j=10,k=11,l=12,m=13,n=14,o=15,p=16,q=17,r=18,s=19,t=20,u=21,v=22,w=23,x=24,y=25,z=26,aa=27,ab=28,ac=29,ad=30,ae=31,af=32,ag=33",
}

// genHeaderMember draws one list-member as it may appear in a header.
func genHeaderMember(prev *[]string) *rapid.Generator[string] {
	vkey, okey, vval, oval := genValidKey(), genOddKey(), genValidValue(), genOddValue()
	return rapid.Custom(func(t *rapid.T) string {
		kind := rapid.IntRange(0, 23).Draw(t, "memberkind")
		switch kind {
		case 0:
			return rapid.SampledFrom([]string{"", "", " ", "\t", "  \t"}).Draw(t, "emptymember")
		case 1:
			return rapid.SampledFrom([]string{"novalue", "=", "=v", "k=", "k= ", "k==", "k=v=w", "k", "k =v"}).Draw(t, "brokenmember")
		}
		var k string
		switch {
		case (kind == 2 || kind == 3) && len(*prev) > 0: // duplicate key
			k = rapid.SampledFrom(*prev).Draw(t, "dupkey")
		case kind <= 5:
			k = okey.Draw(t, "oddkey")
		default:
			k = vkey.Draw(t, "key")
		}
		var v string
		if kind >= 6 && kind <= 8 {
			v = oval.Draw(t, "oddvalue")
		} else {
			v = vval.Draw(t, "value")
		}
		*prev = append(*prev, k)
		lead, mid, trail := "", "", ""
		if rapid.IntRange(0, 5).Draw(t, "ows") == 0 {
			lead = rapid.SampledFrom([]string{" ", "\t", "  ", " \t"}).Draw(t, "lead")
		}
		if rapid.IntRange(0, 5).Draw(t, "ows") == 0 {
			trail = rapid.SampledFrom([]string{" ", "\t", "  ", "\t "}).Draw(t, "trail")
		}
		if rapid.IntRange(0, 40).Draw(t, "midows") == 0 {
			mid = rapid.SampledFrom([]string{" ", "\t"}).Draw(t, "mid")
		}
		return lead + k + mid + "=" + v + trail
	})
}

// genTracestate draws a tracestate header value.
func genTracestate() *rapid.Generator[string] {
	return rapid.Custom(func(t *rapid.T) string {
		switch k := rapid.IntRange(0, 15).Draw(t, "tskind"); {
		case k == 0:
			return ""
		case k == 1:
			s := rapid.SampledFrom(w3cTracestates).Draw(t, "const")
			return s
		case k == 2:
			return string(vk.GenText(40, true).Draw(t, "text"))
		case k <= 6: // long, mostly legal list with unique keys: exercises 31/32/33 and one odd member
			n := rapid.SampledFrom([]int{30, 31, 32, 32, 33, 33, 34, 40}).Draw(t, "n")
			odd := -1
			if rapid.Bool().Draw(t, "withodd") {
				odd = rapid.IntRange(0, n-1).Draw(t, "oddat")
			}
			empties := rapid.IntRange(0, 3).Draw(t, "empties")
			var prev []string
			om := genHeaderMember(&prev)
			val := genValidValue()
			parts := make([]string, 0, n+empties)
			for i := 0; i < n; i++ {
				if i == odd {
					parts = append(parts, om.Draw(t, "odd"))
					continue
				}
				k := "m" + strconv.Itoa(i)
				if rapid.IntRange(0, 15).Draw(t, "fancykey") == 0 {
					k = genValidKey().Draw(t, "key")
				}
				prev = append(prev, k)
				parts = append(parts, k+"="+val.Draw(t, "v"))
			}
			for ; empties > 0; empties-- {
				p := rapid.IntRange(0, len(parts)).Draw(t, "emptyat")
				parts = append(parts[:p], append([]string{rapid.SampledFrom([]string{"", "", " "}).Draw(t, "empty")}, parts[p:]...)...)
			}
			return strings.Join(parts, ",")
		default:
			n := vk.GenLen(8, 1, 2, 3).Draw(t, "n")
			var prev []string
			m := genHeaderMember(&prev)
			var sb strings.Builder
			for i := 0; i < n; i++ {
				if i > 0 {
					sb.WriteString(rapid.SampledFrom([]string{",", ",", ",", ",", " , ", ",\t", ", ", ",,", ";"}).Draw(t, "sep"))
				}
				sb.WriteString(m.Draw(t, "member"))
			}
			return sb.String()
		}
	})
}
