package c03

import (
	"fmt"
	"net/http"
	"net/textproto"
	"sort"
	"strings"

	"go.opentelemetry.io/otel/propagation"
	"go.opentelemetry.io/otel/verif/internal/vk"
	"pgregory.net/rapid"
)

// The carrier is a generated dimension of its own: a carrier handed to
// Inject / Extract is rarely brand new. It is a request's http.Header (filled
// by net/http, by a proxy that forwards headers, by code that assigns to the
// map directly, by HTTP/2 or gRPC-style lower-case metadata copied over) or a
// plain map. What such a carrier already holds must not change what comes out
// of a round trip, and an entry the carrier's own addressing does not reach
// (http.Header: a key that is not in canonical form; map: another spelling of
// the key) is not "the header" Extract was given.
//
// The addressing rules used as the oracle are the documented ones of the
// storage types, never read back through the carrier under test:
//
//   - HeaderCarrier "adapts http.Header": Get/Set go through http.Header.Get /
//     Set, which address the entry under textproto.CanonicalMIMEHeaderKey(key)
//     ("To use non-canonical keys, access the map directly"). Get returns the
//     first field line, Set replaces all field lines.
//   - MapCarrier: the entry under exactly the key.

// PreEntry is one entry put into the carrier's underlying storage before the
// check's own headers.
type PreEntry struct {
	Key vk.Str `json:"key"` // as given to How; "raw" stores it verbatim
	// header carrier: the field lines; map carrier: only the first one counts
	// ("" when there is none).
	Vals []vk.Str `json:"vals,omitempty"`
	// raw: direct assignment to the underlying map (h[key] = vals);
	// add: http.Header.Add per value (map carrier: same as raw);
	// set: the carrier's own Set per value (the last one stays).
	How string `json:"how"`
}

func (e PreEntry) String() string {
	vs := make([]string, len(e.Vals))
	for i, v := range e.Vals {
		vs[i] = string(v)
	}
	return fmt.Sprintf("%s %q=%q", e.How, string(e.Key), vs)
}

// store is the storage under a carrier, kept accessible so that the check can
// fill it and read it without going through the carrier under test.
type store struct {
	kind string // map | header
	h    http.Header
	m    map[string]string
}

func newStore(kind string) *store {
	if kind == "header" {
		return &store{kind: kind, h: http.Header{}}
	}
	return &store{kind: "map", m: map[string]string{}}
}

func (s *store) carrier() propagation.TextMapCarrier {
	if s.kind == "header" {
		return propagation.HeaderCarrier(s.h)
	}
	return propagation.MapCarrier(s.m)
}

// field reads a field the way the storage type documents it (net/http for an
// http.Header, the exact key for a map); the carrier under test is not involved.
func (s *store) field(name string) string {
	if s.kind == "header" {
		return s.h.Get(name)
	}
	return s.m[name]
}

// addresses reports whether an entry stored as (how, key) is the entry the
// carrier's documented addressing reaches for name.
func (s *store) addresses(e PreEntry, name string) bool {
	key := string(e.Key)
	if s.kind == "header" {
		canon := textproto.CanonicalMIMEHeaderKey(name)
		if e.How == "raw" {
			return key == canon
		}
		return textproto.CanonicalMIMEHeaderKey(key) == canon
	}
	return key == name
}

func (s *store) apply(e PreEntry) {
	key := string(e.Key)
	vals := make([]string, len(e.Vals))
	for i, v := range e.Vals {
		vals[i] = string(v)
	}
	switch {
	case e.How == "set":
		c := s.carrier()
		for _, v := range vals {
			c.Set(key, v)
		}
	case s.kind == "header" && e.How == "add":
		for _, v := range vals {
			s.h.Add(key, v)
		}
	case s.kind == "header":
		s.h[key] = vals
	default:
		first := ""
		if len(vals) > 0 {
			first = vals[0]
		}
		s.m[key] = first
	}
}

// rawKeys lists the keys of the underlying storage, sorted.
func (s *store) rawKeys() []string {
	var ks []string
	for k := range s.h {
		ks = append(ks, k)
	}
	for k := range s.m {
		ks = append(ks, k)
	}
	sort.Strings(ks)
	return ks
}

// classify adds the class labels of a pre-state.
func (s *store) classify(pre []PreEntry, info *vk.Info) {
	info.ClassIf(len(pre) > 0, "carrier_prefilled")
	for _, e := range pre {
		key := string(e.Key)
		canon := textproto.CanonicalMIMEHeaderKey(key)
		traceName := canon == "Traceparent" || canon == "Tracestate"
		info.ClassIf(traceName && s.kind == "header" && e.How == "raw" && key != canon, "prefilled_header_raw_non_canonical_trace_key")
		info.ClassIf(traceName && s.kind == "header" && e.How == "raw" && key == strings.ToLower(key), "prefilled_header_raw_lower_case_trace_key")
		info.ClassIf(traceName && s.kind == "header" && e.How != "raw", "prefilled_header_trace_key_through_api")
		info.ClassIf(traceName && s.kind == "map" && key != strings.ToLower(key), "prefilled_map_other_spelling_of_trace_key")
		info.ClassIf(traceName && s.kind == "map" && key == strings.ToLower(key), "prefilled_map_exact_trace_key")
		info.ClassIf(!traceName, "prefilled_unrelated_key")
		info.ClassIf(len(e.Vals) > 1, "prefilled_several_field_lines")
		info.ClassIf(len(e.Vals) == 0, "prefilled_no_field_line")
	}
}

func describePre(pre []PreEntry) string {
	if len(pre) == 0 {
		return ""
	}
	parts := make([]string, len(pre))
	for i, e := range pre {
		parts[i] = e.String()
	}
	return " [carrier pre-filled with: " + strings.Join(parts, "; ") + "]"
}

// ---------------------------------------------------------------------
// generator

var preNames = []string{
	"traceparent", "traceparent", "traceparent", "traceparent", "traceparent",
	"tracestate", "tracestate", "tracestate", "tracestate",
	"baggage", "x-request-id", "traceparent2", "trace-parent", "xtracestate", "traceſtate" /* long s: folds to "tracestate" */, "",
}

// genSpelling draws one way of writing name: as is (lower case), canonical
// MIME form, upper case, or a drawn mask of case flips.
func genSpelling(name string) *rapid.Generator[string] {
	return rapid.Custom(func(t *rapid.T) string {
		switch rapid.IntRange(0, 9).Draw(t, "spelling") {
		case 0, 1, 2, 3:
			return name
		case 4, 5:
			return textproto.CanonicalMIMEHeaderKey(name)
		case 6:
			return strings.ToUpper(name)
		default:
			b := []byte(name)
			for i := range b {
				if b[i] >= 'a' && b[i] <= 'z' && rapid.IntRange(0, 2).Draw(t, "flip") == 0 {
					b[i] -= 32
				}
			}
			return string(b)
		}
	})
}

// genDecoyValue draws a value for a pre-filled entry: mostly something that
// WOULD be taken for a trace header if it were read.
func genDecoyValue(name string) *rapid.Generator[string] {
	tid, sid := genNonZeroID(16), genNonZeroID(8)
	tp, ts, members := genTraceparent(), genTracestate(), genValidMembers(1, 2)
	return rapid.Custom(func(t *rapid.T) string {
		k := rapid.IntRange(0, 9).Draw(t, "decoykind")
		if strings.Contains(strings.ToLower(name), "state") {
			switch {
			case k <= 4:
				return joinMembers(members.Draw(t, "decoymembers"))
			case k <= 6:
				return ts.Draw(t, "decoyts")
			case k == 7:
				return ""
			}
			return "stale=1,verif=old"
		}
		switch {
		case k <= 4:
			return "00-" + tid.Draw(t, "decoytid") + "-" + sid.Draw(t, "decoysid") + "-" + rapid.SampledFrom([]string{"00", "01"}).Draw(t, "decoyflags")
		case k <= 6:
			return tp.Draw(t, "decoytp")
		case k == 7:
			return ""
		}
		return string(vk.GenText(12, true).Draw(t, "decoytext"))
	})
}

func genPreEntry() *rapid.Generator[PreEntry] {
	return rapid.Custom(func(t *rapid.T) PreEntry {
		name := rapid.SampledFrom(preNames).Draw(t, "prename")
		e := PreEntry{Key: vk.Str(genSpelling(name).Draw(t, "prekey"))}
		e.How = rapid.SampledFrom([]string{"raw", "raw", "raw", "add", "set"}).Draw(t, "prehow")
		n := rapid.SampledFrom([]int{1, 1, 1, 1, 1, 2, 2, 3, 0}).Draw(t, "prevals")
		val := genDecoyValue(name)
		for i := 0; i < n; i++ {
			e.Vals = append(e.Vals, vk.Str(val.Draw(t, "preval")))
		}
		return e
	})
}

// genPre draws the pre-state of a carrier: nothing in about half of the cases.
func genPre() *rapid.Generator[[]PreEntry] {
	entry := genPreEntry()
	return rapid.Custom(func(t *rapid.T) []PreEntry {
		n := rapid.SampledFrom([]int{0, 0, 0, 0, 1, 1, 2, 2, 3, 5}).Draw(t, "pre")
		var out []PreEntry
		for i := 0; i < n; i++ {
			out = append(out, entry.Draw(t, "preentry"))
		}
		return out
	})
}
