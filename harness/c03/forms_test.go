package c03

import (
	"context"

	"go.opentelemetry.io/otel/baggage"
	"go.opentelemetry.io/otel/propagation"
	"go.opentelemetry.io/otel/trace"
	"go.opentelemetry.io/otel/verif/internal/vk"
	"pgregory.net/rapid"
)

// Further "spellings" of a round trip: the form of the propagator (the bare
// TraceContext or composites of it with a Baggage neighbour), the way the span
// context is put together (one SpanContextConfig or a chain of With* calls in
// a drawn order), the accessor the extracted span context is read through,
// and further hops that edit the tracestate before injecting again.

var propForms = []string{"direct", "direct", "composite", "baggage_first", "baggage_last", "nested"}

// newProp builds the propagator of a form; unknown forms are the bare one.
func newProp(form string) propagation.TextMapPropagator {
	tc := propagation.TraceContext{}
	switch form {
	case "composite":
		return propagation.NewCompositeTextMapPropagator(tc)
	case "baggage_first":
		return propagation.NewCompositeTextMapPropagator(propagation.Baggage{}, tc)
	case "baggage_last":
		return propagation.NewCompositeTextMapPropagator(tc, propagation.Baggage{})
	case "nested":
		return propagation.NewCompositeTextMapPropagator(
			propagation.NewCompositeTextMapPropagator(),
			propagation.NewCompositeTextMapPropagator(propagation.Baggage{}, propagation.NewCompositeTextMapPropagator(tc)),
			propagation.Baggage{})
	}
	return tc
}

// withBaggage puts a small baggage into ctx so that a Baggage neighbour has
// something to write next to the trace headers.
func withBaggage(ctx context.Context) context.Context {
	m, err := baggage.NewMember("verif", "1")
	if err != nil {
		return ctx
	}
	b, err := baggage.New(m)
	if err != nil {
		return ctx
	}
	return baggage.ContextWithBaggage(ctx, b)
}

// buildSC puts a span context together. via "with": starting from the zero
// SpanContext the five With* methods are applied in the order given by order
// (a permutation of 0..4; anything else falls back to 0,1,2,3,4).
func buildSC(cfg trace.SpanContextConfig, via string, order []int) trace.SpanContext {
	if via != "with" {
		return trace.NewSpanContext(cfg)
	}
	seen := [5]bool{}
	ok := len(order) == 5
	for _, i := range order {
		if i < 0 || i > 4 || seen[i] {
			ok = false
			break
		}
		seen[i] = true
	}
	if !ok {
		order = []int{0, 1, 2, 3, 4}
	}
	var sc trace.SpanContext
	for _, i := range order {
		switch i {
		case 0:
			sc = sc.WithTraceID(cfg.TraceID)
		case 1:
			sc = sc.WithSpanID(cfg.SpanID)
		case 2:
			sc = sc.WithTraceFlags(cfg.TraceFlags)
		case 3:
			sc = sc.WithTraceState(cfg.TraceState)
		case 4:
			sc = sc.WithRemote(cfg.Remote)
		}
	}
	return sc
}

// Hop is one further service on the path: it takes the span context it
// extracted, edits the tracestate, starts a "child" (new span id, its own
// sampling decision) and injects that into a fresh carrier, from which the
// next service extracts.
type Hop struct {
	SpanID  string `json:"span_id"` // 16 lower-case hex digits, not all zero
	Flags   int    `json:"flags"`
	Edits   []Op   `json:"edits,omitempty"` // insert | delete, ABNF-valid keys and values
	Via     string `json:"via"`             // with | config
	Carrier string `json:"carrier"`         // map | header
}

func genHops(members []Member) *rapid.Generator[[]Hop] {
	vkey, vval := genValidKey(), genValidValue()
	return rapid.Custom(func(t *rapid.T) []Hop {
		n := rapid.SampledFrom([]int{0, 0, 0, 1, 1, 2, 3}).Draw(t, "hops")
		gm := model(members).clone()
		var hops []Hop
		for i := 0; i < n; i++ {
			h := Hop{SpanID: genNonZeroID(8).Draw(t, "hop_sid"), Flags: rapid.SampledFrom([]int{0, 1, 1, 0, 3, 0xfe}).Draw(t, "hop_flags")}
			h.Via = rapid.SampledFrom([]string{"with", "config"}).Draw(t, "hop_via")
			h.Carrier = rapid.SampledFrom([]string{"map", "header"}).Draw(t, "hop_carrier")
			for e := rapid.SampledFrom([]int{0, 1, 1, 1, 2, 3}).Draw(t, "hop_edits"); e > 0; e-- {
				kind := rapid.IntRange(0, 5).Draw(t, "hop_edit")
				var k string
				switch {
				case kind <= 1 && len(gm) > 0: // an existing key (update / delete)
					k = gm[rapid.SampledFrom([]int{0, len(gm) - 1, len(gm) / 2}).Draw(t, "at")].K
				default:
					k = vkey.Draw(t, "hop_key")
				}
				if kind == 0 || kind == 5 {
					h.Edits = append(h.Edits, Op{Kind: "delete", K: vk.Str(k)})
					gm, _ = gm.delete(k)
				} else {
					v := vval.Draw(t, "hop_value")
					h.Edits = append(h.Edits, Op{Kind: "insert", K: vk.Str(k), V: vk.Str(v)})
					gm, _, _, _ = gm.insert(k, v)
				}
			}
			hops = append(hops, h)
		}
		return hops
	})
}

// runHops continues a round trip over c.Hops, starting from the context the
// first Extract returned. m is the reference model of the tracestate.
func runHops(prop propagation.TextMapPropagator, ctx context.Context, tid [16]byte, m model, hops []Hop, info *vk.Info, bad func(kind, format string, a ...any)) {
	for i, h := range hops {
		var sid [8]byte
		if !decodeLowerHex(sid[:], h.SpanID) || allZero(sid[:]) {
			panic("harness bug: the hop does not hold a valid span id")
		}
		cur := trace.SpanContextFromContext(ctx)
		ts := cur.TraceState()
		for _, e := range h.Edits {
			k, v := string(e.K), string(e.V)
			switch e.Kind {
			case "insert":
				next, ok, update, overflow := m.insert(k, v)
				if !ok {
					continue // not a valid member: ignored (the edit check judges rejections)
				}
				nts, err := ts.Insert(k, v)
				if err != nil {
					bad("hop_valid_member_rejected", "hop %d: Insert(%q, %q) into %q failed: %v", i+1, k, v, ts.String(), err)
					return
				}
				ts, m = nts, next
				info.ClassIf(update, "hop_updates_existing_member")
				info.ClassIf(overflow, "hop_insert_overflows_32")
			case "delete":
				m, _ = m.delete(k)
				ts = ts.Delete(k)
			}
		}
		cfg := trace.SpanContextConfig{TraceID: cur.TraceID(), SpanID: trace.SpanID(sid), TraceFlags: trace.TraceFlags(h.Flags), TraceState: ts}
		var child trace.SpanContext
		if h.Via == "with" {
			child = cur.WithSpanID(cfg.SpanID).WithTraceFlags(cfg.TraceFlags).WithTraceState(ts).WithRemote(false)
		} else {
			child = trace.NewSpanContext(cfg)
		}
		st := newStore(h.Carrier)
		prop.Inject(trace.ContextWithSpanContext(withBaggage(context.Background()), child), st.carrier())
		ctx = prop.Extract(baseContext(false), st.carrier())
		got := trace.SpanContextFromContext(ctx)
		want := joinMembers(m)
		sampled := h.Flags&1 == 1
		switch {
		case !got.IsValid() || !got.IsRemote():
			bad("hop_not_extracted", "hop %d: injected %s-%s flags %#02x tracestate %q (traceparent %q), extracted valid=%v remote=%v",
				i+1, hexOf(tid[:]), h.SpanID, h.Flags, want, st.field("traceparent"), got.IsValid(), got.IsRemote())
			return
		case got.TraceID() != trace.TraceID(tid):
			bad("hop_trace_id", "hop %d: trace id %s travelled, %s extracted", i+1, hexOf(tid[:]), got.TraceID())
		case got.SpanID() != trace.SpanID(sid):
			bad("hop_span_id", "hop %d: span id %s injected, %s extracted", i+1, h.SpanID, got.SpanID())
		case got.IsSampled() != sampled:
			bad("hop_sampled", "hop %d: flags %#02x injected, extracted flags %s", i+1, h.Flags, got.TraceFlags())
		}
		if gs := got.TraceState().String(); gs != want || got.TraceState().Len() != len(m) {
			bad("hop_tracestate", "hop %d: after the edits %v the tracestate must be %q, extracted %q (Len %d)", i+1, h.Edits, want, gs, got.TraceState().Len())
			return
		}
		checkTraceStateValue(got.TraceState(), "the tracestate extracted at a later hop", bad)
	}
	info.ClassIf(len(hops) > 0, "further_hops_with_tracestate_edits")
	info.ClassIf(len(hops) > 1, "two_or_more_further_hops")
}
