package c03

import (
	"fmt"
	"strings"
	"testing"
	"unicode/utf8"

	"go.opentelemetry.io/otel/trace"
	"go.opentelemetry.io/otel/verif/internal/vk"
	"pgregory.net/rapid"
)

// Op is one step of an edit sequence.
type Op struct {
	Kind string `json:"op"` // insert | delete | get | walk | reparse | fork
	K    vk.Str `json:"k,omitempty"`
	V    vk.Str `json:"v,omitempty"`
	// walk: stop after N callbacks (0 = never stop); fork: continue from
	// the state with index N modulo the number of states produced so far.
	N int `json:"n,omitempty"`
}

// SMCase is a start state and an edit sequence.
type SMCase struct {
	Init    []Member `json:"init"`     // ABNF-valid, unique keys, <= 32
	InitVia string   `json:"init_via"` // parse | insert
	Ops     []Op     `json:"ops"`
}

// genSM draws the start state and then lets a rapid state machine
// (t.Repeat) choose the operations; the generator keeps its own copy of the
// reference model only to aim keys at members that exist / do not exist.
func genSM(t *rapid.T) SMCase {
	c := SMCase{}
	c.Init = genValidMembers(0, 1, 30, 31, 32, 32).Draw(t, "init")
	c.InitVia = rapid.SampledFrom([]string{"parse", "insert"}).Draw(t, "initvia")
	gm := model(c.Init).clone()
	ghist := []model{gm}
	vkey, okey, vval, oval := genValidKey(), genOddKey(), genValidValue(), genOddValue()

	existing := func(t *rapid.T) (string, bool) {
		if len(gm) == 0 {
			return "", false
		}
		switch rapid.IntRange(0, 3).Draw(t, "which") {
		case 0:
			return gm[0].K, true
		case 1:
			return gm[len(gm)-1].K, true
		}
		return gm[rapid.IntRange(0, len(gm)-1).Draw(t, "at")].K, true
	}
	fresh := func(t *rapid.T) string {
		k := vkey.Draw(t, "key")
		if gm.index(k) >= 0 {
			if k2 := k + fmt.Sprint(len(c.Ops)); refKeyOK(k2) {
				k = k2
			}
		}
		return k
	}
	insert := func(k, v string) {
		c.Ops = append(c.Ops, Op{Kind: "insert", K: vk.Str(k), V: vk.Str(v)})
		gm, _, _, _ = gm.insert(k, v)
		ghist = append(ghist, gm)
	}
	del := func(k string) {
		c.Ops = append(c.Ops, Op{Kind: "delete", K: vk.Str(k)})
		gm, _ = gm.delete(k)
		ghist = append(ghist, gm)
	}
	insertNew := func(t *rapid.T) { insert(fresh(t), vval.Draw(t, "value")) }
	insertExisting := func(t *rapid.T) {
		k, ok := existing(t)
		if !ok {
			k = fresh(t)
		}
		insert(k, vval.Draw(t, "value"))
	}
	insertOddKey := func(t *rapid.T) { insert(okey.Draw(t, "oddkey"), vval.Draw(t, "value")) }
	insertOddValue := func(t *rapid.T) {
		k, ok := existing(t)
		if !ok || rapid.Bool().Draw(t, "newkey") {
			k = fresh(t)
		}
		insert(k, oval.Draw(t, "oddvalue"))
	}
	actions := map[string]func(*rapid.T){
		"insert_new_1":      insertNew,
		"insert_new_2":      insertNew,
		"insert_new_3":      insertNew,
		"insert_existing_1": insertExisting,
		"insert_existing_2": insertExisting,
		"insert_odd_key_1":  insertOddKey,
		"insert_odd_key_2":  insertOddKey,
		"insert_odd_value":  insertOddValue,
		"delete_existing": func(t *rapid.T) {
			k, ok := existing(t)
			if !ok {
				k = fresh(t)
			}
			del(k)
		},
		"delete_other": func(t *rapid.T) {
			if rapid.Bool().Draw(t, "odd") {
				del(okey.Draw(t, "oddkey"))
			} else {
				del(fresh(t))
			}
		},
		"get": func(t *rapid.T) {
			var k string
			switch rapid.IntRange(0, 2).Draw(t, "getkind") {
			case 0:
				k = okey.Draw(t, "oddkey")
			case 1:
				k = fresh(t)
			default:
				var ok bool
				if k, ok = existing(t); !ok {
					k = "a"
				}
			}
			c.Ops = append(c.Ops, Op{Kind: "get", K: vk.Str(k)})
		},
		"walk": func(t *rapid.T) {
			c.Ops = append(c.Ops, Op{Kind: "walk", N: rapid.IntRange(0, len(gm)+1).Draw(t, "stop")})
		},
		"reparse": func(t *rapid.T) {
			c.Ops = append(c.Ops, Op{Kind: "reparse"})
			ghist = append(ghist, gm)
		},
		"fork": func(t *rapid.T) {
			n := rapid.IntRange(0, len(ghist)-1).Draw(t, "state")
			c.Ops = append(c.Ops, Op{Kind: "fork", N: n})
			gm = ghist[n]
		},
	}
	t.Repeat(actions)
	return c
}

// hasLowByteLegalRune reports a multi-byte rune whose low byte is a legal
// key character (the input class of the repaired defect 3c7cff9).
func hasLowByteLegalRune(s string) bool {
	for i := 0; i < len(s); {
		r, n := utf8.DecodeRuneInString(s[i:])
		if r >= 0x80 && !(r == utf8.RuneError && n == 1) && isKeyChar(byte(r)) {
			return true
		}
		i += n
	}
	return false
}

type snapshot struct {
	ts  trace.TraceState
	m   model
	str string // joinMembers(m)
}

func snap(ts trace.TraceState, m model) snapshot { return snapshot{ts, m, joinMembers(m)} }

// walkEquals compares what Walk visits with want without allocating.
func walkEquals(ts trace.TraceState, want []Member) bool {
	i, same := 0, true
	ts.Walk(func(k, v string) bool {
		if i >= len(want) || want[i].K != k || want[i].V != v {
			same = false
		}
		i++
		return true
	})
	return same && i == len(want)
}

func runSM(c SMCase) ([]vk.Violation, vk.Info) {
	var vs []vk.Violation
	var info vk.Info
	bad := func(kind, format string, a ...any) { vs = append(vs, vk.V(kind, format, a...)) }

	if ms, ok := refParseTraceState(joinMembers(c.Init)); !ok || !sameMembers(ms, c.Init) {
		panic("harness bug: the case does not start from a valid tracestate")
	}
	m := model(c.Init).clone()
	cur, err := buildTraceState(c.Init, c.InitVia)
	if err != nil {
		bad("valid_tracestate_rejected", "building (%s) the ABNF-valid tracestate %q failed: %v", c.InitVia, joinMembers(m), err)
		return vs, info
	}
	hist := []snapshot{snap(cur, m)}

	// compare observes ts through every read accessor and compares with model.
	compare := func(ts trace.TraceState, want model, what string) {
		if s, w := ts.String(), joinMembers(want); s != w {
			bad("string_differs_from_model", "%s: String() = %q, model %q", what, s, w)
		}
		if ts.Len() != len(want) {
			bad("len_differs_from_model", "%s: Len() = %d, model %d", what, ts.Len(), len(want))
		}
		if !walkEquals(ts, want) {
			bad("walk_differs_from_model", "%s: Walk yields %v, model %v", what, readTraceState(ts), []Member(want))
		}
		for _, x := range want {
			if g := ts.Get(x.K); g != x.V {
				bad("get_differs_from_model", "%s: Get(%q) = %q, model %q", what, x.K, g, x.V)
				break
			}
		}
	}
	compare(cur, m, "start state")

	var overflowN, updateN int
	for i, op := range c.Ops {
		what := fmt.Sprintf("step %d (%s %q)", i, op.Kind, string(op.K))
		k, v := string(op.K), string(op.V)
		switch op.Kind {
		case "insert":
			nm, ok, upd, ovf := m.insert(k, v)
			nts, err := cur.Insert(k, v)
			switch {
			case ok && err != nil:
				bad("valid_member_rejected", "%s: Insert(%q, %q) on %q failed: %v", what, k, v, joinMembers(m), err)
			case !ok && err == nil:
				bad("invalid_member_accepted", "%s: Insert(%q, %q) succeeded although key valid=%v value valid=%v; result %q", what, k, v, refKeyOK(k), refValueOK(v), nts.String())
			case !ok:
				if got := readTraceState(nts); !sameMembers(got, m) {
					bad("failed_insert_returns_other_state", "%s: failed Insert returned %v, original %v", what, got, []Member(m))
				}
			}
			info.ClassIf(ok && upd, "insert_updates_existing_key")
			info.ClassIf(ok && upd && len(m) > 1 && m[len(m)-1].K == k, "update_of_right_most")
			info.ClassIf(ok && ovf, "insert_overflows_32")
			info.ClassIf(ok && !upd && !ovf, "insert_new_key")
			info.ClassIf(ok && upd && len(m) == 32, "update_at_32_members")
			info.ClassIf(!ok && !refKeyOK(k), "insert_invalid_key")
			info.ClassIf(!ok && refKeyOK(k), "insert_invalid_value")
			info.ClassIf(!ok && hasLowByteLegalRune(k), "insert_key_with_rune_whose_low_byte_is_legal")
			info.ClassIf(!ok && !utf8.ValidString(k), "insert_key_invalid_utf8")
			info.ClassIf(!ok && hasHighByte(v), "insert_value_with_byte>=0x80")
			info.ClassIf(len(v) == 256 && ok, "value_256_bytes")
			info.ClassIf(len(v) == 257, "value_257_bytes")
			info.ClassIf(len(k) == 256 && ok && !strings.Contains(k, "@"), "simple_key_256_bytes")
			info.ClassIf(len(k) == 257 && !strings.Contains(k, "@"), "simple_key_257_bytes")
			info.ClassIf(ok && len(k) > 241 && k[241] == '@', "tenant_241_bytes")
			info.ClassIf(!ok && len(k) > 242 && k[242] == '@', "tenant_242_bytes")
			info.ClassIf(ok && strings.Contains(k, "@"), "insert_multi_tenant_key")
			if ovf {
				overflowN++
			}
			if upd {
				updateN++
			}
			cur, m = nts, nm
			hist = append(hist, snap(cur, m))
		case "delete":
			nm, existed := m.delete(k)
			cur, m = cur.Delete(k), nm
			hist = append(hist, snap(cur, m))
			info.ClassIf(existed, "delete_existing_key")
			info.ClassIf(!existed, "delete_absent_key")
		case "get":
			if g := cur.Get(k); g != m.get(k) {
				bad("get_differs_from_model", "%s: Get(%q) = %q, model %q", what, k, g, m.get(k))
			}
			info.ClassIf(m.index(k) < 0, "get_absent_key")
		case "walk":
			var got []Member
			calls := 0
			cur.Walk(func(k, v string) bool {
				calls++
				got = append(got, Member{k, v})
				return calls != op.N
			})
			want := []Member(m)
			if op.N > 0 && op.N < len(want) {
				want = want[:op.N]
			}
			if !sameMembers(got, want) {
				bad("walk_stop", "%s: Walk stopping after %d callbacks visited %v, model %v", what, op.N, got, want)
			}
			info.ClassIf(op.N > 0 && op.N < len(m), "walk_stopped_early")
		case "reparse":
			p, err := trace.ParseTraceState(cur.String())
			if err != nil {
				bad("own_string_rejected", "%s: ParseTraceState(String()) of a state with %d members failed: %v; String() = %q", what, len(m), err, cur.String())
			} else {
				cur = p
				hist = append(hist, snap(cur, m))
			}
			info.ClassIf(len(m) == 32, "reparse_at_32_members")
		case "fork":
			h := hist[op.N%len(hist)]
			cur, m = h.ts, h.m
			info.Class("fork_to_earlier_state")
		default:
			panic("harness bug: unknown op " + op.Kind)
		}
		compare(cur, m, what)
		checkTraceStateValue(cur, what, bad)
		// immutability: no state handed out earlier may have changed
		for j := range hist {
			if j > 3 && j < len(hist)-6 {
				continue
			}
			if !walkEquals(hist[j].ts, hist[j].m) || hist[j].ts.String() != hist[j].str {
				bad("earlier_state_mutated", "%s changed state #%d handed out earlier: now %v, was %v", what, j, readTraceState(hist[j].ts), []Member(hist[j].m))
				break
			}
		}
		if len(vs) > 0 {
			break // the model and the implementation have diverged
		}
	}
	info.NonTrivial = overflowN > 0 || updateN > 0
	info.ClassIf(len(c.Init) == 32, "starts_full")
	info.ClassIf(len(c.Init) == 0, "starts_empty")
	info.ClassIf(overflowN > 1, "several_overflows")
	uniqueClasses(&info)
	return vs, info
}

func TestTraceStateMachine(t *testing.T) {
	vk.Run(t, vk.Spec[SMCase]{
		Property: "C03", Check: "tracestate",
		Rule: "start state of 0..32 valid members (biased to 30/31/32) built by ParseTraceState or Insert, then a rapid state machine (t.Repeat) over Insert (new / existing / odd key / odd value: multi-byte runes whose low byte is a legal key character, bytes >= 0x80, 256/257-byte keys and values, tenant forms), Delete (existing / absent / odd), Get, Walk with early stop, ParseTraceState(String()) and fork-back to an earlier state; " +
			"non-trivial = the sequence contains an insert that overflows 32 members or an update of an existing key; distinct = distinct case encodings",
		Quick: 10000, Thorough: 120000,
		Gen: genSM, Run: runSM,
	})
}
