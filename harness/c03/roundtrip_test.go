package c03

import (
	"context"
	"net/http"
	"strings"
	"testing"

	"go.opentelemetry.io/otel/propagation"
	"go.opentelemetry.io/otel/trace"
	"go.opentelemetry.io/otel/verif/internal/vk"
	"pgregory.net/rapid"
)

// RTCase is one valid span context to be injected and extracted again.
type RTCase struct {
	TraceID string   `json:"trace_id"` // 32 lower-case hex digits, not all zero
	SpanID  string   `json:"span_id"`  // 16 lower-case hex digits, not all zero
	Flags   int      `json:"flags"`    // 0..255
	Remote  bool     `json:"remote"`   // the injected context is itself remote
	Members []Member `json:"members"`  // tracestate, valid by the ABNF, unique keys, <= 32
	Build   string   `json:"build"`    // parse | insert: how the TraceState is obtained
	Carrier string   `json:"carrier"`  // map | header
	Prior   bool     `json:"prior"`    // the context handed to Extract already carries another span
	// PriorSame != 0: the context handed to Extract already carries a span
	// context with the SAME trace and span id as the carrier (the hop reuses
	// the context it injected from): 1 the very injected span context,
	// 2 a local one with the sampled bit flipped and another tracestate,
	// 3 a remote one with the sampled bit flipped and no tracestate.
	PriorSame int `json:"prior_same,omitempty"`
	// Dirty: the carrier is not brand new when Inject runs: 1 it already holds
	// a stale traceparent and tracestate (forwarded headers), 2 another span
	// context was injected into it just before. Inject replaces the headers.
	Dirty int `json:"dirty,omitempty"`
	// Pre: what the carrier's underlying storage (http.Header / map) holds
	// before anything else happens: entries under any spelling of the trace
	// header names and under unrelated names, stored verbatim, through
	// http.Header.Add or through the carrier's Set (see carrier_test.go).
	Pre []PreEntry `json:"pre,omitempty"`
	// Prop: form of the propagator (see forms_test.go): direct | composite |
	// baggage_first | baggage_last | nested. Empty = direct.
	Prop string `json:"prop,omitempty"`
	// SCVia "with": the span context is put together by the With* methods in
	// the order WithOrder (permutation of 0..4) instead of one config.
	SCVia     string `json:"sc_via,omitempty"`
	WithOrder []int  `json:"with_order,omitempty"`
	// Hops: further services that edit the tracestate and inject again.
	Hops []Hop `json:"hops,omitempty"`
}

func genNonZeroID(n int) *rapid.Generator[string] {
	return rapid.Custom(func(t *rapid.T) string {
		b := make([]byte, n)
		switch rapid.IntRange(0, 7).Draw(t, "idkind") {
		case 0:
			b[n-1] = 1
		case 1:
			b[0] = 0x80
		case 2:
			b[0] = 0x01
		case 3:
			for i := range b {
				b[i] = 0xff
			}
		default:
			copy(b, rapid.SliceOfN(rapid.Byte(), n, n).Draw(t, "idbytes"))
			if allZero(b) {
				b[n/2] = 0x10
			}
		}
		return hexOf(b)
	})
}

func genRT(t *rapid.T) RTCase {
	c := RTCase{}
	c.TraceID = genNonZeroID(16).Draw(t, "tid")
	c.SpanID = genNonZeroID(8).Draw(t, "sid")
	if rapid.Bool().Draw(t, "cornerflags") {
		c.Flags = rapid.SampledFrom([]int{0, 1, 1, 2, 3, 0x80, 0xfe, 0xff}).Draw(t, "flags")
	} else {
		c.Flags = rapid.IntRange(0, 255).Draw(t, "flags")
	}
	c.Remote = rapid.Bool().Draw(t, "remote")
	c.Members = genValidMembers(0, 1, 2, 31, 32, 32).Draw(t, "tracestate")
	c.Build = rapid.SampledFrom([]string{"parse", "insert"}).Draw(t, "build")
	c.Carrier = rapid.SampledFrom([]string{"map", "header"}).Draw(t, "carrier")
	c.Prior = rapid.Bool().Draw(t, "prior")
	c.PriorSame = rapid.SampledFrom([]int{0, 0, 0, 1, 2, 3}).Draw(t, "prior_same")
	c.Dirty = rapid.SampledFrom([]int{0, 0, 0, 1, 2}).Draw(t, "dirty_carrier")
	c.Pre = genPre().Draw(t, "carrier_pre_state")
	c.Prop = rapid.SampledFrom(propForms).Draw(t, "propagator_form")
	if rapid.Bool().Draw(t, "sc_by_with_methods") {
		c.SCVia = "with"
		c.WithOrder = rapid.Permutation([]int{0, 1, 2, 3, 4}).Draw(t, "with_order")
	}
	c.Hops = genHops(c.Members).Draw(t, "hops")
	return c
}

// buildTraceState obtains a TraceState holding exactly ms (in that order)
// through the public API.
func buildTraceState(ms []Member, how string) (trace.TraceState, error) {
	if how == "insert" {
		var ts trace.TraceState
		for i := len(ms) - 1; i >= 0; i-- {
			var err error
			if ts, err = ts.Insert(ms[i].K, ms[i].V); err != nil {
				return trace.TraceState{}, err
			}
		}
		return ts, nil
	}
	return trace.ParseTraceState(joinMembers(ms))
}

func newCarrier(kind string) propagation.TextMapCarrier {
	if kind == "header" {
		return propagation.HeaderCarrier(http.Header{})
	}
	return propagation.MapCarrier{}
}

type ctxKey struct{}

var (
	priorSC = trace.NewSpanContext(trace.SpanContextConfig{
		TraceID:    trace.TraceID{0xee, 1, 2, 3, 4, 5, 6, 7, 8, 9, 10, 11, 12, 13, 14, 0xee},
		SpanID:     trace.SpanID{0xdd, 1, 2, 3, 4, 5, 6, 0xdd},
		TraceFlags: 0x03,
	})
)

// baseContext is the context handed to Extract: it always carries an
// unrelated value and, when prior is set, a local span context.
func baseContext(prior bool) context.Context {
	ctx := context.WithValue(context.Background(), ctxKey{}, "marker")
	if prior {
		ctx = trace.ContextWithSpanContext(ctx, priorSC)
	}
	return ctx
}

func runRT(c RTCase) ([]vk.Violation, vk.Info) {
	var vs []vk.Violation
	var info vk.Info
	bad := func(kind, format string, a ...any) { vs = append(vs, vk.V(kind, format, a...)) }

	var tid [16]byte
	var sid [8]byte
	if !decodeLowerHex(tid[:], c.TraceID) || !decodeLowerHex(sid[:], c.SpanID) || allZero(tid[:]) || allZero(sid[:]) {
		panic("harness bug: the case does not hold valid ids")
	}
	if ms, ok := refParseTraceState(joinMembers(c.Members)); !ok || !sameMembers(ms, c.Members) {
		panic("harness bug: the case does not hold a valid tracestate")
	}
	wantTS := joinMembers(c.Members)
	sampled := c.Flags&1 == 1

	info.NonTrivial = len(c.Members) > 0 || c.Flags != 0
	info.ClassIf(len(c.Members) == 0, "tracestate_empty")
	info.ClassIf(len(c.Members) == 32, "tracestate_32_members")
	info.ClassIf(len(c.Members) == 31, "tracestate_31_members")
	info.ClassIf(c.Flags > 1, "flag_bits_beyond_sampled")
	info.ClassIf(sampled, "sampled")
	info.ClassIf(c.Carrier == "header", "http_header_carrier")
	info.ClassIf(c.Build == "insert", "tracestate_built_by_insert")
	for _, m := range c.Members {
		info.ClassIf(len(m.V) == 256, "value_256_bytes")
		info.ClassIf(len(m.K) == 256, "simple_key_256_bytes")
		info.ClassIf(len(m.K) > 200 && len(m.K) != 256, "long_key")
		info.ClassIf(strings.Contains(m.K, "@"), "multi_tenant_key")
		info.ClassIf(strings.Contains(m.V, " "), "value_with_inner_blank")
	}
	uniqueClasses(&info)

	// the ID parsers of the trace package agree with the reference on valid ids
	if got, err := trace.TraceIDFromHex(c.TraceID); err != nil || got != trace.TraceID(tid) {
		bad("traceid_from_hex", "TraceIDFromHex(%q) = %v, %v", c.TraceID, got, err)
	}
	if got, err := trace.SpanIDFromHex(c.SpanID); err != nil || got != trace.SpanID(sid) {
		bad("spanid_from_hex", "SpanIDFromHex(%q) = %v, %v", c.SpanID, got, err)
	}

	ts, err := buildTraceState(c.Members, c.Build)
	if err != nil {
		bad("valid_tracestate_rejected", "building (%s) the ABNF-valid tracestate %q failed: %v", c.Build, wantTS, err)
		return vs, info
	}
	if ts.String() != wantTS || ts.Len() != len(c.Members) {
		bad("tracestate_string", "TraceState built (%s) from %q: String() = %q, Len() = %d", c.Build, wantTS, ts.String(), ts.Len())
	}

	sc := buildSC(trace.SpanContextConfig{
		TraceID: trace.TraceID(tid), SpanID: trace.SpanID(sid), TraceFlags: trace.TraceFlags(c.Flags), TraceState: ts, Remote: c.Remote,
	}, c.SCVia, c.WithOrder)
	info.ClassIf(c.SCVia == "with", "span_context_built_by_with_methods")
	prop := newProp(c.Prop)
	info.ClassIf(c.Prop != "" && c.Prop != "direct", "composite_propagator")
	info.ClassIf(c.Prop == "baggage_first" || c.Prop == "baggage_last" || c.Prop == "nested", "baggage_neighbour")
	st := newStore(c.Carrier)
	for _, e := range c.Pre {
		st.apply(e)
	}
	st.classify(c.Pre, &info)
	carrier := st.carrier()
	pre := describePre(c.Pre)
	// (A span context WITHOUT tracestate makes Inject write no tracestate
	// header at all, so a stale one would stay: the stale tracestate is only
	// put there when the injected context has one of its own to replace it.)
	switch c.Dirty {
	case 1:
		carrier.Set("traceparent", "00-0af7651916cd43dd8448eb211c80319c-b7ad6b7169203331-01")
		if len(c.Members) > 0 {
			carrier.Set("tracestate", "stale=1,verif=old")
		}
	case 2:
		stale := priorSC
		if len(c.Members) > 0 {
			staleTS, _ := trace.ParseTraceState("stale=1")
			stale = stale.WithTraceState(staleTS)
		}
		prop.Inject(trace.ContextWithSpanContext(context.Background(), stale), carrier)
	}
	info.ClassIf(c.Dirty != 0, "carrier_already_holds_trace_headers")
	// Reading (see the package comment): a TextMapCarrier has no way to delete
	// a field, and Inject writes no tracestate header for a span context
	// without tracestate. A stale tracestate that the carrier's addressing
	// reaches therefore stays when nothing replaces it; the tracestate clause
	// is not judged for that combination (ids and flags still are).
	staleTS := len(c.Members) == 0 && st.field("tracestate") != ""
	info.ClassIf(staleTS, "stale_tracestate_reachable_and_none_injected(tracestate_not_judged)")
	prop.Inject(trace.ContextWithSpanContext(withBaggage(context.Background()), sc), carrier)

	wantTP := refFormatTraceparent(tid, sid, sampled)
	gotTP := carrier.Get("traceparent")
	if gotTP != wantTP {
		bad("injected_traceparent", "after Inject carrier.Get(\"traceparent\") = %q (the %s itself holds %q there), a version-00 sender must write %q (flags %#02x)%s",
			gotTP, c.Carrier, st.field("traceparent"), wantTP, c.Flags, pre)
	}
	if _, why := strictInjectedTraceparent(gotTP); why != "" {
		bad("injected_traceparent_grammar", "Inject wrote traceparent %q: %s%s", gotTP, why, pre)
	}
	gotTSH := carrier.Get("tracestate")
	if gotTSH != wantTS && !staleTS {
		bad("injected_tracestate", "after Inject carrier.Get(\"tracestate\") = %q (the %s itself holds %q there), span context holds %q%s",
			gotTSH, c.Carrier, st.field("tracestate"), wantTS, pre)
	}

	base := baseContext(c.Prior)
	switch c.PriorSame {
	case 1:
		base = trace.ContextWithSpanContext(base, sc)
	case 2:
		other, _ := trace.ParseTraceState("prior=same")
		base = trace.ContextWithSpanContext(base, sc.WithRemote(false).WithTraceFlags(sc.TraceFlags()^trace.FlagsSampled).WithTraceState(other))
	case 3:
		base = trace.ContextWithSpanContext(base, sc.WithRemote(true).WithTraceFlags(sc.TraceFlags()^trace.FlagsSampled).WithTraceState(trace.TraceState{}))
	}
	info.ClassIf(c.PriorSame != 0, "extract_into_context_that_already_holds_the_same_ids")
	out := prop.Extract(base, carrier)
	got := trace.SpanContextFromContext(out)
	if v, _ := out.Value(ctxKey{}).(string); v != "marker" {
		bad("context_value_lost", "the context returned by Extract lost an unrelated value")
	}
	switch {
	case c.PriorSame == 0 && got.Equal(trace.SpanContextFromContext(base)):
		bad("roundtrip_not_extracted", "Extract left the context untouched for traceparent %q tracestate %q%s", gotTP, gotTSH, pre)
		return vs, info
	}
	if got.TraceID() != trace.TraceID(tid) {
		bad("roundtrip_trace_id", "trace id %s injected, %s extracted%s", c.TraceID, got.TraceID(), pre)
	}
	if got.SpanID() != trace.SpanID(sid) {
		bad("roundtrip_span_id", "span id %s injected, %s extracted%s", c.SpanID, got.SpanID(), pre)
	}
	if got.IsSampled() != sampled {
		bad("roundtrip_sampled", "flags %#02x injected (sampled %v), extracted flags %s%s", c.Flags, sampled, got.TraceFlags(), pre)
	}
	if !got.IsRemote() {
		bad("roundtrip_not_remote", "the extracted span context is not marked remote")
	}
	if !got.IsValid() {
		bad("roundtrip_invalid", "the extracted span context reports IsValid() == false")
	}
	// the same span context is found through the other accessor
	if viaSpan := trace.SpanFromContext(out).SpanContext(); !viaSpan.Equal(got) {
		bad("extracted_span_context_differs_between_accessors", "SpanContextFromContext gives %s tracestate %q, SpanFromContext(ctx).SpanContext() gives %s tracestate %q",
			scSummary(got), got.TraceState().String(), scSummary(viaSpan), viaSpan.TraceState().String())
	}
	gts := got.TraceState()
	if staleTS {
		return vs, info
	}
	if gts.String() != wantTS || gts.Len() != len(c.Members) {
		bad("roundtrip_tracestate", "tracestate %q injected, %q (Len %d) extracted%s", wantTS, gts.String(), gts.Len(), pre)
	} else {
		for _, m := range c.Members {
			if gts.Get(m.K) != m.V {
				bad("roundtrip_tracestate_get", "extracted tracestate Get(%q) = %q, injected %q", m.K, gts.Get(m.K), m.V)
				break
			}
		}
	}

	// a second hop writes the same headers
	carrier2 := newCarrier(c.Carrier)
	prop.Inject(out, carrier2)
	if carrier2.Get("traceparent") != wantTP || carrier2.Get("tracestate") != wantTS {
		bad("second_hop_differs", "re-injecting the extracted context wrote traceparent %q tracestate %q, first hop %q / %q",
			carrier2.Get("traceparent"), carrier2.Get("tracestate"), wantTP, wantTS)
	}
	if len(vs) == 0 {
		runHops(prop, out, tid, model(c.Members).clone(), c.Hops, &info, bad)
	}
	return vs, info
}

func TestRoundTrip(t *testing.T) {
	vk.Run(t, vk.Spec[RTCase]{
		Property: "C03", Check: "roundtrip",
		Rule: "valid span contexts: non-zero ids (random and corner patterns), flags 0..255, 0..32 ABNF-valid unique tracestate members (simple and multi-tenant keys, 255/256-byte keys, 241@14 tenants, 255/256-byte values, inner blanks) " +
			"built by ParseTraceState or by Insert, put into a span context by one config or by the With* methods in a drawn order, injected by the bare TraceContext or a composite (with a Baggage neighbour before / after / nested) into a map or http.Header carrier " +
			"that is new or pre-filled (0..5 entries under any case spelling of traceparent / tracestate and unrelated names; stored verbatim in the underlying map, through http.Header.Add or through the carrier's Set; 0..3 field lines; stale valid, malformed and empty values) and extracted into a context with or without a prior span; " +
			"then 0..3 further hops (new span id and flags, 0..3 tracestate inserts / updates / deletes, fresh carrier) against the reference model; " +
			"non-trivial = tracestate non-empty or flags != 0; distinct = distinct case encodings",
		Quick: 12000, Thorough: 150000,
		Gen: genRT, Run: runRT,
	})
}
